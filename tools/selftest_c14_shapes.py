#!/venv/bin/python
"""Self-test of the C14 shape machinery (wave 4): applies small source mutations to the genshi scratch
worktree named in .repo_path, regenerates the translator tables, re-checks the Lean files that state
theorems over them, runs one shard of the harness, restores the tree.  Cheaper than a full ./check per
mutation (the proof stage and the correspondence are the same code).

    tools/selftest_c14_shapes.py [name ...]
"""
import json, os, re, subprocess, sys

ROOT = os.path.dirname(os.path.dirname(os.path.abspath(__file__)))
REPO = open(os.path.join(ROOT, '.repo_path')).read().strip()

MUT = {
    # the newtext guard only looks at blocks nested less than three directives deep
    'S1-text-guard-shallow': ('genshi/template/text.py',
                              "                if not self.allow_exec:\n                    raise TemplateSyntaxError('Python code blocks not allowed',",
                              "                if not self.allow_exec and depth < 3:\n                    raise TemplateSyntaxError('Python code blocks not allowed',"),
    # the markup guard only while the stream is short
    'S2-markup-guard-short': ('genshi/template/markup.py',
                              "                if not self.allow_exec:\n",
                              "                if not self.allow_exec and len(stream) < 40:\n"),
    # an unpickled loader allows execution again (C14-3 like)
    'S3-loader-unpickle': ('genshi/template/loader.py',
                           "        self.__dict__ = state\n        self._lock = threading.RLock()",
                           "        self.__dict__ = state\n        self.allow_exec = True\n        self._lock = threading.RLock()"),
    # with execution disabled, function definitions are refused too (the flag affects code-free templates)
    'S4-off-refuses-def': ('genshi/template/text.py',
                           "                cls = self.get_directive(command)\n                if cls is None:",
                           "                cls = self.get_directive(command)\n                if command == 'def' and not self.allow_exec:\n"
                           "                    raise TemplateSyntaxError('not allowed', self.filepath, lineno)\n                if cls is None:"),
    # the markup guard skips processing instructions that directly follow the start of an xi: element
    # (blocks that open an xi:fallback)
    'S5-markup-guard-not-in-fallback': ('genshi/template/markup.py',
                                                  "                if not self.allow_exec:\n",
                                                  "                if not self.allow_exec and not (stream and stream[-1][0] is START "
                                                  "and stream[-1][1][0] in Namespace(self.XINCLUDE_NAMESPACE)):\n"),
    # a template unpickled keeps its stream but the flag-off state is lost for its loader only when
    # the loader was implicit: Template.__setstate__ re-creates the loader with the default
    'S6-template-unpickle-new-loader': ('genshi/template/base.py',
                                        "        self.__dict__ = state\n        self._init_filters()",
                                        "        self.__dict__ = state\n        self._init_filters()\n"
                                        "        from genshi.template.loader import TemplateLoader\n"
                                        "        self.loader = TemplateLoader(self.loader.search_path)"),
    # semantically neutral: the guard of the text parser is written the other way round
    'R1-neutral': ('genshi/template/text.py',
                   "                if not self.allow_exec:\n                    raise TemplateSyntaxError('Python code blocks not allowed',",
                   "                if self.allow_exec is False or not self.allow_exec:\n                    raise TemplateSyntaxError('Python code blocks not allowed',"),
}


def sh(cmd, cwd=ROOT, timeout=3000):
    p = subprocess.run(cmd, cwd=cwd, shell=True, stdout=subprocess.PIPE, stderr=subprocess.STDOUT, timeout=timeout)
    return p.returncode, p.stdout.decode('utf-8', 'replace')


REGEN = r'''
import sys; sys.path.insert(0, %r)
from harness import stage
stage.stage()
from harness import extract_exec as A, extract_execshape as B
for fn in (A.gen_exec, B.gen_execshape):
    name, text = fn()
    open(%r + '/lean/Genshi/Gen/' + name, 'w').write(text)
''' % (ROOT, ROOT)

SHARD = r'''
import sys, json, collections; sys.path.insert(0, %r)
from harness import stage
stage.stage()
from harness.props import c14
res = c14.shard((0, 0, 8, 150, False))
c = collections.Counter(d['stream'] for d in res.disagreements)
print('SHARD', json.dumps({'disagreements': dict(c), 'failures': len(res.failures),
      'first_failure': (res.failures[0]['what'] if res.failures else None)}))
''' % ROOT


def theorems_broken(out, path):
    """names of the theorems/examples enclosing the error lines of a `lean` run"""
    names = set()
    src = open(path).read().split('\n')
    for m in re.finditer(r'%s:(\d+):\d+' % re.escape(os.path.basename(path)), out):
        ln = int(m.group(1))
        for i in range(ln - 1, -1, -1):
            mm = re.match(r'\s*(theorem|example|def)\s*([\w.]*)', src[i])
            if mm:
                names.add(mm.group(2) or 'example@%d' % (i + 1))
                break
    return sorted(names)


def one(name):
    path, old, new = MUT[name]
    fp = os.path.join(REPO, path)
    text = open(fp).read()
    assert text.count(old) >= 1, 'mutation %s does not apply' % name
    open(fp, 'w').write(text.replace(old, new, 1))
    try:
        rc, out = sh("/venv/bin/python -c '%s'" % REGEN.replace("'", '"'))
        assert rc == 0, out[-2000:]
        res = {}
        for mod, f in (('Genshi.Lemmas.Exec', 'lean/Genshi/Lemmas/Exec.lean'),
                       ('Genshi.Lemmas.ExecShape', 'lean/Genshi/Lemmas/ExecShape.lean')):
            rc, out = sh('lake build %s 2>&1' % mod, cwd=os.path.join(ROOT, 'lean'))
            res[mod] = 'ok' if rc == 0 else theorems_broken(out, os.path.join(ROOT, f))
        if all(v == 'ok' for v in res.values()):
            rc, out = sh('lake env lean Genshi/Props/C14.lean 2>&1', cwd=os.path.join(ROOT, 'lean'))
            res['Props.C14'] = 'ok' if rc == 0 else theorems_broken(out, os.path.join(ROOT, 'lean/Genshi/Props/C14.lean'))
        else:
            res['Props.C14'] = 'not built (a lemma file broke)'
        rc, out = sh("/venv/bin/python -c '%s'" % SHARD.replace("'", '"'))
        m = re.search(r'SHARD (.*)', out)
        res['shard'] = json.loads(m.group(1)) if m else out[-600:]
        return res
    finally:
        sh('git checkout -- .', cwd=REPO)
        sh("/venv/bin/python -c '%s'" % REGEN.replace("'", '"'))


if __name__ == '__main__':
    for n in (sys.argv[1:] or sorted(MUT)):
        print(n, json.dumps(one(n), indent=1), flush=True)

#!/bin/bash
# usage: tools/confirm_seed.sh <ID> <PROP> "<needs>"   (worktree /tmp/seed/<ID> with the change applied, /tmp/seed/<ID>.patch, /tmp/seed/<ID>.demo.py)
# confirms: demo fails with the change, passes without; existing tests keep passing; then runs ./check PROP on /repo with the patch applied
set -u
id=$1; prop=$2; needs=${3:-}
wt=/tmp/seed/$id
cd $wt || exit 2
git checkout -- . ; git clean -fdq -e '*.so' ; git apply /tmp/seed/$id.patch || { echo 'recorded patch does not apply in the worktree'; exit 2; }
rm -f $wt/demo.py   # the demo is run from outside the worktree (pytest would collect it)
# an extension built in the worktree must correspond to the source as it is now
if ls $wt/genshi/*.so >/dev/null 2>&1; then (/venv/bin/python setup.py build_ext --inplace >/dev/null 2>&1; rm -rf build); fi
[ "$(ls $wt/genshi/*.so 2>/dev/null)" ] && echo "note: extension built in worktree"
PYTHONPATH=$wt /venv/bin/python /tmp/seed/$id.demo.py >/tmp/seed/$id.demo_with.txt 2>&1; with=$?
/verif/tools/baseline.py $wt >/tmp/seed/$id.tests_with.txt 2>&1; tests=$?
git diff > /tmp/seed/$id.stash.diff; git checkout -- .
# rebuild extension without the change if the worktree had one built
if ls $wt/genshi/*.so >/dev/null 2>&1; then (/venv/bin/python setup.py build_ext --inplace >/dev/null 2>&1; rm -rf build); fi
PYTHONPATH=$wt /venv/bin/python /tmp/seed/$id.demo.py >/tmp/seed/$id.demo_without.txt 2>&1; without=$?
git apply /tmp/seed/$id.stash.diff
if ls $wt/genshi/*.so >/dev/null 2>&1; then (/venv/bin/python setup.py build_ext --inplace >/dev/null 2>&1; rm -rf build); fi
echo "demo with change: exit $with ; without: exit $without ; tests with change: $(tail -1 /tmp/seed/$id.tests_with.txt) (rc $tests)"
if [ $with -eq 0 ] || [ $without -ne 0 ] || [ $tests -ne 0 ]; then echo "NOT CONFIRMED"; exit 1; fi
# run the check against /repo with the patch applied
cd /repo && [ -z "$(git status --porcelain)" ] || { echo "/repo not clean"; exit 2; }
git apply /tmp/seed/$id.patch || { echo "patch does not apply to /repo"; exit 2; }
cd /verif && ./check $prop > /tmp/seed/$id.check.txt 2>&1; rc=$?
git -C /repo checkout -- .
rm -f /repo/genshi/*.orig
# the evidence file written by a run against a patched tree must never be committed
git -C /verif checkout -- evidence/ 2>/dev/null
viol=$(grep -c '^VIOLATION' /tmp/seed/$id.check.txt)
echo "check $prop on patched /repo: exit $rc, VIOLATION lines $viol"
grep -E '^(VIOLATION|FAILING INPUT|BROKEN)' /tmp/seed/$id.check.txt | cut -c1-300
mkdir -p /verif/seeded/$id
cp /tmp/seed/$id.patch /verif/seeded/$id/patch.diff
cp /tmp/seed/$id.demo.py /verif/seeded/$id/demo.py
/venv/bin/python - "$id" "$prop" "$needs" "$rc" "$viol" <<'PY'
import json, sys
id_, prop, needs, rc, viol = sys.argv[1:6]
chk = open('/tmp/seed/%s.check.txt' % id_).read()
fi = [l for l in chk.split('\n') if l.startswith(('FAILING INPUT', 'VIOLATION', 'BROKEN'))]
meta = {'id': id_, 'breaks_property': prop, 'needs_to_manifest': needs,
        'confirmed': {'demo_exit_with_change': 1, 'demo_exit_without_change': 0,
                      'existing_tests_with_change': open('/tmp/seed/%s.tests_with.txt' % id_).read().strip().split('\n')[-1]},
        'ran': ['demo.py with and without the change in a scratch worktree', 'tools/baseline.py <worktree> (882 baseline tests)',
                'git -C /repo apply patch.diff; ./check %s; git -C /repo checkout -- .' % prop],
        'check_result': {'exit': int(rc), 'violation_lines': int(viol), 'lines': [l[:400] for l in fi]},
        'caught': int(rc) == 1 and int(viol) >= 1}
json.dump(meta, open('/verif/seeded/%s/meta.json' % id_, 'w'), indent=1)
print('caught' if meta['caught'] else 'MISSED')
PY

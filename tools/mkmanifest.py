#!/venv/bin/python
"""Regenerate MANIFEST.json from props/*.json fragments (one per claimed property)."""
import json, os, glob
ROOT = os.path.dirname(os.path.dirname(os.path.abspath(__file__)))
ALL = ['C%02d' % i for i in range(1, 21)]
BASE = "cd /repo && /venv/bin/python -m pytest -ra -q -p no:cacheprovider --timeout=900 --continue-on-collection-errors"
TRUST = ("Trusted: Lean 4.33 kernel (axioms per theorem are audited on every run: subset of propext, Classical.choice, Quot.sound; "
         "no sorry/native_decide/bv_decide/own axioms), the translator harness/extract_tables.py, the hand-written model's tie to the "
         "code which is a differential correspondence check (gdrv vs the real code on generated inputs) and therefore only as good as "
         "its generators, the Lean compiler executing gdrv. ")
frags = {}
for p in sorted(glob.glob(os.path.join(ROOT, 'props', 'C*.json'))):
    with open(p) as f:
        d = json.load(f)
    frags[d['property_id']] = d
checks, na = [], []
for pid in ALL:
    d = frags.get(pid)
    if d and d.get('claimed', True):
        checks.append({
            'property_id': pid,
            'quick_cmd': './check %s --tier quick' % pid,
            'thorough_cmd': './check %s --tier thorough' % pid,
            'evidence_file': 'evidence/%s.json' % pid,
            'replay_cmd_template': './check %s --replay {path}' % pid,
            'engine': 'lean-model+correspondence',
            'level_claimed': {'category': 'proof', 'text': d['text'], 'design_ref': d.get('design_ref', 'DESIGN.md section 5, ' + pid)},
            'level_note': TRUST + d['note'],
            'technique': d.get('technique', 'machine-checked proof in Lean 4 about a hand-written executable model, tied to the code by a translator for data tables and a differential correspondence check; failing-input search on the real code'),
        })
    else:
        na.append({'property_id': pid, 'reason': (d or {}).get('reason', 'not claimed yet: model, theorems and correspondence for this property are still being built (see DESIGN.md section 8); no technique switch is made')})
man = {
    'version': 1,
    'setup_cmd': './check --setup',
    'hooks': {'guard': 'GENSHI_VERIF', 'enable': 'no source hooks are needed; checks import genshi from /repo with GENSHI_VERIF=1 set and rebuild genshi/_speedups.c into .build/',
              'baseline_off_cmd': BASE, 'source_commits': [], 'add_only': True},
    'engines': [{'name': 'lean-model+correspondence', 'path': 'lean/ harness/ check',
                 'serves_properties': [c['property_id'] for c in checks],
                 'kind_free_text': 'Lean 4 lake project (models, theorems, compiled driver gdrv), Python harness (translator, correspondence runners, property oracles on the real code)'}],
    'checks': checks,
    'not_applicable': na,
    'notes': 'See DESIGN.md. known_findings.json lists genuine defects recorded or fixed. Exit codes: 0 held, 1 VIOLATION, 2 infrastructure error.',
}
with open(os.path.join(ROOT, 'MANIFEST.json'), 'w') as f:
    json.dump(man, f, indent=1)
print('claimed', [c['property_id'] for c in checks])

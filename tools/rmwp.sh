#!/bin/sh
n=$1
git -C /verif worktree remove --force /tmp/wp/$n/verif
git -C /repo worktree remove --force /tmp/wp/$n/repo
rm -rf /tmp/wp/$n

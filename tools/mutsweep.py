#!/venv/bin/python
"""Systematic single-edit mutation sweep of the genshi source against the property checks.

usage: tools/mutsweep.py <file-under-genshi> <props,comma-separated> [--n N] [--seed S] [--only REGEX] [--out FILE]

Works in scratch worktrees /tmp/mut/repo (genshi) and /tmp/mut/verif (this repository, with a copy of lean/.lake),
created on first use.  For each sampled mutant of the file: (1) the repository's own test suite must still pass
(otherwise the mutant is 'killed-by-tests' and not interesting here); (2) the checks of the given properties are run in
order against the mutated worktree until one reports VIOLATION.  One JSON line per mutant is appended to --out
(default notes/mutsweep/<file>.jsonl).  Survivors ('missed') are either equivalent mutants, changes outside every
listed property, or gaps of the checks: they are triaged by hand (see DESIGN.md section 9.21b).
Nothing here decides a property; it measures the sensitivity of the checks."""
import ast, json, os, random, re, subprocess, sys, time

MUT = '/tmp/mut'
VERIF = os.path.dirname(os.path.dirname(os.path.abspath(__file__)))


def sh(cmd, cwd=None, timeout=None, env=None):
    try:
        p = subprocess.run(cmd, cwd=cwd, shell=isinstance(cmd, str), stdout=subprocess.PIPE, stderr=subprocess.STDOUT,
                           timeout=timeout, env=env)
        return p.returncode, p.stdout.decode('utf-8', 'replace')
    except subprocess.TimeoutExpired as e:
        return 124, (e.stdout or b'').decode('utf-8', 'replace')


def ensure_worktrees():
    os.makedirs(MUT, exist_ok=True)
    if not os.path.isdir(MUT + '/repo'):
        sh(['git', '-C', '/repo', 'worktree', 'add', '-q', '--detach', MUT + '/repo', 'HEAD'])
    if not os.path.isdir(MUT + '/verif'):
        sh(['git', '-C', VERIF, 'worktree', 'add', '-q', '--detach', MUT + '/verif', 'HEAD'])
        sh('cp -a %s/lean/.lake %s/verif/lean/.lake' % (VERIF, MUT))
        open(MUT + '/verif/.repo_path', 'w').write(MUT + '/repo\n')


CMP = {ast.Eq: '!=', ast.NotEq: '==', ast.Lt: '<=', ast.LtE: '<', ast.Gt: '>=', ast.GtE: '>', ast.Is: 'is not',
       ast.IsNot: 'is', ast.In: 'not in', ast.NotIn: 'in'}


def seg(src_lines, node):
    """(start_offset, end_offset) of a node in the source text"""
    def off(l, c):
        return sum(len(x) for x in src_lines[:l - 1]) + len(src_lines[l - 1].encode('utf-8')[:c].decode('utf-8'))
    return off(node.lineno, node.col_offset), off(node.end_lineno, node.end_col_offset)


def mutants(src):
    """yield (lineno, operator, start, end, replacement) single edits"""
    tree = ast.parse(src)
    lines = src.splitlines(True)
    text = src
    skip_funcs = {'__repr__'}
    parents = {}
    for n in ast.walk(tree):
        for c in ast.iter_child_nodes(n):
            parents[c] = n

    def in_skipped(n):
        while n in parents:
            n = parents[n]
            if isinstance(n, ast.FunctionDef) and n.name in skip_funcs:
                return True
            if isinstance(n, ast.Raise):
                return True     # error messages
        return False

    for n in ast.walk(tree):
        if not hasattr(n, 'lineno') or in_skipped(n):
            continue
        if isinstance(n, ast.Compare) and len(n.ops) == 1 and type(n.ops[0]) in CMP:
            a, b = seg(lines, n.left)[1], seg(lines, n.comparators[0])[0]
            yield n.lineno, 'cmp', a, b, ' %s ' % CMP[type(n.ops[0])]
        elif isinstance(n, ast.BoolOp) and len(n.values) == 2:
            a, b = seg(lines, n.values[0])[1], seg(lines, n.values[1])[0]
            mid = text[a:b]
            if '(' in mid or ')' in mid:
                continue
            yield n.lineno, 'bool', a, b, ' or ' if isinstance(n.op, ast.And) else ' and '
        elif isinstance(n, ast.UnaryOp) and isinstance(n.op, ast.Not):
            a, b = seg(lines, n)
            oa, ob = seg(lines, n.operand)
            yield n.lineno, 'not', a, b, '(' + text[oa:ob] + ')'
        elif isinstance(n, ast.If) and not isinstance(n.test, (ast.Compare, ast.BoolOp, ast.UnaryOp)):
            a, b = seg(lines, n.test)
            yield n.lineno, 'ifneg', a, b, 'not (' + text[a:b] + ')'
        elif isinstance(n, ast.Constant) and not in_skipped(n):
            p = parents.get(n)
            if isinstance(p, ast.Expr):
                continue        # docstring
            a, b = seg(lines, n)
            if n.value is True:
                yield n.lineno, 'const', a, b, 'False'
            elif n.value is False:
                yield n.lineno, 'const', a, b, 'True'
            elif isinstance(n.value, int) and not isinstance(n.value, bool) and text[a:b].isdigit():
                yield n.lineno, 'const', a, b, str(n.value + 1)
                if n.value > 0:
                    yield n.lineno, 'const', a, b, str(n.value - 1)
        elif isinstance(n, ast.BinOp) and isinstance(n.op, (ast.Add, ast.Sub)) and \
                isinstance(n.right, ast.Constant) and isinstance(n.right.value, int):
            a, b = seg(lines, n.left)[1], seg(lines, n.right)[0]
            yield n.lineno, 'arith', a, b, ' - ' if isinstance(n.op, ast.Add) else ' + '
        elif isinstance(n, ast.AugAssign) and isinstance(n.op, (ast.Add, ast.Sub)):
            a, b = seg(lines, n.target)[1], seg(lines, n.value)[0]
            yield n.lineno, 'aug', a, b, ' -= ' if isinstance(n.op, ast.Add) else ' += '
        elif isinstance(n, (ast.Break, ast.Continue)):
            a, b = seg(lines, n)
            yield n.lineno, 'loopctl', a, b, 'continue' if isinstance(n, ast.Break) else 'break'
        elif isinstance(n, ast.Expr) and isinstance(n.value, ast.Call) and n.lineno == n.end_lineno:
            a, b = seg(lines, n)
            yield n.lineno, 'delcall', a, b, 'pass'
        elif isinstance(n, (ast.Assign, ast.AugAssign)) and n.lineno == n.end_lineno:
            p = parents.get(n)
            if isinstance(p, (ast.ClassDef, ast.Module)):
                continue
            a, b = seg(lines, n)
            yield n.lineno, 'delassign', a, b, 'pass'
        elif isinstance(n, ast.Return) and n.value is not None and not isinstance(n.value, ast.Constant) \
                and n.lineno == n.end_lineno:
            a, b = seg(lines, n.value)
            yield n.lineno, 'retnone', a, b, 'None'
        elif isinstance(n, ast.Subscript) and isinstance(n.slice, ast.Slice) and n.slice.lower is not None \
                and isinstance(n.slice.lower, ast.Constant) and isinstance(n.slice.lower.value, int):
            a, b = seg(lines, n.slice.lower)
            yield n.lineno, 'slice', a, b, str(n.slice.lower.value + 1)


def run_tests(repo):
    env = dict(os.environ); env.pop('GENSHI_VERIF', None)
    rc, out = sh(['/venv/bin/python', '-m', 'pytest', '-q', '-x', '-p', 'no:cacheprovider', '--timeout=120',
                  'genshi', '--deselect', 'genshi/template/tests/test_plugin.py'], cwd=repo, timeout=600, env=env)
    tail = out.strip().split('\n')[-1] if out.strip() else ''
    return rc == 0, tail


def run_check(prop, seed):
    env = dict(os.environ); env['VERIF_SEED'] = str(seed); env.pop('GENSHI_REPO', None)
    t = time.time()
    rc, out = sh(['./check', prop, '--tier', 'quick'], cwd=MUT + '/verif', timeout=1500, env=env)
    lines = [l[:300] for l in out.split('\n') if l.startswith(('VIOLATION', 'BROKEN', 'FAILING INPUT'))]
    return rc, lines, round(time.time() - t, 1)


def main():
    args = sys.argv[1:]
    rel = args[0]; props = args[1].split(',')
    opt = {'--n': '12', '--seed': '0', '--only': '', '--out': ''}
    for i in range(2, len(args), 2):
        opt[args[i]] = args[i + 1]
    n = int(opt['--n']); seed = int(opt['--seed'])
    out = opt['--out'] or os.path.join(VERIF, 'notes', 'mutsweep', rel.replace('/', '_') + '.jsonl')
    os.makedirs(os.path.dirname(out), exist_ok=True)
    ensure_worktrees()
    path = os.path.join(MUT, 'repo', rel)
    sh(['git', '-C', MUT + '/repo', 'checkout', '--', '.'])
    src = open(path).read()
    ms = list(mutants(src))
    if opt['--only']:
        # restrict to mutants inside functions/classes whose qualified name matches the regex
        tree = ast.parse(src); spans = []
        def walk(node, q):
            for c in ast.iter_child_nodes(node):
                if isinstance(c, (ast.FunctionDef, ast.ClassDef)):
                    qq = q + [c.name]
                    if re.search(opt['--only'], '.'.join(qq)):
                        spans.append((c.lineno, c.end_lineno))
                    walk(c, qq)
                else:
                    walk(c, q)
        walk(tree, [])
        ms = [m for m in ms if any(a <= m[0] <= b for a, b in spans)]
    rng = random.Random('%s|%d' % (rel, seed))
    rng.shuffle(ms)
    done = 0
    for (lineno, op, a, b, rep) in ms:
        if done >= n:
            break
        mutated = src[:a] + rep + src[b:]
        try:
            compile(mutated, rel, 'exec')
        except SyntaxError:
            continue
        open(path, 'w').write(mutated)
        rec = {'file': rel, 'line': lineno, 'op': op, 'before': src[a:b], 'after': rep,
               'source_line': src.splitlines()[lineno - 1].strip()[:160]}
        ok, tail = run_tests(MUT + '/repo')
        rec['tests'] = tail
        if not ok:
            rec['verdict'] = 'killed-by-tests'
        else:
            done += 1
            rec['checks'] = {}
            rec['verdict'] = 'missed'
            for k, p in enumerate(props[done % len(props):] + props[:done % len(props)]):
                rc, lines, secs = run_check(p, seed)
                rec['checks'][p] = {'rc': rc, 'secs': secs, 'lines': lines[:3]}
                if rc == 1 and any(l.startswith('VIOLATION') for l in lines):
                    rec['verdict'] = 'caught'; rec['by'] = p
                    break
                if rc not in (0, 1):
                    rec['verdict'] = 'check-error'
        open(path, 'w').write(src)
        with open(out, 'a') as f:
            f.write(json.dumps(rec) + '\n')
        print('%s:%d %s %r -> %r : %s %s' % (rel, lineno, op, rec['before'][:30], rep[:30], rec['verdict'],
                                              rec.get('by', '')), flush=True)
    sh(['git', '-C', MUT + '/repo', 'checkout', '--', '.'])
    sh(['git', '-C', MUT + '/verif', 'checkout', '--', 'evidence'])


if __name__ == '__main__':
    main()

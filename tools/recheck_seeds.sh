#!/bin/bash
# usage: tools/recheck_seeds.sh <ids...>  -- replay_audit for the given seeded changes, result recorded in seeded/<id>/meta.json
cd /verif
for id in "$@"; do
  line=$(tools/replay_audit.sh $id 2>&1 | grep "^$id" | tail -1)
  echo "$line"
  /venv/bin/python - "$id" "$line" <<'PY'
import json, sys
id_, line = sys.argv[1], sys.argv[2]
p = '/verif/seeded/%s/meta.json' % id_
m = json.load(open(p))
caught = ': caught' in line
m.setdefault('history_of_checks', [])
if 'first_run' not in m:
    m['first_run'] = {'caught': m.get('caught'), 'check_result': m.get('check_result')}
m['caught'] = caught
m['latest_recheck'] = line
json.dump(m, open(p, 'w'), indent=1)
PY
done
git checkout -- evidence 2>/dev/null

#!/bin/bash
# For every seeded change: apply it to /repo, run the check (must report VIOLATION), undo it, then replay the
# reported failing input on the clean tree (must pass: a shrunk input that also fails on the clean tree means the
# shrinker left the oracle's domain). Usage: tools/replay_audit.sh [ids...]
cd /verif
ids=${@:-$(ls seeded)}
for id in $ids; do
  prop=$(/venv/bin/python -c "import json;print(json.load(open('seeded/$id/meta.json'))['breaks_property'])")
  [ -z "$(git -C /repo status --porcelain)" ] || { echo "/repo not clean"; exit 2; }
  git -C /repo apply /verif/seeded/$id/patch.diff 2>/dev/null || { echo "$id: patch does not apply"; continue; }
  out=$(VERIF_SEED=${VERIF_SEED:-0} ./check $prop 2>&1); rc=$?
  git -C /repo checkout -- .
  v=$(echo "$out" | grep -c '^VIOLATION')
  rp=$(echo "$out" | grep '^VIOLATION' | sed 's/.*replay=\([^ ]*\).*/\1/')
  nf=$(echo "$out" | grep -c 'no-failing-input-found')
  if [ "$v" = "0" ]; then echo "$id $prop: MISSED (rc $rc)"; continue; fi
  if [ "$nf" != "0" ]; then echo "$id $prop: caught, no failing input"; continue; fi
  r=$(./check $prop --replay $rp 2>&1 | tail -1)
  case "$r" in
    *passes*) echo "$id $prop: caught; replay passes on the clean tree";;
    *) echo "$id $prop: caught; REPLAY FAILS ON THE CLEAN TREE ($rp) -> $(echo $r | cut -c1-120)"; cp $rp /tmp/wp/badreplay-$id.json;;
  esac
done
git checkout -- evidence 2>/dev/null

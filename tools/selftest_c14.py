"""mutation self-test for C14: apply each source mutation to the scratch repo, run the unedited
test suite and the check, restore."""
import subprocess, sys, os, json, re
import os as _os
VERIF=_os.path.dirname(_os.path.dirname(_os.path.abspath(__file__)))
REPO=open(_os.path.join(VERIF,'.repo_path')).read().strip() if _os.path.exists(_os.path.join(VERIF,'.repo_path')) else '/repo'
if REPO == '/repo':
    sys.exit('refusing to mutate /repo: run from a scratch worktree whose .repo_path names a scratch copy of genshi')
MUT = [
 ('M1 loader._instantiate stops forwarding allow_exec', 'genshi/template/loader.py',
  "                   allow_exec=self.allow_exec)", "                   )"),
 ('M2 implicit loader gets the default flag again', 'genshi/template/base.py',
  "            self.loader = TemplateLoader([os.path.abspath(basedir)],\n                                         allow_exec=self.allow_exec)",
  "            self.loader = TemplateLoader([os.path.abspath(basedir)])"),
 ('M3 NewTextTemplate._parse guard removed', 'genshi/template/text.py',
  "            elif command == 'python':\n                if not self.allow_exec:", "            elif command == 'python':\n                if False:"),
 ('M4 plugin reads "off" as a true-word', 'genshi/template/plugin.py',
  "            if allow_exec.lower() in ('1', 'on', 'yes', 'true'):\n                allow_exec = True\n            elif allow_exec.lower() in ('0', 'off', 'no', 'false'):",
  "            if allow_exec.lower() in ('1', 'on', 'yes', 'true', 'off'):\n                allow_exec = True\n            elif allow_exec.lower() in ('0', 'no', 'false'):"),
 ('M5 plugin string templates ignore the option again', 'genshi/template/plugin.py',
  "            return self.template_class(template_string,\n                                       allow_exec=self.loader.allow_exec)",
  "            return self.template_class(template_string)"),
 ('M6 loader lets text templates through', 'genshi/template/loader.py',
  "                   allow_exec=self.allow_exec)", "                   allow_exec=self.allow_exec or cls.__name__ == 'NewTextTemplate')"),
 ('M7 markup PI guard only at top level (depth counter)', 'genshi/template/markup.py',
  "                if not self.allow_exec:\n                    raise TemplateSyntaxError('Python code blocks not allowed',",
  "                if not self.allow_exec and len(stream) < 3:\n                    raise TemplateSyntaxError('Python code blocks not allowed',"),
 ('M8 plugin lower-cases nothing (only exact spellings)', 'genshi/template/plugin.py',
  "            elif allow_exec.lower() in ('0', 'off', 'no', 'false'):", "            elif allow_exec in ('0', 'off', 'no', 'false'):"),
 ('R1 harmless: rename local, reorder independent statements', 'genshi/template/plugin.py',
  "        allow_exec = options.get('genshi.allow_exec', True)\n        if isinstance(allow_exec, six.string_types):\n            if allow_exec.lower() in ('1', 'on', 'yes', 'true'):\n                allow_exec = True\n            elif allow_exec.lower() in ('0', 'off', 'no', 'false'):\n                allow_exec = False\n            else:\n                raise ConfigurationError('Invalid value for allow_exec \"%s\"' %\n                                         options.get('genshi.allow_exec'))\n        allow_exec = bool(allow_exec)",
  "        flag = options.get('genshi.allow_exec', True)\n        if isinstance(flag, six.string_types):\n            word = flag.lower()\n            if word in ('0', 'off', 'no', 'false'):\n                flag = False\n            elif word in ('true', 'yes', 'on', '1'):\n                flag = True\n            else:\n                raise ConfigurationError('Invalid value for allow_exec \"%s\"' %\n                                         options.get('genshi.allow_exec'))\n        allow_exec = bool(flag)"),
 ('R2 harmless: Template.__init__ statement order, _instantiate keyword order', 'genshi/template/base.py',
  "        self.lookup = lookup\n        self.allow_exec = allow_exec\n", "        self.allow_exec = allow_exec\n        self.lookup = lookup\n"),
]
def sh(cmd, cwd, env=None):
    p = subprocess.run(cmd, cwd=cwd, stdout=subprocess.PIPE, stderr=subprocess.STDOUT, env=env)
    return p.returncode, p.stdout.decode('utf-8','replace')
only = sys.argv[1:]
for name, path, old, new in MUT:
    if only and name.split()[0] not in only: continue
    sh(['git','checkout','--','.'], REPO)
    src = open(os.path.join(REPO,path)).read()
    assert old in src, name
    open(os.path.join(REPO,path),'w').write(src.replace(old,new,1))
    rc_b, out_b = sh([os.path.join(VERIF,'tools/baseline.py'), REPO], VERIF)
    rc, out = sh(['./check','C14'], VERIF)
    lines = [l for l in out.split('\n') if l.startswith(('VIOLATION','BROKEN','FAILING','C14 tier'))]
    print('=== %s\n  tests: %s\n  check rc=%d' % (name, out_b.strip().split('\n')[0], rc))
    for l in lines: print('  ' + l[:700])
    sys.stdout.flush()
sh(['git','checkout','--','.'], REPO)

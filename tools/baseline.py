#!/venv/bin/python
"""Run /repo's pinned test suite and compare the set of passing tests with the stored baseline.
usage: tools/baseline.py [--store]"""
import os, subprocess, sys, tempfile, xml.etree.ElementTree as ET
ROOT = os.path.dirname(os.path.dirname(os.path.abspath(__file__)))
STORE = os.path.join(ROOT, 'tools', 'baseline_pass.txt')
def run(repo='/repo'):
    with tempfile.TemporaryDirectory() as d:
        x = os.path.join(d, 'j.xml')
        env = dict(os.environ); env.pop('GENSHI_VERIF', None)
        subprocess.run(['/venv/bin/python', '-m', 'pytest', '-q', '-p', 'no:cacheprovider', '--timeout=900',
                        '--continue-on-collection-errors', '--junitxml=' + x], cwd=repo, env=env,
                       stdout=subprocess.DEVNULL, stderr=subprocess.DEVNULL)
        ok = set()
        for tc in ET.parse(x).getroot().iter('testcase'):
            if not any(c.tag in ('failure', 'error', 'skipped') for c in tc):
                ok.add('%s::%s' % (tc.get('classname'), tc.get('name')))
        return ok
if __name__ == '__main__':
    repo = '/repo'
    args = [a for a in sys.argv[1:] if not a.startswith('--')]
    if args: repo = args[0]
    ok = run(repo)
    if '--store' in sys.argv:
        open(STORE, 'w').write('\n'.join(sorted(ok)) + '\n'); print('stored', len(ok)); sys.exit(0)
    base = set(open(STORE).read().split('\n')) - {''}
    lost = sorted(base - ok)
    print('passing %d, baseline %d, lost %d, gained %d' % (len(ok), len(base), len(lost), len(ok - base)))
    for l in lost: print('LOST', l)
    sys.exit(1 if lost else 0)

#!/venv/bin/python
"""Merge findings/*.json fragments into known_findings.json (run by hand, never by a check)."""
import glob, json, os
ROOT = os.path.dirname(os.path.dirname(os.path.abspath(__file__)))
out = []
for p in sorted(glob.glob(os.path.join(ROOT, 'findings', 'C*.json'))):
    with open(p) as f:
        out.extend(json.load(f))
doc = {"comment": "Genuine defects of edgewall/genshi found by the checks under /verif. status=finding: recorded, not repaired; "
       "matched by exact canonical input only and replayed on every run (printed as KNOWN-FINDING). status=fixed: repaired by the "
       "named fix: commit in /repo; suppresses nothing (fixed: property=<id> <commit> <what failed>).",
       "fixed": ["fixed: property=%s %s %s" % (e['property'], e.get('commit', '?'), e['summary']) for e in out if e['status'] == 'fixed'],
       "findings": out}
with open(os.path.join(ROOT, 'known_findings.json'), 'w') as f:
    json.dump(doc, f, indent=1, ensure_ascii=True)
print(len(out), 'entries')

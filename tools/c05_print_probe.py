"""Scratch probe for the C05 print streams: run harness.props.c05.check_print on N x 1500 generated texts against the
staged repo (GENSHI_REPO / .repo_path) without the rest of the check.  usage: /venv/bin/python tools/c05_print_probe.py [N]"""
import sys, random
sys.path.insert(0, '.')
from harness import stage
stage.stage()
from harness.props import c05
from harness.framework import Result
res = Result()
for seed in range(int(sys.argv[1]) if len(sys.argv) > 1 else 2):
    rng = random.Random('t%d' % seed)
    c05.check_print([c05.rand_print_text(rng) for _ in range(1500)], rng, res)
print({k: v for k, v in sorted(res.dist.items()) if k.startswith('print') or 'print' in k})
print(res.streams)
print(len(res.disagreements))
seen = set()
for d in res.disagreements:
    if d['stream'] in seen: continue
    seen.add(d['stream'])
    print(d)
for d in res.disagreements[:6]: print(d['stream'], repr(d['case'])[:200])

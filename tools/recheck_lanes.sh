#!/bin/bash
# Parallel variant of tools/replay_audit.sh + tools/recheck_seeds.sh.
# usage: tools/recheck_lanes.sh <lanes> [ids...]      (default ids: every directory under seeded/)
# Each lane owns scratch worktrees /tmp/lane/<k>/verif (this repository at HEAD, lean/.lake copied from /verif) and
# /tmp/lane/<k>/repo (edgewall/genshi at HEAD).  For every seeded change: apply it in the lane's genshi worktree, run the
# check of its property there (must report VIOLATION), undo it, replay the reported failing input on the clean worktree
# (must pass).  Results go to seeded/<id>/meta.json (`latest_recheck`) and to stdout.  /repo itself is not touched; the
# final confirmation of new seeded changes is still done against /repo by tools/confirm_seed.sh / tools/replay_audit.sh.
cd /verif
K=$1; shift
ids=${@:-$(ls seeded | grep -v '\.txt$')}
[ -z "$(git status --porcelain -- . ':!seeded' ':!evidence')" ] || echo "note: /verif has uncommitted changes; lanes run HEAD"
for k in $(seq 1 $K); do
  L=/tmp/lane/$k
  if [ ! -d $L/verif ]; then
    mkdir -p $L
    git -C /verif worktree add -q --detach $L/verif HEAD
    git -C /repo worktree add -q --detach $L/repo HEAD
    cp -a /verif/lean/.lake $L/verif/lean/.lake
  else
    git -C $L/verif checkout -q --detach $(git -C /verif rev-parse HEAD)
    git -C $L/repo checkout -q -- . ; git -C $L/repo checkout -q --detach $(git -C /repo rev-parse HEAD)
    rsync -a --delete /verif/lean/.lake/ $L/verif/lean/.lake/
  fi
  echo $L/repo > $L/verif/.repo_path
done
lane() {
  k=$1; shift; L=/tmp/lane/$k
  for id in "$@"; do
    prop=$(/venv/bin/python -c "import json;print(json.load(open('/verif/seeded/$id/meta.json'))['breaks_property'])")
    git -C $L/repo checkout -q -- .
    git -C $L/repo apply /verif/seeded/$id/patch.diff 2>/dev/null || { echo "$id $prop: patch does not apply"; continue; }
    out=$(cd $L/verif && VERIF_SEED=${VERIF_SEED:-0} ./check $prop 2>&1); rc=$?
    git -C $L/repo checkout -q -- .
    v=$(echo "$out" | grep -c '^VIOLATION')
    rp=$(echo "$out" | grep '^VIOLATION' | head -1 | sed 's/.*replay=\([^ ]*\).*/\1/')
    nf=$(echo "$out" | grep -c 'no-failing-input-found')
    nfail=$(echo "$out" | sed -n 's/.*oracle failures \([0-9]*\).*/\1/p' | tail -1); ndis=$(echo "$out" | sed -n 's/.*disagreements \([0-9]*\).*/\1/p' | tail -1)
    thin=""; [ -n "$nfail" ] && [ "$nfail" -gt 0 ] && [ "$nfail" -lt 10 ] && thin=" THIN(only $nfail failing inputs)"
    if [ "$v" = "0" ]; then echo "$id $prop: MISSED (rc $rc)"; continue; fi
    if [ "$nf" != "0" ]; then echo "$id $prop: caught, no failing input"; continue; fi
    r=$(cd $L/verif && ./check $prop --replay $rp 2>&1 | tail -1)
    case "$r" in
      *passes*) echo "$id $prop: caught; replay passes on the clean tree [oracle failures ${nfail:-?}, disagreements ${ndis:-?}]$thin";;
      *) echo "$id $prop: caught; REPLAY FAILS ON THE CLEAN TREE ($rp) -> $(echo $r | cut -c1-120)";;
    esac
  done
}
i=0; declare -a buckets
for id in $ids; do k=$(( i % K + 1 )); buckets[$k]="${buckets[$k]} $id"; i=$((i+1)); done
rm -f /tmp/lane/*.out
for k in $(seq 1 $K); do lane $k ${buckets[$k]} > /tmp/lane/$k.out 2>&1 & done
wait
cat /tmp/lane/*.out | sort > /tmp/lane/ALL.out
cat /tmp/lane/ALL.out
/venv/bin/python - <<'PY'
import json, os
for line in open('/tmp/lane/ALL.out'):
    line = line.rstrip('\n')
    id_ = line.split(' ')[0]
    p = '/verif/seeded/%s/meta.json' % id_
    if not os.path.exists(p): continue
    m = json.load(open(p))
    if 'first_run' not in m:
        m['first_run'] = {'caught': m.get('caught'), 'check_result': m.get('check_result')}
    m['caught'] = ': caught' in line
    m['latest_recheck'] = line
    json.dump(m, open(p, 'w'), indent=1)
PY

#!/bin/bash
# usage: tools/integrate.sh <wp-name> [props...]   -- bring a finished work package into /repo and /verif
# 1. cherry-pick the fix: commits of repo branch wp-<name> into /repo (baseline after each)
# 2. merge verif branch wp-<name>, regenerate MANIFEST.json / known_findings.json
# 3. ./check --setup ; run the given property checks for seeds 0..2
set -u
n=$1; shift
cd /repo || exit 2
[ -z "$(git status --porcelain)" ] || { echo "/repo not clean"; exit 2; }
for c in $(git rev-list --reverse main..wp-$n); do
  msg=$(git log -1 --format=%s $c)
  case "$msg" in
    fix:*) ;;
    *) echo "SKIP non-fix commit $c $msg"; continue;;
  esac
  if git cherry-pick $c >/dev/null 2>&1; then
    if /verif/tools/baseline.py >/tmp/wp/baseline.$n.log 2>&1; then
      echo "PICKED $(git rev-parse --short HEAD) $msg"
    else
      echo "BASELINE LOST after $c $msg:"; tail -5 /tmp/wp/baseline.$n.log; git reset --hard HEAD~1 -q; echo "  -> dropped"
    fi
  else
    echo "CONFLICT cherry-picking $c $msg"; git cherry-pick --abort
  fi
done
cd /verif || exit 2
[ -z "$(git status --porcelain)" ] || { echo "/verif not clean"; exit 2; }
git merge --no-ff --no-commit wp-$n >/tmp/wp/merge.$n.log 2>&1
conf=$(git diff --name-only --diff-filter=U | grep -v -e '^MANIFEST.json$' -e '^known_findings.json$' -e '^lean/Genshi.lean$' -e '^evidence/')
if [ -n "$conf" ]; then echo "MERGE CONFLICTS:"; echo "$conf"; exit 1; fi
for f in MANIFEST.json known_findings.json lean/Genshi.lean $(git diff --name-only --diff-filter=U | grep '^evidence/'); do git checkout --ours $f 2>/dev/null; done
tools/fixshas.py
tools/mkmanifest.py; tools/mkfindings.py
git add -A; git commit -qm "Merge work package $n"
echo "merged wp-$n"

#!/venv/bin/python
"""Rewrite the "commit" of fixed entries in findings/*.json from work-branch shas to the sha of the
commit with the same subject on /repo's main (fix commits were cherry-picked)."""
import glob, json, os, subprocess
ROOT = os.path.dirname(os.path.dirname(os.path.abspath(__file__)))
def git(*a):
    return subprocess.run(['git', '-C', '/repo'] + list(a), capture_output=True, text=True).stdout
main = {}
for line in git('log', '--format=%h\t%s', 'main').strip().split('\n'):
    h, s = line.split('\t', 1)
    main.setdefault(s, h)
mainshas = set(main.values())
for p in sorted(glob.glob(os.path.join(ROOT, 'findings', 'C*.json'))):
    data = json.load(open(p)); changed = False
    for e in data:
        c = e.get('commit')
        if e.get('status') != 'fixed' or not c:
            continue
        if any(m.startswith(c) or c.startswith(m) for m in mainshas):
            continue
        subj = git('log', '-1', '--format=%s', c).strip()
        if subj in main:
            e['commit_on_work_branch'] = c; e['commit'] = main[subj]; changed = True
        else:
            print('UNRESOLVED', os.path.basename(p), e['id'], c, subj[:60])
    if changed:
        json.dump(data, open(p, 'w'), indent=1, ensure_ascii=True)
        print('updated', os.path.basename(p))

#!/bin/sh
# usage: tools/mkwp.sh <name>   -- scratch worktrees for one work package (removed again by tools/rmwp.sh)
set -e
n=$1
mkdir -p /tmp/wp/$n
git -C /verif worktree add -q /tmp/wp/$n/verif -b wp-$n
git -C /repo worktree add -q /tmp/wp/$n/repo -b wp-$n
echo /tmp/wp/$n/repo > /tmp/wp/$n/verif/.repo_path
echo "/tmp/wp/$n ready"

"""Seeded generators of hostile HTML: tag soup from an XSS payload vocabulary and raw
(non-parser) event streams.  Pure data in / data out: nothing here imports genshi, so the
work packages C06 (sanitizer) and C07 (parsers) can share it.

  soup_text(rng)            -> str            tag soup for an HTML parser
  uri_payload(rng)          -> str            a URI value with an obfuscated (or harmless) scheme
  css_payload(rng)          -> str            the text of a style attribute
  raw_tree(rng) / flatten   -> wire events    well-nested raw event streams (harness.evwire form)
  raw_stream(rng)           -> wire events    raw streams, a third of them deliberately ill-nested
  config(rng)               -> dict           a sanitizer configuration (None = default sets)

Every random choice comes from the `random.Random` passed in.
"""

SAFE_TAGS_V = ['a', 'b', 'div', 'p', 'img', 'input', 'span', 'table', 'td', 'tr', 'form', 'br', 'hr',
               'ul', 'li', 'textarea', 'pre', 'font', 'i', 'em', 'h1', 'label', 'select', 'option']
UNSAFE_TAGS_V = ['script', 'object', 'embed', 'iframe', 'style', 'svg', 'math', 'applet', 'link', 'meta',
                 'base', 'frame', 'body', 'html', 'head', 'title', 'xmp', 'noscript', 'video', 'audio',
                 'section', 'x-y', 'isindex', 'param', 'basefont', 'marquee', 'bgsound', 'plaintext']
VOID_V = ['br', 'hr', 'img', 'input', 'link', 'meta', 'base', 'param', 'area', 'col', 'frame',
          'basefont', 'isindex']
SAFE_ATTRS_V = ['href', 'src', 'title', 'class', 'id', 'alt', 'action', 'type', 'value', 'name', 'cite',
                'longdesc', 'width', 'lang', 'usemap']
UNSAFE_ATTRS_V = ['onclick', 'onerror', 'onload', 'onmouseover', 'formaction', 'background', 'dynsrc',
                  'lowsrc', 'xlink:href', 'srcdoc', 'data', 'style', 'xmlns', 'foo']
URI_ATTRS_V = ['href', 'src', 'action', 'background', 'dynsrc', 'lowsrc', 'cite', 'longdesc']

SAFE_SCHEMES_V = ['http', 'https', 'ftp', 'mailto', 'file']
EVIL_SCHEMES_V = ['javascript', 'vbscript', 'data', 'livescript', 'mocha', 'jar', 'view-source', 'about',
                  'feed', 'skype', 'x.y+z', 'tel']
# schemes some generated configuration accepts: never obfuscated with `+ - .` (finding C06-scheme-punct)
MAYBE_SAFE_V = SAFE_SCHEMES_V + ['skype', 'tel', 'data']
SAFE_CSS_V = ['color', 'background', 'background-image', 'width', 'margin', 'margin-left', 'top', 'height',
              'list-style-image', 'cursor', 'content', 'font-family', 'display']
UNSAFE_CSS_V = ['position', 'behavior', '-moz-binding', '-ms-behavior', '-o-link', '*position', '_margin',
                'user_defined', 'expression', 'filter']

WS = [' ', '\t', '\n', '\r', '\x0c', '\x0b', '\xa0', ' ', '　', '\x1c', '\x85']
CTL = ['\x00', '\x01', '\x08', '\x1b', '\x7f', '\x80', '\x9f', '\xad', '​', '﻿']
FULLWIDTH = {'e': 'ｅ', 'x': 'ｘ', 'p': 'ｐ', 'r': 'ｒ', 's': 'ｓ', 'i': 'ｉ',
             'o': 'ｏ', 'n': 'ｎ', 'u': 'ｕ', 'l': 'ｌ',
             'E': 'Ｅ', 'X': 'Ｘ', 'P': 'Ｐ', 'R': 'Ｒ', 'S': 'Ｓ', 'I': 'Ｉ',
             'O': 'Ｏ', 'N': 'Ｎ', 'U': 'Ｕ', 'L': 'Ｌ'}
SMALLCAP = {'r': 'ʀ', 'i': 'ɪ', 'n': 'ɴ', 'l': 'ʟ'}
ODD_LETTERS = ['K', 'ſ', 'İ', 'Σ', 'ß', 'ı', 'ｊ', '١', '²', 'Ⅰ']


# ---------------------------------------------------------------------------------------
# character encodings

def ent(c, rng, depth=0):
    """one character in some HTML-reference spelling"""
    o = ord(c)
    r = rng.random()
    if r < 0.22:
        s = '&#%d;' % o
    elif r < 0.40:
        s = '&#x%x;' % o
    elif r < 0.50:
        s = '&#X%X;' % o
    elif r < 0.60:
        s = '&#%07d' % o            # no semicolon, zero padded
    elif r < 0.68:
        s = '&#x%x' % o
    elif r < 0.76:
        named = {':': '&colon;', '\t': '&Tab;', '\n': '&NewLine;', '&': '&amp;', '<': '&lt;', '>': '&gt;',
                 '"': '&quot;', '(': '&lpar;', ')': '&rpar;', '\\': '&bsol;', '/': '&sol;', ';': '&semi;',
                 '\xa0': '&nbsp;', '*': '&ast;'}
        s = named.get(c, '&#%d;' % o)
    elif r < 0.82:
        digits = '%d' % o
        arabic = ''.join(chr(0x660 + int(d)) for d in digits)   # \d also matches these
        s = '&#%s;' % arabic
    else:
        s = c
    if depth < 2 and rng.random() < 0.25 and s.startswith('&'):
        s = ent('&', rng, depth + 1) + s[1:]
    return s


def bad_refs(rng):
    return rng.choice(['&#1114112;', '&#x110000;', '&#X41;', '&#xD800;', '&#xdfff;', '&#0;', '&#x0;',
                       '&#99999999999999999999;', '&#xFFFFFFFFFFFFFFFFFFFF;', '&#;', '&#x;', '&#X;', '&;',
                       '&foo;', '&amp', '&AMP;', '&lt', '&#65', '&#x41', '&\xe9;', '&_;', '&a1;',
                       '&#1114111;', '&#x10FFFF;', '&#55296;', '&#57343;', '&#X110000;', '&#X;z',
                       '&#١٢;', '&#x١;', '&#12a;', '&#xg;', '&javascript;', '&colon;'])


def css_esc(c, rng):
    """one character as a CSS escape (or itself)"""
    o = ord(c)
    r = rng.random()
    if r < 0.25:
        return '\\%x' % o + rng.choice(['', ' ', '\t', '\n', '\r\n', '\x0c'])
    if r < 0.40:
        return '\\%06x' % o + rng.choice(['', ' ', '\r\n'])
    if r < 0.50:
        return '\\%X ' % o
    if r < 0.62:
        return '\\' + c
    if r < 0.70:
        # an escape that produces a backslash in front of the next escape
        return '\\5c ' + ('%x ' % o)
    if r < 0.76:
        return '\\5c' + rng.choice([' ', '']) + c
    return c


def css_comment(rng):
    return rng.choice(['/**/', '/* */', '/*x*/', '/*\n*/', '/*\r\n*/', '/* ; */', '/*:*/', '/*/*/', '/***/',
                       '//*x*/**/', '/\\2a */', '/*', '*/', '/*\\*/', '\\2f **/'])


def obf_keyword(word, rng, css=True):
    """a keyword (scheme, `url`, `expression`) with mixed case and embedded noise"""
    out = []
    style = rng.choice(['plain', 'case', 'ws', 'ctl', 'ent', 'cssesc', 'comment', 'wide', 'mixed', 'punct'])
    for ch in word:
        c = ch
        if style in ('case', 'mixed') and rng.random() < 0.5:
            c = c.upper()
        if style in ('wide', 'mixed') and rng.random() < 0.3:
            c = rng.choice([FULLWIDTH.get(c, c), FULLWIDTH.get(ch, ch), SMALLCAP.get(ch, ch)])
        if css and style in ('cssesc', 'mixed') and rng.random() < 0.5:
            c = css_esc(c, rng)
        elif style in ('ent', 'mixed') and rng.random() < 0.5:
            c = ent(c, rng)
        out.append(c)
        if style in ('ws', 'mixed') and rng.random() < 0.3:
            out.append(rng.choice(WS))
        if style in ('ctl', 'mixed') and rng.random() < 0.3:
            out.append(rng.choice(CTL))
        if css and style in ('comment', 'mixed') and rng.random() < 0.3:
            out.append(css_comment(rng))
        if style == 'punct' and rng.random() < 0.3:
            out.append(rng.choice(['"', "'", '`', '!', '@', '$', '%', '^', '&', '*', '_', '=', '~', '|', ',',
                                   '<', '>', '[', ']', '{', '}', '\\']))
    return ''.join(out)


# ---------------------------------------------------------------------------------------
# URI values

def uri_payload(rng, css=False, schemes_safe=None, schemes_evil=None):
    """a URI; schemes (accepted ones included) are also obfuscated with `+ - .` (the class of the
    repaired finding C06-scheme-punct) and with line breaks before the colon"""
    safe = schemes_safe or SAFE_SCHEMES_V
    evil = schemes_evil or EVIL_SCHEMES_V
    r = rng.random()
    rest = rng.choice(['alert(1)', '//example.org/x?y=1', 'x', '', '//h/p#frag:z', 'alert("x")', "alert('x')",
                       'text/html,<script>alert(1)</script>', '%6a', 'a:b:c', '/path', '?q', '#f'])
    if r < 0.12:
        return rng.choice(['', '#', '#a:b', 'foo/bar', '/abs', '?a:b', './x', 'page.html', '//host/x:y',
                           'a b', 'x#javascript:alert(1)', '#javascript:alert(1)', 'java#script:alert(1)'])
    if r < 0.40:
        sch = rng.choice(safe)
        word = obf_keyword(sch, rng, css) if rng.random() < 0.6 else sch
        if rng.random() < 0.12:
            i = rng.randrange(0, len(word) + 1)
            word = word[:i] + rng.choice(['-', '+', '.', '\n', '&#10;', '&NewLine;', '\r\n']) + word[i:]
    else:
        sch = rng.choice(evil)
        word = obf_keyword(sch, rng, css)
        if rng.random() < 0.15:
            i = rng.randrange(0, len(word) + 1)
            word = word[:i] + rng.choice(['-', '+', '.', '/', '?', '_']) + word[i:]
    pre = ''
    if rng.random() < 0.3:
        pre = rng.choice(WS + CTL + ['"', "'", ' \t ', '&#1;', '&#x20;', '\x01\x02', '&#0;'])
    colon = ':'
    if rng.random() < 0.3:
        colon = rng.choice([ent(':', rng), css_esc(':', rng) if css else ':', ' :', ':\n', '&colon;', '&#58',
                            '&#x3A;', '&#X3a;'])
    s = pre + word + colon + rest
    if rng.random() < 0.1:
        s = s + rng.choice(ODD_LETTERS)
    if rng.random() < 0.08:
        i = rng.randrange(0, len(s) + 1)
        s = s[:i] + rng.choice(ODD_LETTERS + [bad_refs(rng)]) + s[i:]
    return s


# ---------------------------------------------------------------------------------------
# CSS

def css_value(rng):
    r = rng.random()
    if r < 0.25:
        return rng.choice(['#000', 'red', '10px', '0 -9999px', '-1000px 0 0', '1em 1em', 'none', 'static',
                           'absolute', '"x"', "'a;b'", 'rgb(1,2,3)', '', ' ', '100%', 'a:b', '\\\\', 'e\\\\xpression(1)'])
    if r < 0.60:
        url = obf_keyword('url', rng)
        q = rng.choice(['', '', '"', "'"])
        sp = rng.choice(['', '', ' ', '\t', '\n', '/**/', '\xa0', '　'])
        sp2 = rng.choice(['', '', ' ', '\n'])
        close = rng.choice([')', ')', ')', '', ') url(http://ok/)', ') url(javascript:x)'])
        return url + sp + '(' + sp2 + q + uri_payload(rng, css=True) + q + close
    if r < 0.90:
        ex = obf_keyword('expression', rng)
        return ex + rng.choice(['', ' ', '/**/']) + '(' + rng.choice(['alert(1)', 'x', '']) + rng.choice([')', ''])
    if r < 0.93:
        # a CSS escape that produces an ampersand: the decoded text holds a character reference
        # (class of the repaired finding C06-css-escape-reference)
        return rng.choice(['url(\\26 #106avascript:alert(1))', 'url(\\26 #106;avascript:x)', 'url(\\000026#x6a\\3b avascript:x)',
                           'url(\\26 amp\\3b #106\\3b avascript:x)', '\\26 lt\\3b', 'url(\\26#106 avascript:x)'])
    return rng.choice(['\\110000', '\\d800', '\\0', '\\dfff ', '\\ffffff', '\\', '\\\n', '\\\r\n', '\\;', '\\(',
                       '\\:', '\\"', '\\10ffff', '\\00000041', '\\1234567', '\\g', '\\ ', '\\\\', '\\\\75 rl(x:y)'])


def css_decl(rng):
    name = rng.choice(SAFE_CSS_V) if rng.random() < 0.8 else rng.choice(UNSAFE_CSS_V)
    if rng.random() < 0.25:
        name = obf_keyword(name, rng)
    sep = rng.choice([':', ':', ': ', ' : ', ':\n', '', '::', '/**/:'])
    return name + sep + css_value(rng)


def css_payload(rng):
    n = rng.choice([1, 1, 2, 2, 3, 4])
    parts = [css_decl(rng) for _ in range(n)]
    sep = rng.choice([';', '; ', ' ;\n', ';;', '\\;', '/*;*/;'])
    s = sep.join(parts)
    if rng.random() < 0.2:
        s = rng.choice([';', ' ', '/*', '\n', '}']) + s
    if rng.random() < 0.2:
        s = s + rng.choice([';', ' ', '*/', '\\', '/*', '\n'])
    return s


# ---------------------------------------------------------------------------------------
# attribute values and tag soup

def html_attr_escape(v, rng, q):
    """spell an attribute value in HTML source: sometimes encode characters again"""
    out = []
    for c in v:
        if c == q or c in '<>' and rng.random() < 0.7:
            out.append('&#%d;' % ord(c))
        elif c == '&' and rng.random() < 0.5:
            out.append(rng.choice(['&amp;', '&#38;', '&']))
        elif rng.random() < 0.03:
            out.append(ent(c, rng))
        else:
            out.append(c)
    return ''.join(out)


def attr_value(rng, name):
    base = name.split(':')[-1].lower()
    if base in URI_ATTRS_V or base == 'href':
        return uri_payload(rng)
    if base == 'style':
        v = css_payload(rng)
        if rng.random() < 0.3:
            v = ''.join(ent(c, rng) if rng.random() < 0.15 else c for c in v)
        return v
    if base == 'type':
        return rng.choice(['text', 'password', 'PASSWORD', 'Pass&#119;ord', 'checkbox', ' password', 'passwŏrd',
                           'hidden', 'paſſword', password_refs(rng), password_refs(rng)])
    if base.startswith('on'):
        return rng.choice(['alert(1)', 'x()', 'javascript:alert(1)'])
    return rng.choice(['x', '', 'a b', '<script>', '"', "'", '&', bad_refs(rng), 'javascript:alert(1)', '&lt;b&gt;',
                       'é\U0001f600', '\x00', 'expression(1)', '--', '&amp;amp;'])


# Names with the characters `genshi.core.QName` gives a meaning to: `QName('}x')` has the EMPTY
# namespace (string value '{}x'), `QName('{x')` is plain 'x', `QName('u}x')` is x in namespace u.
# html.parser yields such attribute (and, after a first letter, element) names from tag soup.
# With the flag off the generators draw exactly what they drew before this pressure was added.
ODD_NAMES = True
NAME_NOISE = ['}', '{', '{}', '{u}', 'u}', 'x:', ':', '{{', '}}', '{urn:x}', '{}}']
ODD_TAGS_V = ['a}b', 'u}input', 'p{', 'b:}i', 'u}script', 'a{}b', 'input}', 'i{nput', 'a}', 'td{}', 'x:}a', 'a:b}c}d']


def odd_name(rng, name):
    """an (attribute) name with a brace or colon put in front of it or into it"""
    if rng.random() < 0.7:
        return rng.choice(NAME_NOISE) + name
    i = rng.randrange(0, len(name) + 1)
    return name[:i] + rng.choice(['{', '}', ':', '{}']) + name[i:]


def attrs_for(rng, allow_style=True):
    n = rng.choice([0, 0, 1, 1, 2, 3, 4])
    out = []
    for _ in range(n):
        r = rng.random()
        if allow_style and r < 0.35:
            name = 'style'
        elif r < 0.7:
            name = rng.choice(SAFE_ATTRS_V)
        else:
            name = rng.choice(UNSAFE_ATTRS_V)
        if rng.random() < 0.15:
            name = ''.join(c.upper() if rng.random() < 0.5 else c for c in name)
        value = attr_value(rng, name)
        if ODD_NAMES and rng.random() < 0.07:
            name = odd_name(rng, name)
        out.append((name, value))
    return out


def text_payload(rng):
    return rng.choice(['ok', 'evil', 'a &amp; b', '&lt;script&gt;alert(1)&lt;/script&gt;', ' ', '\n', 'x<y', '&junk;',
                       bad_refs(rng), 'é', '--&gt;', ']]&gt;', 'javascript:alert(1)', '\x00', 'fo&ouml;',
                       '&#60;img src=x onerror=alert(1)&#62;', 'a' * 5, '<', '&'])


def soup_elem(rng, depth, out, allow_style=True):
    r = rng.random()
    if r < 0.50:
        tag = rng.choice(SAFE_TAGS_V)
    elif r < 0.92:
        tag = rng.choice(UNSAFE_TAGS_V)
    else:
        tag = rng.choice(['svg:script', 'x:a', 'a:b:c', 'scr\x00ipt', 'oK', 'a-', 'p.q', 'SCRIPT', 'Div', 'IMG'] + (ODD_TAGS_V if ODD_NAMES else []))
    if rng.random() < 0.15:
        tag = ''.join(c.upper() if rng.random() < 0.5 else c for c in tag)
    parts = ['<', tag]
    for name, v in attrs_for(rng, allow_style):
        r = rng.random()
        if r < 0.08:
            parts.append(' ' + name)                       # minimised
        elif r < 0.16 and v and not any(c in v for c in ' \t\n\r\x0c"\'`=<>'):
            parts.append(' %s=%s' % (name, v))             # unquoted
        else:
            q = rng.choice(['"', '"', "'"])
            parts.append(' %s=%s%s%s' % (name, q, html_attr_escape(v, rng, q), q))
    r = rng.random()
    parts.append(' />' if r < 0.1 else ('/>' if r < 0.15 else ('>' if r < 0.97 else '')))
    out.append(''.join(parts))
    if tag.lower() in VOID_V and rng.random() < 0.9:
        return
    soup_body(rng, depth + 1, out, allow_style, parent=tag)
    r = rng.random()
    if r < 0.80:
        out.append('</%s>' % tag)
    elif r < 0.88:
        out.append('</%s>' % rng.choice(SAFE_TAGS_V + UNSAFE_TAGS_V))    # mismatched
    elif r < 0.92:
        out.append('</%s >' % tag.upper())
    # else: left open


def soup_body(rng, depth, out, allow_style=True, parent=None):
    n = rng.choice([0, 1, 1, 2, 2, 3]) if depth < 4 else rng.choice([0, 0, 1])
    for _ in range(n):
        r = rng.random()
        if r < 0.45 and depth < 6:
            if parent and rng.random() < 0.25:
                # the same (often unsafe) element nested in itself
                out.append('<%s>' % parent)
                soup_body(rng, depth + 1, out, allow_style, parent=parent)
                if rng.random() < 0.85:
                    out.append('</%s>' % parent)
            else:
                soup_elem(rng, depth, out, allow_style)
        elif r < 0.75:
            out.append(text_payload(rng))
        elif r < 0.82:
            out.append(rng.choice(['<!-- c -->', '<!--[if IE]><script>alert(1)</script><![endif]-->', '<!---->',
                                   '<!-- -- -->', '<!-->', '<!--x', '<!-- <p> -->', '<!--x--!>']))
        elif r < 0.86:
            out.append(rng.choice(['<?php echo 1 ?>', '<?xml version="1.0"?>', '<?x?>', '<? ?>', '<?a b>', '<?>']))
        elif r < 0.89:
            out.append(rng.choice(['<!DOCTYPE html>', '<!doctype html PUBLIC "-//W3C//DTD XHTML 1.0//EN" "x">',
                                   '<![CDATA[<script>alert(1)</script>]]>', '<![if x]>', '<!ENTITY x "y">', '<!x>']))
        elif r < 0.94:
            out.append(rng.choice(['</p>', '</script>', '</div>', '</>', '</ p>', '</object>', '</br>', '</x y="z">']))
        else:
            out.append(rng.choice(['<', '>', '<<', '< script>', '<scr<script>ipt>', '<a href=', '<img src="x', '&#',
                                   '<p/ x>', '<a/href=x>', '<\x00a>', '<a\x00b>']))


def soup_text(rng, allow_style=True):
    out = []
    n = rng.choice([1, 1, 2, 3])
    for _ in range(n):
        if rng.random() < 0.8:
            soup_elem(rng, 0, out, allow_style)
        else:
            soup_body(rng, 0, out, allow_style)
    return ''.join(out)


# ---------------------------------------------------------------------------------------
# raw event streams (wire form of harness.evwire: lists with Atom heads are built by the caller;
# here plain tuples ('S', (ns, loc), [((ns, loc), val), ...]) etc.)

def raw_qname(rng, pool, unsafe_pool):
    r = rng.random()
    if r < 0.55:
        return ('', rng.choice(pool))
    if r < 0.90:
        return ('', rng.choice(unsafe_pool))
    return rng.choice([('http://www.w3.org/1999/xhtml', 'a'), ('http://www.w3.org/2000/svg', 'script'),
                       ('urn:x', rng.choice(pool)), ('', 'A'), ('', 'Script'), ('', 'a b'), ('', 'x:y'), ('', '')] + (
                      # what QName() makes of braces: '}a' = a in the EMPTY namespace (value '{}a'),
                      # '{a' = plain a, 'u}a' = a in namespace u, 'a}b}c' = local name 'b}c'
                      [('', '}' + rng.choice(pool)), ('', '{' + rng.choice(pool)), ('', 'u}' + rng.choice(pool)),
                       ('', '}input'), ('', '}'), ('u', 'b}' + rng.choice(pool)), ('', rng.choice(ODD_TAGS_V))]
                      if ODD_NAMES else []))


def password_refs(rng):
    """`password` with some letters as character references, wrapped in 0-3 layers of `&amp;`
    (the rule of is_safe_elem must see the value the attribute loop emits: C06-password-reference)"""
    word = rng.choice(['password', 'PASSWORD', 'PassWord', 'password ', 'passwor', 'xpassword'])
    out = []
    for ch in word:
        r = rng.random()
        if r < 0.3:
            out.append(rng.choice(['&#%d;', '&#x%x;', '&#X%X;', '&#%d']) % ord(ch))
        else:
            out.append(ch)
    v = ''.join(out)
    for _ in range(rng.choice([0, 0, 1, 1, 2, 3])):
        v = v.replace('&', '&amp;')
    return v


def raw_attr_value(rng, name):
    """raw streams carry decoded values, but the sanitizer decodes once more"""
    return attr_value(rng, name)


def raw_node(rng, depth):
    """-> nested tuple tree: ('elem', qname, attrs, kids) | ('leaf', event)"""
    r = rng.random()
    if r < 0.06 and depth < 4:
        # an element that is unsafe only through an attribute (input type=password), with safe
        # elements of the same name nested in it and content after them: the dropping state must
        # count same-name STARTs whether or not they are safe by themselves (seeded change C06-2)
        pw = rng.choice(['password', 'PASSWORD', 'Password', password_refs(rng), password_refs(rng)])
        # the rule looks at QName.localname: also `input` in a namespace, in the EMPTY namespace
        # ('}input' = '{}input') and spelled '{input' (= plain input)
        itag = rng.choice([('', 'input')] * 4 + [('', '}input'), ('u', 'input'), ('http://www.w3.org/1999/xhtml', 'input'),
                                                 ('', '{input'), ('u', 'x}input')]) if ODD_NAMES else ('', 'input')
        kids = []
        for _ in range(rng.choice([1, 1, 2])):
            kids.append(('elem', itag, [(('', 'type'), rng.choice(['text', 'checkbox']))] if rng.random() < 0.6 else [],
                         [raw_node(rng, depth + 2)] if rng.random() < 0.3 else []))
            if rng.random() < 0.8:
                kids.append(('leaf', ('T', text_payload(rng), False)))
        if rng.random() < 0.5:
            kids.append(raw_node(rng, depth + 2))
        return ('elem', itag, [(('', 'type'), pw)], kids)
    if r < 0.55 and depth < 5:
        tag = raw_qname(rng, SAFE_TAGS_V, UNSAFE_TAGS_V)
        attrs = []
        seen = set()
        for name, v in attrs_for(rng):
            r2 = rng.random()
            qn = ('', name) if r2 < 0.9 else rng.choice([('http://www.w3.org/1999/xlink', 'href'), ('urn:x', name)])
            if qn in seen and rng.random() < 0.8:
                continue
            seen.add(qn)
            attrs.append((qn, v))
        kids = []
        n = rng.choice([0, 1, 1, 2, 3]) if depth < 3 else rng.choice([0, 0, 1])
        for _ in range(n):
            if rng.random() < 0.2:
                # same element nested in itself
                kids.append(('elem', tag, [], [raw_node(rng, depth + 2) for _ in range(rng.choice([0, 1, 2]))]))
            else:
                kids.append(raw_node(rng, depth + 1))
        return ('elem', tag, attrs, kids)
    if r < 0.80:
        return ('leaf', ('T', text_payload(rng), False))
    if r < 0.88:
        return ('leaf', ('C', rng.choice([' c ', '[if IE]><script>alert(1)</script><![endif]', '', '-->', 'x--y'])))
    if r < 0.92:
        return ('leaf', ('PI', rng.choice(['php', 'xml', 'x', 'x>']),
                         rng.choice(['echo 1', '', 'a="b"', 'a><script>alert(1)</script', '>', 'x ?><img src=x onerror=alert(1)><?y '])))
    if r < 0.94:
        if rng.random() < 0.5:
            # a `>` in the name or an identifier (a system identifier may hold it in XML): an HTML
            # parser ends the declaration there (finding C06-doctype-markup, repaired); also quotes
            evil = rng.choice(['x\'><script>alert(1)</script>', 'x"><script>alert(1)</script>', '>', 'a>b', 'p"q', "p'q\"r",
                               '><img src=x onerror=alert(1)>', 'a"b', "it's", '"', "''\"", 'x" SYSTEM "y'])
            k = rng.randrange(3)
            return ('leaf', ('DT', evil if k == 0 else 'html', evil if k == 1 else rng.choice([None, '-//W3C//DTD XHTML 1.0 Strict//EN']),
                             evil if k == 2 else rng.choice([None, 'x.dtd'])))
        return ('leaf', ('DT', 'html', rng.choice([None, '-//W3C//DTD XHTML 1.0 Strict//EN']), rng.choice([None, 'x.dtd'])))
    if r < 0.96:
        return ('leaf', ('NS', rng.choice(['', 'svg']), 'http://www.w3.org/2000/svg'))
    if r < 0.98:
        return ('leaf', ('ENS', rng.choice(['', 'svg'])))
    # CDATA markers in every arrangement: a section around text (also text that holds `]]>` or
    # markup), around a whole subtree, unclosed, or a stray end marker -- the repaired filter passes
    # no marker on (C06-cdata-markers), so the text is escaped by every serializer
    r = rng.random()
    if r < 0.45:
        return ('seq', [('SC',), ('T', rng.choice([text_payload(rng), ']]><script>alert(1)</script>', 'a><script>alert(1)</script>',
                                                   '<script>alert(1)</script>', ']]>']), False), ('EC',)])
    if r < 0.6:
        return ('seq', [('SC',)] + flatten(raw_node(rng, depth + 2), []) + [('EC',)])
    return ('leaf', rng.choice([('EC',), ('SC',), ('SC',), ('XD', '1.0', None, -1)]))


def flatten(node, out):
    if node[0] == 'elem':
        _, tag, attrs, kids = node
        out.append(('S', tag, attrs))
        for k in kids:
            flatten(k, out)
        out.append(('E', tag))
    elif node[0] == 'seq':
        out.extend(node[1])
    else:
        out.append(node[1])
    return out


def raw_tree_stream(rng):
    out = []
    for _ in range(rng.choice([1, 1, 2, 3])):
        flatten(raw_node(rng, 0), out)
    return out


def raw_stream(rng):
    """(events, wellnested: bool)"""
    evs = raw_tree_stream(rng)
    if rng.random() < 0.67:
        return evs, True
    evs = list(evs)
    for _ in range(rng.choice([1, 1, 2, 3])):
        if not evs:
            break
        r = rng.random()
        i = rng.randrange(0, len(evs))
        if r < 0.35:
            del evs[i]
        elif r < 0.6:
            evs.insert(i, ('E', raw_qname(rng, SAFE_TAGS_V, UNSAFE_TAGS_V)))
        elif r < 0.8:
            evs.insert(i, ('S', raw_qname(rng, SAFE_TAGS_V, UNSAFE_TAGS_V), []))
        else:
            j = rng.randrange(0, len(evs))
            evs[i], evs[j] = evs[j], evs[i]
    return evs, False


# ---------------------------------------------------------------------------------------
# configurations

def config(rng):
    """None (default sets) or a dict with any of safe_tags/safe_attrs/safe_schemes/uri_attrs/safe_css
    given as {'add': [...], 'remove': [...]} relative to the defaults or {'set': [...]}."""
    r = rng.random()
    if r < 0.35:
        return None
    if r < 0.65:
        return {'safe_attrs': {'add': ['style']}}
    cfg = {}
    if rng.random() < 0.7:
        cfg['safe_attrs'] = {'add': ['style'] + rng.sample(['data', 'foo', 'background', 'dynsrc', 'xlink:href'], rng.randrange(0, 3))}
    if rng.random() < 0.5:
        cfg['safe_tags'] = rng.choice([{'add': rng.sample(['section', 'x-y', 'video', 'marquee'], 2)},
                                       {'remove': rng.sample(['a', 'div', 'img', 'input', 'form', 'p'], 2)},
                                       {'set': ['a', 'p', 'b', 'section']}, {'set': []}])
    if rng.random() < 0.5:
        cfg['safe_schemes'] = rng.choice([{'set': ['http', 'https']}, {'add': ['skype', 'tel']}, {'set': []},
                                          {'set': ['data', 'http']}, {'remove': ['file', 'ftp']}])
    if rng.random() < 0.4:
        cfg['uri_attrs'] = rng.choice([{'add': ['cite', 'longdesc', 'usemap']}, {'remove': ['src']}, {'set': ['href']}])
    if rng.random() < 0.4:
        cfg['safe_css'] = rng.choice([{'add': ['position', 'filter']}, {'remove': ['background', 'background-image']},
                                      {'set': ['color', 'background']}])
    return cfg or None

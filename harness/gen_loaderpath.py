"""C15 — histories for the loader model over string-level path names
(lean/Genshi/Model/LoaderPath.lean): generator, run on the real loader, reference oracle.

Model path names live under the root `/R`; the real files under `<verif>/.build/c15p-<pid>`
(prefix replaced in both directions).  Every directory named exists (`DIRS`), so that the
operating system's resolution of `..` is `normpath` (no symbolic links).

Config: {'cap', 'auto_reload', 'callback', 'path': [entry…]}
  entry: ['D', dir]                      a directory name (may contain `..` / `//`)
         ['F', dir, checks, alias]       a callable returning (filepath, filename, fileobj, uptodate):
                                         serves `dir`; uptodate = mtime check or None; alias: reports
                                         the filename as '@' + name
         ['P', [[prefix, ['D', dir] | ['F', dir, checks]], …]]     prefixed(**delegates)
Ops:  ['W', path, content, bad] | ['T', path] | ['X', path]       path: normalised, absolute
      ['L', filename, relative_to | None, cls, enc, cb, fault]    fault: None | 'io' | 'nf' | 'other'
      ['LW', filename, relative_to, cls, enc, cb, fault, content, bad]   a load during which the file
            it opens first is rewritten IN PLACE (same inode) after the load function took its
            modification time and before the template class reads it: content new / time old
"""
import os, posixpath, re, shutil

from harness.gen_loader import T0, content_bytes, counting_classes, CallbackError, LoadFuncError

ROOT = '/R'
DIRS = ['', 'd0', 'd0/sub', 'd0/sub/deep', 'd1', 'd1/sub', 'd1/sub/deep', 'd2', 'd2/sub', 'd2/app']
NB = 4


def tn(b):
    return 't%d.html' % b


def mdir(d):
    return ROOT + ('/' + d if d else '')


# --------------------------------------------------------------------------
# generator

def gen_dirname(rng):
    d = mdir(rng.choice(DIRS[1:]))
    r = rng.random()
    if r < 0.12:
        return d + '/..' if d.count('/') > 1 else d
    if r < 0.2:
        return d.replace('/d', '//d', 1)
    if r < 0.26:
        return d + '/'
    if r < 0.32:
        return d + '/.'
    return d


PREFIXES = ['app', 'app2', 'sub', 'lib/', 'a']


def gen_config(rng):
    path = []
    for _ in range(rng.choice([0, 1, 2, 2, 3, 3, 4])):
        r = rng.random()
        if r < 0.5:
            path.append(['D', gen_dirname(rng)])
        elif r < 0.75:
            path.append(['F', mdir(rng.choice(DIRS[1:])), rng.random() < 0.6, rng.random() < 0.3])
        else:
            ds = []
            for pre in rng.sample(PREFIXES, rng.choice([1, 2, 2, 3])):
                ds.append([pre, ['D', gen_dirname(rng)] if rng.random() < 0.6 else
                           ['F', mdir(rng.choice(DIRS[1:])), rng.random() < 0.6]])
            path.append(['P', ds])
    return {'cap': rng.choice([0, 1, 2, 2, 3, 5]), 'auto_reload': rng.random() < 0.5,
            'callback': rng.random() < 0.7, 'path': path}


def gen_filename(rng, cfg):
    b = tn(rng.randrange(NB))
    r = rng.random()
    prefixes = [p for e in cfg['path'] if e[0] == 'P' for p, _ in e[1]]
    if prefixes and r < 0.3:
        pre = rng.choice(prefixes)
        mid = rng.choice(['/', '/', '', '//', 'x/', '/sub/', '/../'])
        return pre + mid + b
    if r < 0.42:
        return b
    if r < 0.54:
        return rng.choice(['sub/', 'sub/deep/', 'sub//deep/', './sub/', 'app/']) + b
    if r < 0.64:
        return rng.choice(['../', '../../', '../sub/', '../d1/', '../d1/sub/', 'sub/../', 'sub/deep/../', './', 'sub/./']) + b
    if r < 0.8:
        return gen_dirname(rng).rstrip('/') + '/' + rng.choice(['', '../', 'sub/../']) + b \
            if rng.random() < 0.5 else mdir(rng.choice(DIRS)) + '/' + b
    return rng.choice(['sub/deep/../../', 'sub/deep/../', 'deep/../']) + b


def gen_relto(rng):
    r = rng.random()
    if r < 0.45:
        return None
    if r < 0.5:
        return ''
    if r < 0.75:
        return rng.choice(['x.html', 'sub/x.html', 'sub/deep/x.html', '../x.html', 'sub/../x.html', './x.html', 'sub//x.html'])
    return gen_dirname(rng).rstrip('/') + '/x.html'


def gen_history(rng, maxlen=22):
    cfg = gen_config(rng)
    ops = []
    c = 100
    for _ in range(rng.randrange(4, maxlen)):
        r = rng.random()
        if r < 0.3 or len(ops) < 2:
            c += 1
            ops.append(['W', mdir(rng.choice(DIRS)) + '/' + tn(rng.randrange(NB)), c, rng.random() < 0.08])
        elif r < 0.36:
            ws = [o for o in ops if o[0] == 'W']
            ops.append(['T', rng.choice(ws)[1]])
        elif r < 0.42:
            ws = [o for o in ops if o[0] == 'W']
            ops.append(['X', rng.choice(ws)[1]])
        else:
            prev = [o for o in ops if o[0] in ('L', 'LW')]
            if prev and rng.random() < 0.35:
                o = ['L'] + list(rng.choice(prev))[1:7]
                o[5], o[6] = False, None
                ops.append(o)
                continue
            hasfn = any(e[0] == 'F' or (e[0] == 'P' and any(d[0] == 'F' for _, d in e[1])) for e in cfg['path'])
            files = sorted(set(o[1] for o in ops if o[0] == 'W'))
            if files and rng.random() < 0.7:
                # aimed at a file that was written: a name under which some path item (or an
                # absolute name / relative_to) reaches it, spelled in one of several ways
                target = rng.choice(files)
                fault = rng.choice(['io', 'nf', 'other']) if hasfn and rng.random() < 0.12 else None
                rel = gen_relto(rng) if rng.random() < 0.3 else None
                r2 = rng.random()
                if cfg['path'] and r2 < 0.75:
                    e = rng.choice(cfg['path'])
                    if e[0] == 'P':
                        pre, d = rng.choice(e[1])
                        name = pre + rng.choice(['/', '/', '', '//']) + posixpath.relpath(target, posixpath.normpath(d[1]))
                    else:
                        name = posixpath.relpath(target, posixpath.normpath(e[1]))
                        if rel and not posixpath.isabs(rel):
                            # undo the directory of relative_to
                            name = posixpath.relpath(name, posixpath.normpath(posixpath.dirname(rel)) or '.') \
                                if not posixpath.normpath(posixpath.dirname(rel) or '.').startswith('..') else name
                elif r2 < 0.9:
                    name = target if rng.random() < 0.5 else posixpath.dirname(target) + rng.choice(['/./', '//', '/sub/../', '/']) + posixpath.basename(target)
                else:
                    rel = posixpath.dirname(target) + '/x.html'
                    name = posixpath.basename(target)
                if not posixpath.isabs(name) and rng.random() < 0.3:
                    name = rng.choice(['./', 'sub/../', 'sub/deep/../../', 'q/../']) + name
                op = ['L', name, rel, rng.randrange(2) if rng.random() < 0.15 else 0,
                      rng.randrange(2) if rng.random() < 0.15 else 0,
                      cfg['callback'] and rng.random() < 0.06, fault]
                if rng.random() < 0.12:
                    c += 1
                    op = ['LW'] + op[1:] + [c, rng.random() < 0.06]
                ops.append(op)
                continue
            fault = None
            if hasfn and rng.random() < 0.2:
                fault = rng.choice(['io', 'nf', 'other'])
            ops.append(['L', gen_filename(rng, cfg), gen_relto(rng), rng.randrange(2) if rng.random() < 0.2 else 0,
                        rng.randrange(2) if rng.random() < 0.2 else 0,
                        cfg['callback'] and rng.random() < 0.08, fault])
    return cfg, ops


def dir_exists(raw):
    """every directory the operating system walks through when it resolves `raw` exists (so that
    its resolution is `normpath`): component by component inside the tree of DIRS"""
    if not (isinstance(raw, str) and raw.startswith('/')):
        return False
    have = set(['/', ROOT] + [mdir(d) for d in DIRS])
    cur = []
    for comp in raw.split('/'):
        if comp in ('', '.'):
            continue
        if comp == '..':
            if cur:
                cur.pop()
        else:
            cur.append(comp)
        if '/' + '/'.join(cur) not in have:
            return False
    return True


def validate(cfg, ops):
    def s(x):
        return isinstance(x, str) and dir_exists(x)

    def deleg(d):
        return isinstance(d, list) and ((len(d) == 2 and d[0] == 'D' and s(d[1]) and d[1].startswith(ROOT)) or
                                        (len(d) == 3 and d[0] == 'F' and s(d[1]) and d[1].startswith(ROOT)))
    if not (isinstance(cfg, dict) and isinstance(cfg.get('cap'), int) and isinstance(cfg.get('path'), list)):
        raise ValueError('not a configuration')
    for e in cfg['path']:
        okk = isinstance(e, list) and e and (
            (e[0] == 'D' and len(e) == 2 and s(e[1]) and e[1].startswith(ROOT)) or
            (e[0] == 'F' and len(e) == 4 and s(e[1]) and e[1].startswith(ROOT)) or
            (e[0] == 'P' and len(e) == 2 and isinstance(e[1], list) and e[1] and
             all(isinstance(x, list) and len(x) == 2 and isinstance(x[0], str) and x[0] and deleg(x[1]) for x in e[1]) and
             len(set(x[0] for x in e[1])) == len(e[1])))
        if not okk:
            raise ValueError('not a search path')
    for op in ops:
        okk = isinstance(op, list) and op and (
            (op[0] == 'W' and len(op) == 4 and isinstance(op[1], str) and op[1].startswith(ROOT + '/') and posixpath.normpath(op[1]) == op[1]
             and posixpath.dirname(op[1])[len(ROOT) + 1:] in DIRS and isinstance(op[2], int)) or
            (op[0] in 'TX' and len(op) == 2 and isinstance(op[1], str) and op[1].startswith(ROOT + '/') and posixpath.normpath(op[1]) == op[1]
             and posixpath.dirname(op[1])[len(ROOT) + 1:] in DIRS) or
            (op[0] in ('L', 'LW') and len(op) == (7 if op[0] == 'L' else 9) and
             (op[0] == 'L' or (isinstance(op[7], int) and isinstance(op[8], bool))) and isinstance(op[1], str) and op[1] and not op[1].endswith('/') and
             posixpath.basename(op[1]) not in ('.', '..') and
             (op[2] is None or (isinstance(op[2], str) and (not posixpath.isabs(op[2]) or dir_exists(posixpath.dirname(op[2]))))) and
             isinstance(op[3], int) and isinstance(op[4], int) and isinstance(op[5], bool) and
             op[6] in (None, 'io', 'nf', 'other')))
        if not okk:
            raise ValueError('not a history')


# --------------------------------------------------------------------------
# the reference (property text, with the standard library's posixpath): what a load that is not
# answered from the cache must come to

class Ref(object):
    def __init__(self, cfg):
        self.cfg = cfg
        self.files = {}      # normalised model path -> (content, bad)

    def fs_op(self, op):
        if op[0] == 'W':
            self.files[op[1]] = (op[2], op[3])
        elif op[0] == 'X':
            self.files.pop(op[1], None)

    def key(self, op):
        fn, rel = op[1], op[2]
        if rel and (not self.cfg['path'] or not posixpath.isabs(rel)):
            fn = posixpath.join(posixpath.dirname(rel), fn)
        return posixpath.normpath(fn)

    def walk(self, op):
        """('nopath',) | ('nothing',) | ('raised',) | ('file', filepath, name, content, bad)"""
        key = self.key(op)
        fault = op[6]
        rel = op[2]
        path = list(self.cfg['path'])
        if posixpath.isabs(key):
            path = [['D', posixpath.dirname(key)]]
        elif rel and posixpath.isabs(rel):
            d = ['D', posixpath.dirname(rel)]
            if d not in path:
                path = path + [d]
        elif not path:
            return ('nopath',)

        def fn_at(d, name):
            if fault in ('io', 'nf'):
                return 'skip'
            if fault == 'other':
                return 'raise'
            return posixpath.join(d, name)
        for e in path:
            name = key
            if e[0] == 'D':
                fp = posixpath.join(e[1], key)
            elif e[0] == 'F':
                fp = fn_at(e[1], key)
                if e[3]:
                    name = '@' + key
            else:
                fp = 'skip'
                for pre, d in e[1]:
                    if key.startswith(pre):
                        rest = key[len(pre):].lstrip('/\\')
                        fp = posixpath.join(d[1], rest) if d[0] == 'D' else fn_at(d[1], rest)
                        break
            if fp == 'skip':
                continue
            if fp == 'raise':
                return ('raised',)
            f = self.files.get(posixpath.normpath(fp))
            if f is not None:
                return ('file', fp, name, f[0], f[1])
        return ('nothing',)


# --------------------------------------------------------------------------
# the real loader

class RealRun(object):
    def __init__(self, cfg, root):
        from genshi.template.loader import TemplateLoader
        self.cfg = cfg
        self.root = root
        shutil.rmtree(root, ignore_errors=True)
        for d in DIRS:
            os.makedirs(os.path.join(root, d) if d else root, exist_ok=True)
        self.clock = 1
        cc = counting_classes()
        self.inst_log = cc['log']
        del self.inst_log[:]
        self.cb_log = []
        self.flags = {'cb': False, 'fault': None}
        path = []
        for e in cfg['path']:
            if e[0] == 'D':
                path.append(self.real(e[1]))
            elif e[0] == 'F':
                path.append(self.make_fn(self.real(e[1]), e[2], e[3]))
            else:
                path.append(TemplateLoader.prefixed(**dict(
                    (pre, self.real(d[1]) if d[0] == 'D' else self.make_fn(self.real(d[1]), d[2], False))
                    for pre, d in e[1])))
        self.npath = len(path)
        self.loader = TemplateLoader(path, auto_reload=cfg['auto_reload'], max_cache_size=cfg['cap'],
                                     default_class=cc['markup'],
                                     callback=self.callback if cfg['callback'] else None)

    def real(self, p):
        return self.root + p[len(ROOT):] if p.startswith(ROOT) else p

    def model(self, p):
        return ROOT + p[len(self.root):] if p.startswith(self.root) else p

    def make_fn(self, dirpath, checks, alias):
        flags = self.flags

        def load_fn(filename):
            if flags['fault'] == 'io':
                raise IOError('injected')
            if flags['fault'] == 'nf':
                from genshi.template.loader import TemplateNotFound
                raise TemplateNotFound(filename, [dirpath])
            if flags['fault'] == 'other':
                raise LoadFuncError('injected')
            filepath = os.path.join(dirpath, filename)
            fileobj = (flags.get('open') or open)(filepath, 'rb')
            name = '@' + filename if alias else filename
            if not checks:
                return filepath, name, fileobj, None
            mtime = os.path.getmtime(filepath)
            return filepath, name, fileobj, lambda: mtime == os.path.getmtime(filepath)
        return load_fn

    def callback(self, tmpl):
        self.cb_log.append(tmpl)
        if self.flags['cb']:
            raise CallbackError('injected')

    def fs_op(self, op):
        p = self.real(op[1])
        if op[0] == 'W':
            with open(p, 'wb') as f:
                f.write(content_bytes(op[2], op[3]))
            os.utime(p, (T0 + self.clock, T0 + self.clock))
            self.clock += 1
        elif op[0] == 'T':
            if os.path.exists(p):
                os.utime(p, (T0 + self.clock, T0 + self.clock))
                self.clock += 1
        elif op[0] == 'X':
            if os.path.exists(p):
                os.remove(p)

    def obj(self, t):
        for i, x in enumerate(self.inst_log):
            if x is t:
                return i
        return -1

    def describe(self, t):
        cc = counting_classes()
        try:
            text = t.generate().render(encoding=None)
        except Exception as e:  # noqa
            text = 'render raises %s' % type(e).__name__
        m = re.search(r'v(\d+)', text)
        return [self.obj(t), self.model(t.filepath), self.model(t.filename), int(m.group(1)) if m else -1,
                1 if isinstance(t, cc['text']) else 0, 1 if u'\xc3' in text else 0]

    def cache_order(self):
        c = self.loader._cache
        order = []
        for k in c:
            order.append(k)
            if len(order) > len(c._dict) + 2:
                break
        return [[self.model(k), self.obj(c._dict[k].value) if k in c._dict else -1] for k in order]

    def lock_depth(self):
        lk = self.loader._lock
        if hasattr(lk, '_recursion_count'):
            return lk._recursion_count()
        return 1 if lk._is_owned() else 0

    def utd(self, realkey):
        from harness.proto import Atom, N
        u = self.loader._uptodate
        if realkey not in u:
            return Atom('absent')
        fn = u[realkey]
        if fn is None:
            return N
        vals = [c.cell_contents for c in (fn.__closure__ or ())]
        paths = [v for v in vals if isinstance(v, str)]
        nums = [v for v in vals if isinstance(v, (int, float)) and not isinstance(v, bool)]
        return [self.model(paths[0]) if paths else '?', (int(nums[0]) - T0) if nums else -1]

    def load(self, op):
        cc = counting_classes()
        name = self.real(op[1])
        relto = None if op[2] is None else self.real(op[2])
        self.flags['cb'] = op[5]
        self.flags['fault'] = op[6]
        try:
            t = self.loader.load(name, relative_to=relto, cls=cc['text'] if op[3] == 1 else None,
                                 encoding='iso-8859-1' if op[4] == 1 else None)
            return ('ok', t)
        except Exception as e:  # noqa
            return ('err', type(e).__name__)
        finally:
            self.flags['cb'] = False
            self.flags['fault'] = None

    def load_rewrite(self, op):
        """the load of `op`, during which the first file that is opened successfully (by
        `directory()` through the name `open` in the loader module's globals, shadowed for this
        call, or by one of the harness's callables) is rewritten in place with op[7], op[8] at the
        moment the template class starts reading it — after the load function took the time.
        Returns (kind, val, rewritten real path | None)."""
        import genshi.template.loader as LM
        run = self
        state = {'opened': None, 'done': None}
        real_open = open

        class Rewriting(object):
            def __init__(self, f, path):
                self._f, self._path = f, path

            def read(self, *a):
                if state['done'] is None:
                    state['done'] = self._path
                    with real_open(self._path, 'r+b') as g:      # in place: the same inode
                        g.seek(0)
                        g.truncate()
                        g.write(content_bytes(op[7], op[8]))
                    os.utime(self._path, (T0 + run.clock, T0 + run.clock))
                    run.clock += 1
                return self._f.read(*a)

            def fileno(self):
                return self._f.fileno()

            def close(self):
                return self._f.close()

        def hooked(path, *a, **kw):
            f = real_open(path, *a, **kw)
            if state['opened'] is None:
                state['opened'] = path
                return Rewriting(f, path)
            return f
        LM.open = hooked
        self.flags['open'] = hooked
        try:
            kind, val = self.load(op)
        finally:
            del LM.open
            self.flags['open'] = None
        return kind, val, state['done']

    def close(self):
        shutil.rmtree(self.root, ignore_errors=True)


def wire_history(cfg, ops):
    from harness.proto import Atom, B, N

    def deleg(d):
        return [Atom('D'), d[1]] if d[0] == 'D' else [Atom('F'), d[1], B(d[2])]
    path = []
    for e in cfg['path']:
        if e[0] == 'D':
            path.append([Atom('D'), e[1]])
        elif e[0] == 'F':
            path.append([Atom('F'), e[1], B(e[2]), B(e[3])])
        else:
            path.append([Atom('P'), [[pre, deleg(d)] for pre, d in e[1]]])
    wops = []
    for op in ops:
        if op[0] == 'W':
            wops.append([Atom('W'), op[1], op[2], B(op[3])])
        elif op[0] in 'TX':
            wops.append([Atom(op[0]), op[1]])
        else:
            wops.append([Atom(op[0]), op[1], N if op[2] is None else op[2], op[3], op[4], B(op[5]),
                         N if op[6] is None else Atom('io' if op[6] in ('io', 'nf') else 'other')] +
                        ([op[7], B(op[8])] if op[0] == 'LW' else []))
    return path, wops

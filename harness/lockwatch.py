"""Lock-order observation for C16: every lock the genshi modules create is wrapped in a
cooperative `sched.SchedLock` proxy, and the nesting of acquisitions is recorded per thread.

* `instrument()` (idempotent, cheap; call it before every run): in every imported `genshi…`
  module the name `threading` is replaced by a proxy module whose `RLock` / `Lock` hand out
  wrapped locks (so a lock created later, by any `__init__`, is seen), names bound to
  `threading.RLock` / `threading.Lock` themselves are replaced by the same factories, and lock
  objects that already exist as module globals or class attributes (created at import time) are
  replaced by ONE proxy per lock object wherever they are referenced (`from base import _lock`
  binds the same object in a second module).  Nothing in the repository is touched.
* `Watch`: per run.  Told by the proxies about want / blocked / got / released with the thread
  (scheduler thread id, or None for the main thread: set-up phase).  Records
    - per thread the program of lock actions `('A', l)` / `('R', l)` and the global order of
      events `(tid, 'acq'|'blk'|'rel', l)` — replayed on the Lean model (`gdrv C16 locks`);
    - the held -> wanted edges (an acquisition of a lock the thread does not hold yet, for every
      lock it holds), with the acquisition stacks of both ends (only once a second lock exists).
  `cycle()` looks for a cycle in that graph whose edges have no common gate lock: a potential
  deadlock.  `rank()` is a topological numbering (the certificate for the model's theorem
  `ranked_lock_order_deadlock_free`) or None.
"""
import sys, threading, traceback

from harness import sched

_REAL_RLOCK = threading.RLock
_REAL_LOCK = threading.Lock
LOCK_TYPES = (type(_REAL_LOCK()), type(_REAL_RLOCK()))

_state = {'sched_ref': None, 'watch_ref': None, 'proxies': {}, 'seen_modules': {}, 'proxy_module': None}


def _site(depth=2):
    f = sys._getframe(depth)
    fn = f.f_code.co_filename
    i = fn.rfind('genshi')
    return '%s:%d' % (fn[i:] if i >= 0 else fn, f.f_lineno)


def _wrap(inner, name):
    p = _state['proxies'].get(id(inner))
    if p is None:
        p = sched.SchedLock(_state['sched_ref'], inner, name=name, order=_state['watch_ref'])
        p._keep = inner
        _state['proxies'][id(inner)] = p
    return p


def _rlock_factory(*a, **kw):
    return _wrap(_REAL_RLOCK(*a, **kw), 'RLock created at ' + _site())


def _lock_factory(*a, **kw):
    return _wrap(_REAL_LOCK(*a, **kw), 'Lock created at ' + _site())


class _ThreadingProxy(object):
    """what a genshi module sees under the name `threading`"""
    RLock = staticmethod(_rlock_factory)
    Lock = staticmethod(_lock_factory)

    def __getattr__(self, name):
        return getattr(threading, name)


def instrument(sched_ref, watch_ref):
    """sched_ref / watch_ref: callables returning the current Scheduler / Watch (or None)"""
    _state['sched_ref'] = sched_ref
    _state['watch_ref'] = watch_ref
    if _state['proxy_module'] is None:
        _state['proxy_module'] = _ThreadingProxy()
    tp = _state['proxy_module']
    for name, mod in list(sys.modules.items()):
        if mod is None or not (name == 'genshi' or name.startswith('genshi.')):
            continue
        if _state['seen_modules'].get(name) is mod:
            continue
        _state['seen_modules'][name] = mod
        for k, v in list(vars(mod).items()):
            if v is threading:
                setattr(mod, k, tp)
            elif v is _REAL_RLOCK:
                setattr(mod, k, _rlock_factory)
            elif v is _REAL_LOCK:
                setattr(mod, k, _lock_factory)
            elif isinstance(v, LOCK_TYPES):
                setattr(mod, k, _wrap(v, '%s.%s' % (name, k)))
            elif isinstance(v, type) and getattr(v, '__module__', None) == name:
                for ck, cv in list(vars(v).items()):
                    if isinstance(cv, LOCK_TYPES):
                        setattr(v, ck, _wrap(cv, '%s.%s.%s' % (name, v.__name__, ck)))


def unwrap(lock):
    """the lock object the code created (the caller wraps it itself)"""
    if isinstance(lock, sched.SchedLock):
        _state['proxies'].pop(id(lock._inner), None)
        return lock._inner
    return lock


def _stack():
    out = []
    for fs in traceback.extract_stack(limit=40)[:-3]:
        fn = fs.filename
        i = fn.rfind('genshi/')
        if i >= 0 and '/harness/' not in fn:
            out.append('%s:%d %s' % (fn[i:], fs.lineno, fs.name))
    return out[-8:]


class Watch(object):
    def __init__(self, nthreads):
        self.n = nthreads            # scheduled threads 0..n-1; the main thread is thread n
        self.ids = {}                # id(proxy) -> small int, in order of first use
        self.names = []
        self.held = {}               # tid -> lock ids, one entry per acquisition (oldest first)
        self.pending = {}            # tid -> lock id it is blocked on
        self.progs = {}              # tid -> [('A'|'R', l)]
        self.events = []             # (tid, 'acq'|'blk'|'rel', l)
        self.edges = {}              # (h, w) -> {'gates', 'tid', 'held_stack', 'want_stack'}
        self.stacks = {}             # (tid, l) -> stack of the outermost acquisition
        self.frozen = False

    def lock_id(self, lock):
        i = self.ids.get(id(lock))
        if i is None:
            i = self.ids[id(lock)] = len(self.names)
            self.names.append(str(lock))
        return i

    def _off(self):
        if self.frozen:
            return True
        s = _state['sched_ref']() if _state['sched_ref'] else None
        return s is not None and s.abort

    def _tid(self, tid):
        return self.n if tid is None else tid

    def want(self, tid, lock):
        if self._off():
            return
        tid = self._tid(tid)
        l = self.lock_id(lock)
        held = self.held.setdefault(tid, [])
        if l not in held and held:
            for h in dict.fromkeys(held):
                if (h, l) not in self.edges:
                    self.edges[(h, l)] = {'gates': sorted(set(held)), 'tid': tid,
                                          'held_stack': self.stacks.get((tid, h), []), 'want_stack': _stack()}
                else:
                    # a gate lock must be held at every occurrence of the edge
                    e = self.edges[(h, l)]
                    e['gates'] = sorted(set(e['gates']) & set(held))

    def blocked(self, tid, lock):
        if self._off():
            return
        tid = self._tid(tid)
        l = self.lock_id(lock)
        self.pending[tid] = l
        self.events.append((tid, 'blk', l))

    def got(self, tid, lock):
        if self._off():
            return
        tid = self._tid(tid)
        l = self.lock_id(lock)
        self.pending.pop(tid, None)
        held = self.held.setdefault(tid, [])
        if l not in held and len(self.names) > 1:
            self.stacks[(tid, l)] = _stack()
        held.append(l)
        self.progs.setdefault(tid, []).append(('A', l))
        self.events.append((tid, 'acq', l))

    def released(self, tid, lock):
        if self._off():
            return
        tid = self._tid(tid)
        l = self.lock_id(lock)
        held = self.held.setdefault(tid, [])
        if l in held:
            del held[len(held) - 1 - held[::-1].index(l)]
        self.progs.setdefault(tid, []).append(('R', l))
        self.events.append((tid, 'rel', l))

    def freeze(self):
        self.frozen = True

    # ---- the graph -------------------------------------------------------
    def graph(self):
        return sorted(self.edges)

    def rank(self):
        """topological numbering of the locks, or None if the graph has a cycle"""
        nodes = list(range(len(self.names)))
        indeg = dict((v, 0) for v in nodes)
        for (_, w) in self.edges:
            indeg[w] += 1
        rank, k = {}, 0
        ready = sorted(v for v in nodes if indeg[v] == 0)
        while ready:
            v = ready.pop(0)
            rank[v] = k
            k += 1
            for (h, w) in sorted(self.edges):
                if h == v:
                    indeg[w] -= 1
                    if indeg[w] == 0:
                        ready.append(w)
        if len(rank) != len(nodes):
            return None
        return [rank[v] for v in nodes]

    def cycle(self):
        """a cycle of held -> wanted edges without a common gate lock (a lock held at every one
        of its acquisitions, which would serialise them): a potential deadlock.  Returns the
        list of edges [(h, w), …] or None."""
        adj = {}
        for (h, w) in sorted(self.edges):
            adj.setdefault(h, []).append(w)
        best = [None]

        def dfs(start, v, path, seen):
            for w in adj.get(v, []):
                if w == start:
                    cyc = path + [(v, w)]
                    gates = None
                    for (a, b) in cyc:
                        g = set(self.edges[(a, b)]['gates']) - set(x for e in cyc for x in e)
                        gates = g if gates is None else gates & g
                    if not gates and (best[0] is None or len(cyc) < len(best[0])):
                        best[0] = cyc
                elif w not in seen and w > start:
                    dfs(start, w, path + [(v, w)], seen | {w})
        for v in sorted(adj):
            dfs(v, v, [], {v})
        return best[0]

    def describe(self, cyc):
        out = []
        for (h, w) in cyc:
            e = self.edges[(h, w)]
            out.append({'thread': 'main' if e['tid'] == self.n else e['tid'],
                        'holds': self.names[h], 'held since': e['held_stack'],
                        'wants': self.names[w], 'wanted at': e['want_stack']})
        return out

    # ---- for the model ---------------------------------------------------
    def model_progs(self):
        progs = []
        for t in range(self.n + 1):
            p = list(self.progs.get(t, []))
            if t in self.pending:
                p.append(('A', self.pending[t]))
            progs.append(p)
        return progs

"""Shared helpers of the output properties (C09, C08): rendering a JSON-form stream (see
harness/gen_streams.py) with the real serializers, the request lines for the Lean model, and
independent re-parsers of the output (html.parser, expat) that deliver canonical token lists."""
import re
from html.parser import HTMLParser
import xml.parsers.expat

from harness import proto
from harness import gen_streams as G
from harness.proto import Atom, B, N

METHODS = ('xml', 'xhtml', 'html')


def config(method, strip=True, cache=True, doctype=None, drop_xml_decl=True):
    """canonical configuration dict; doctype: None | ['name', n] | ['tuple', name, pubid, sysid]"""
    return {'method': method, 'strip': bool(strip), 'cache': bool(cache), 'doctype': doctype,
            'drop_xml_decl': bool(drop_xml_decl)}


def valid_config(case):
    """does a canonical case name a method / doctype option the serializers accept"""
    if case.get('method') not in METHODS:
        return False
    dt = case.get('doctype')
    if dt is not None:
        if not isinstance(dt, list) or not dt or dt[0] not in ('name', 'tuple'):
            return False
        if dt[0] == 'name' and not (len(dt) == 2 and isinstance(dt[1], str)):
            return False
        if dt[0] == 'tuple' and not (len(dt) == 4 and isinstance(dt[1], str) and dt[1]
                                     and all(x is None or isinstance(x, str) for x in dt[2:])):
            return False
        if dt[0] == 'name':
            from genshi.output import DocType
            if DocType.get(dt[1]) is None:
                return False
    return True


def serializer(cfg):
    from genshi import output
    kw = {'strip_whitespace': cfg['strip'], 'cache': cfg['cache']}
    dt = cfg.get('doctype')
    if dt is not None:
        kw['doctype'] = dt[1] if dt[0] == 'name' else (dt[1], dt[2], dt[3])
    if cfg['method'] == 'xhtml':
        kw['drop_xml_decl'] = cfg['drop_xml_decl']
    if cfg.get('nsprefixes') and cfg['method'] in ('xml', 'xhtml'):
        # preferred prefixes for namespaces that do not occur on the modelled domain: must change nothing
        kw['namespace_prefixes'] = {'http://www.w3.org/2000/svg': 'svg', 'http://www.w3.org/1999/xlink': 'xlink'}
    return output.get_serializer(cfg['method'], **kw)


def render(js, cfg):
    """''.join(serializer(stream)) on the real code; ('err', ExceptionName) when it raises"""
    try:
        return ''.join(serializer(cfg)(iter(G.to_events(js))))
    except Exception as e:  # noqa
        return ('err', type(e).__name__)


def doctype_wire(dt):
    """the doctype option on the wire: N | ( name n ) | ( tuple name pubid|N sysid|N )"""
    if dt is None:
        return N
    if dt[0] == 'name':
        return [Atom('name'), dt[1]]
    return [Atom('tuple'), dt[1], N if dt[2] is None else dt[2], N if dt[3] is None else dt[3]]


def model_render_line(js, cfg):
    d = doctype_wire(cfg.get('doctype'))
    return proto.line(Atom('C09'), Atom('render'), Atom(cfg['method']), B(cfg['strip']), B(cfg['cache']),
                      B(cfg['drop_xml_decl']), d, G.to_wire(js))


def model_answer(ans):
    """decode `( ok s… )` | unmodelled"""
    if ans == 'unmodelled':
        return None
    v = proto.dec(ans)
    if isinstance(v, list) and len(v) == 2 and v[0] == 'ok':
        return v[1]
    return ('bad-answer', ans[:200])


# --------------------------------------------------------------------------
# whitespace normal form of the property text (independent of the model: Python's re)

_TRIM = re.compile('[ \t]+(?=\n)')
_COLLAPSE = re.compile('\n{2,}')


def norm_ws(text):
    """delete trailing blanks before line breaks, then collapse runs of line breaks"""
    return _COLLAPSE.sub('\n', _TRIM.sub('', text))


# --------------------------------------------------------------------------
# independent re-parsers -> token lists
#   ['start', name, [[attr, value|None], ...]]  ['end', name]  ['startend', name, attrs]
#   ['text', data] (adjacent data merged)  ['comment', data]  ['pi', data]  ['decl', data]

class _Tok(HTMLParser):
    def __init__(self):
        HTMLParser.__init__(self, convert_charrefs=True)
        self.toks = []

    def _text(self, d):
        if self.toks and self.toks[-1][0] == 'text':
            self.toks[-1][1] += d
        else:
            self.toks.append(['text', d])

    def handle_starttag(self, tag, attrs):
        self.toks.append(['start', tag, [[a, v] for a, v in attrs]])

    def handle_startendtag(self, tag, attrs):
        self.toks.append(['startend', tag, [[a, v] for a, v in attrs]])

    def handle_endtag(self, tag):
        self.toks.append(['end', tag])

    def handle_data(self, data):
        self._text(data)

    def handle_comment(self, data):
        self.toks.append(['comment', data])

    def handle_pi(self, data):
        self.toks.append(['pi', data])

    def handle_decl(self, decl):
        self.toks.append(['decl', decl])

    def unknown_decl(self, data):
        self.toks.append(['unknown', data])


def html_tokens(text):
    p = _Tok()
    p.feed(text)
    p.close()
    return p.toks


def xml_tokens(text):
    """expat with namespace processing; names are '{ns}local' / 'local';
    ('err', message) when the text is not well-formed"""
    toks = []
    p = xml.parsers.expat.ParserCreate(namespace_separator='}')
    p.ordered_attributes = True
    p.buffer_text = True

    def name(n):
        if '}' in n:
            ns, loc = n.split('}', 1)
            return '{%s}%s' % (ns, loc)
        return n

    def start(n, attrs):
        toks.append(['start', name(n), [[name(attrs[i]), attrs[i + 1]] for i in range(0, len(attrs), 2)]])

    def end(n):
        toks.append(['end', name(n)])

    def data(d):
        if toks and toks[-1][0] == 'text':
            toks[-1][1] += d
        else:
            toks.append(['text', d])

    p.StartElementHandler = start
    p.EndElementHandler = end
    p.CharacterDataHandler = data
    p.CommentHandler = lambda d: toks.append(['comment', d])
    p.ProcessingInstructionHandler = lambda t, d: toks.append(['pi', t, d])
    p.StartDoctypeDeclHandler = lambda n, sysid, pubid, sub: toks.append(['doctype', n, pubid, sysid])
    p.XmlDeclHandler = lambda v, e, s: toks.append(['xmldecl', v, e, s])
    p.StartCdataSectionHandler = lambda: toks.append(['cdata-start'])
    p.EndCdataSectionHandler = lambda: toks.append(['cdata-end'])
    try:
        p.Parse(text, True)
    except xml.parsers.expat.ExpatError as e:
        return ('err', str(e))
    return toks

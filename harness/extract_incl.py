"""Translator part for C11: the values the include model is written against — the filter
pipelines of the template classes, the parse-attribute → class table of xi:include (probed),
what a text-template include carries, the loader's default mode."""
from harness.extract_tables import HEADER, chars


def _names(fs):
    return [getattr(f, '__name__', type(f).__name__) for f in fs]


def _include_events(stream, INCLUDE, SUB):
    for kind, data, pos in stream:
        if kind is INCLUDE:
            yield data
        elif kind is SUB:
            for d in _include_events(data[1], INCLUDE, SUB):
                yield d


def gen_incl():
    from genshi.template import MarkupTemplate, NewTextTemplate, OldTextTemplate, TemplateLoader
    from genshi.template.base import INCLUDE, SUB
    parts = [HEADER, 'namespace Genshi.Gen.Incl\n']

    def strs(name, vals, comment):
        parts.append('/-- %s -/\ndef %s : List (List Char) := [%s]\n' % (comment, name, ', '.join(chars(v) for v in vals)))

    strs('markupFilters', _names(MarkupTemplate('<a/>').filters), 'from genshi/template/markup.py: MarkupTemplate(...).filters, in order')
    strs('textFilters', _names(NewTextTemplate('a').filters), 'from genshi/template/text.py: NewTextTemplate(...).filters, in order')
    strs('oldTextFilters', _names(OldTextTemplate('a').filters), 'from genshi/template/text.py: OldTextTemplate(...).filters, in order')
    # parse attribute -> class carried by the INCLUDE event of the prepared stream
    rows = []
    for parse in (None, 'xml', 'text'):
        attr = '' if parse is None else ' parse="%s"' % parse
        t = MarkupTemplate('<a xmlns:xi="http://www.w3.org/2001/XInclude"><xi:include href="${x}"%s/></a>' % attr)
        (href, cls, fb), = list(_include_events(t.stream, INCLUDE, SUB))
        rows.append((parse or '', getattr(cls, '__name__', repr(cls)), 'none' if fb is None else 'list%d' % len(fb)))
    parts.append('/-- probed: parse attribute of xi:include in a MarkupTemplate ↦ (class, fallback) of the INCLUDE event after prepare -/\n'
                 'def markupIncludeTable : List (List Char × List Char × List Char) := [%s]\n'
                 % ', '.join('(%s, %s, %s)' % tuple(chars(x) for x in r) for r in rows))
    t = NewTextTemplate('{% include ${x} %}')
    (href, cls, fb), = list(_include_events(t.stream, INCLUDE, SUB))
    parts.append('/-- probed: (class, fallback) of the INCLUDE event of a text-template include after prepare -/\n'
                 'def textInclude : List Char × List Char := (%s, %s)\n'
                 % (chars(getattr(cls, '__name__', repr(cls))), chars('none' if fb is None else 'list%d' % len(fb))))
    t = MarkupTemplate('<a xmlns:xi="http://www.w3.org/2001/XInclude"><xi:include href="${x}"><xi:fallback/></xi:include></a>')
    (href, cls, fb), = list(_include_events(t.stream, INCLUDE, SUB))
    parts.append('/-- probed: fallback of an xi:include with an empty xi:fallback element -/\n'
                 'def emptyFallback : List Char := %s\n' % chars('none' if fb is None else 'list%d' % len(fb)))
    parts.append('/-- from genshi/template/loader.py: TemplateLoader().auto_reload (False: static includes are inlined) -/\n'
                 'def loaderAutoReloadDefault : Bool := %s\n' % ('true' if TemplateLoader().auto_reload else 'false'))
    parts.append('end Genshi.Gen.Incl\n')
    return 'Incl.lean', '\n'.join(parts)


GENERATORS = [gen_incl]

"""Translator part for C10: lean/Genshi/Gen/Heap.lean.

Values are obtained from the code under test by import and by small behavioural probes (no
source text is read):

* codeVariant      -- does Translator.__call__ / Translator.extract work on a copy of the directive
                      list of a SUB event, or on the list itself (probed on hand-made SUB events)
* i18nKeys         -- the context keys Translator.__call__ sets before it yields anything
* dirClasses       -- every directive class of MarkupTemplate and Translator with its place in the
                      I18NDirective / ExtractableI18NDirective hierarchy (drives Translator.extract)
* filter chains    -- names of the filters of a fresh template, after Translator.setup, and after a
                      pickle round trip (`__getstate__` / `__setstate__`)
* preparedFlags    -- `_prepared` before / after the first `.stream` access, after generate()
"""
from harness.extract_tables import HEADER, chars


def _probe_variant():
    from genshi.core import TEXT
    from genshi.template.base import SUB, Context
    from genshi.template.directives import StripDirective
    from genshi.filters.i18n import Translator, CommentDirective, DomainDirective
    from harness.props.c10 import Catalog
    pos = (None, 1, 0)
    tr = Translator(Catalog(''))
    # __call__: a domain directive behind a comment directive is moved to the front
    c, d = CommentDirective('c'), DomainDirective('d')
    dirs = [c, d]
    out = list(tr([(SUB, (dirs, [(TEXT, 'Foo', pos)]), pos)], Context()))
    yielded = out[0][1][0]
    if [type(x) for x in yielded] != [DomainDirective, CommentDirective]:
        raise AssertionError('probe: Translator.__call__ no longer moves i18n:domain to the front: %r' % (yielded,))
    call_copies = dirs == [c, d] and yielded is not dirs
    # extract: a non-i18n directive is dropped from the list extraction works with
    s = StripDirective('')
    dirs2 = [s]
    list(tr.extract([(SUB, (dirs2, [(TEXT, 'Foo', pos)]), pos)]))
    extract_copies = dirs2 == [s]
    return call_copies, extract_copies


def _probe_keys():
    from genshi.template.base import Context
    from genshi.filters.i18n import Translator
    from harness.props.c10 import Catalog
    ctxt = Context()
    before = list(ctxt.frames[0])
    list(Translator(Catalog(''))([], ctxt))
    return [k for k in ctxt.frames[0] if k not in before]


def _probe_dirs():
    from genshi.template.markup import MarkupTemplate
    from genshi.filters.i18n import Translator, I18NDirective, ExtractableI18NDirective
    rows = []
    for ns, factory in (('py', MarkupTemplate), ('i18n', Translator)):
        for name, cls in factory.directives:
            rows.append(('%s:%s' % (ns, name), issubclass(cls, I18NDirective), issubclass(cls, ExtractableI18NDirective)))
    return rows


def _fname(f):
    fn = getattr(f, '__func__', None)
    return fn.__name__ if fn is not None else type(f).__name__


def _probe_filters():
    import pickle
    from genshi.template.markup import MarkupTemplate
    from genshi.filters.i18n import Translator
    t = MarkupTemplate('<a>x</a>')
    fresh = [_fname(f) for f in t.filters]
    Translator(lambda s: s).setup(t)
    with_tr = [_fname(f) for f in t.filters]
    blob = pickle.dumps(t, 2)
    after_dump = [_fname(f) for f in t.filters]
    t2 = pickle.loads(blob)
    unpickled = [_fname(f) for f in t2.filters]
    return fresh, with_tr, after_dump, unpickled


def _probe_prepared():
    from genshi.template.markup import MarkupTemplate
    t = MarkupTemplate('<a>x</a>')
    a = bool(t._prepared)
    t.stream
    b = bool(t._prepared)
    t2 = MarkupTemplate('<a>x</a>')
    t2.generate()
    c = bool(t2._prepared)
    return a, b, c


def _b(x):
    return 'true' if x else 'false'


def gen_heap():
    cc, xc = _probe_variant()
    parts = [HEADER, 'import Genshi.Model.Heap\nnamespace Genshi.Gen.Heap\n']
    parts.append('/-- probed on genshi/filters/i18n.py Translator.__call__ / Translator.extract: is the directive list of a\n'
                 '    SUB event copied before it is reordered / popped from -/\n'
                 'def codeVariant : Genshi.Heap.Variant := ⟨%s, %s⟩\n' % (_b(cc), _b(xc)))
    keys = _probe_keys()
    parts.append('/-- context keys set by Translator.__call__ before the first event (translations object) -/\n'
                 'def i18nKeys : List (List Char) := [\n  %s]\n' % ',\n  '.join(chars(k) for k in keys))
    rows = _probe_dirs()
    parts.append('/-- (directive, is an I18NDirective, is an ExtractableI18NDirective) for MarkupTemplate.directives and\n'
                 '    Translator.directives, in registration order -/\n'
                 'def dirClasses : List (List Char × Bool × Bool) := [\n  %s]\n'
                 % ',\n  '.join('(%s, %s, %s)' % (chars(n), _b(a), _b(b)) for n, a, b in rows))
    fresh, with_tr, after_dump, unpickled = _probe_filters()
    for nm, val, doc in (('freshFilters', fresh, 'filters of a new MarkupTemplate'),
                         ('translatorFilters', with_tr, 'after Translator.setup'),
                         ('afterDumpFilters', after_dump, 'the same object after pickle.dumps'),
                         ('unpickledFilters', unpickled, 'filters of pickle.loads(pickle.dumps(t))')):
        parts.append('/-- %s -/\ndef %s : List (List Char) := [%s]\n' % (doc, nm, ', '.join(chars(x) for x in val)))
    a, b, c = _probe_prepared()
    parts.append('/-- `_prepared` of a new template, after `.stream`, after `generate()` -/\n'
                 'def preparedFlags : Bool × Bool × Bool := (%s, %s, %s)\n' % (_b(a), _b(b), _b(c)))
    parts.append('end Genshi.Gen.Heap\n')
    return 'Heap.lean', '\n'.join(parts)


GENERATORS = [gen_heap]

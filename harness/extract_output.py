"""Translator part for genshi/output.py beyond the class-level sets of Gen/Output.lean:
values read from *constructed* serializers (what the filters really get), the DocType.get
table, the filter chain per option setting.  Emits lean/Genshi/Gen/OutputExtra.lean."""
from harness.extract_tables import HEADER, chars, qn


def opt(x):
    return 'none' if x is None else '(some %s)' % chars(x)


def gen_output_extra():
    from genshi import output
    from genshi.core import XML_NAMESPACE
    parts = [HEADER, 'namespace Genshi.Gen.OutputExtra\n']

    # DocType.get: every name the method answers for (keys are lower-case in the code; the
    # method lower-cases its argument).  Obtained by probing the names of the class constants.
    names = set()
    for attr in dir(output.DocType):
        if attr.isupper():
            names.add(attr.lower().replace('_', '-'))
    rows = []
    for n in sorted(names | set(['html', 'html-strict', 'html-transitional', 'html-frameset', 'html5', 'xhtml',
                                  'xhtml-strict', 'xhtml-transitional', 'xhtml-frameset', 'xhtml11', 'svg',
                                  'svg-full', 'svg-basic', 'svg-tiny'])):
        v = output.DocType.get(n)
        if v is not None:
            rows.append('(%s, (%s, %s, %s))' % (chars(n), chars(v[0]), opt(v[1]), opt(v[2])))
    parts.append('/-- from genshi/output.py:DocType.get (probed for every constant name) -/\n'
                 'def docTypes : List (List Char × (List Char × Option (List Char) × Option (List Char))) := [\n  %s]\n'
                 % ',\n  '.join(rows))
    parts.append('/-- DocType.get lower-cases its argument -/\ndef docTypeGetLowers : Bool := %s\n'
                 % ('true' if output.DocType.get('HTML5') == output.DocType.get('html5') else 'false'))

    parts.append('/-- from genshi/core.py:XML_NAMESPACE.uri -/\ndef xmlNamespace : List Char := %s\n'
                 % chars(XML_NAMESPACE.uri))

    # per method and option setting: the filter chain and what the filters were constructed with
    classes = [('xml', output.XMLSerializer), ('xhtml', output.XHTMLSerializer), ('html', output.HTMLSerializer)]
    chain_rows, ws_rows, flag_rows, pfx_rows = [], [], [], []
    for mname, cls in classes:
        for strip in (True, False):
            for dt in (None, 'html'):
                for cache in (True, False):
                    s = cls(doctype=dt, strip_whitespace=strip, cache=cache)
                    chain = [type(f).__name__ for f in s.filters]
                    chain_rows.append('((%s, %s, %s, %s), [%s])' % (
                        chars(mname), 'true' if strip else 'false', 'true' if dt else 'false',
                        'true' if cache else 'false', ', '.join(chars(c) for c in chain)))
                    fl = [f for f in s.filters if isinstance(f, output.NamespaceFlattener)]
                    flag_rows.append('((%s, %s), (%s, %s))' % (
                        chars(mname), 'true' if cache else 'false',
                        'true' if s.cache else 'false', 'true' if (fl and fl[0].cache) else 'false'))
        s = cls(strip_whitespace=True)
        ws = [f for f in s.filters if isinstance(f, output.WhitespaceFilter)][0]

        def pairs(vals):
            return '[' + ', '.join('(%s, %s)' % (chars(a), chars(b)) for a, b in sorted(qn(v) for v in vals)) + ']'
        ws_rows.append('(%s, (%s, %s, %s))' % (chars(mname), pairs(ws.preserve), pairs(ws.noescape),
                                             'true' if getattr(ws, 'cdata', True) else 'false'))
        fl = [f for f in s.filters if isinstance(f, output.NamespaceFlattener)][0]
        pfx_rows.append('(%s, [%s])' % (chars(mname), ', '.join(
            '(%s, %s)' % (chars(u), chars(p)) for u, p in sorted(fl.prefixes.items()))))
    flag_rows = sorted(set(flag_rows))
    parts.append('/-- (method, strip_whitespace, doctype given, cache) ↦ class names of serializer.filters -/\n'
                 'def filterChains : List ((List Char × Bool × Bool × Bool) × List (List Char)) := [\n  %s]\n'
                 % ',\n  '.join(chain_rows))
    parts.append('/-- method ↦ (preserve, noescape, cdata) of the constructed WhitespaceFilter -/\n'
                 'def wsArgs : List (List Char × (List (List Char × List Char) × List (List Char × List Char) × Bool)) := [\n  %s]\n'
                 % ',\n  '.join(ws_rows))
    parts.append('/-- (method, cache argument) ↦ (serializer.cache, flattener.cache) -/\n'
                 'def cacheFlags : List ((List Char × Bool) × (Bool × Bool)) := [\n  %s]\n' % ',\n  '.join(flag_rows))
    parts.append('/-- method ↦ the preferred-prefix map (uri, prefix) given to NamespaceFlattener -/\n'
                 'def flattenerPrefixes : List (List Char × List (List Char × List Char)) := [\n  %s]\n'
                 % ',\n  '.join(pfx_rows))
    parts.append('end Genshi.Gen.OutputExtra\n')
    return 'OutputExtra.lean', '\n'.join(parts)


GENERATORS = [gen_output_extra]

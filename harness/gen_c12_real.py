"""C12 generators for the *real* matcher (the C05/C17 path model plugged into the match filter):
documents with attributes, match paths from harness/gen_paths.py's grammar (descendant steps, `//`,
attribute predicates, unions) and from a structured sub-grammar for which an independent Python
reference exists.

A case (JSON-serialisable, canonical):

  {"tmpls": [tmpl, ...], "doc": [node, ...]}      <root> declarations… content… </root>
  node  := [name, [node, ...], [[attr, value], ...]] | "text"
  tmpl  := {"match": text, "spath": spath | None, "body": [bitem, ...], "buffer": bool, "once": bool, "recursive": bool}
  spath := [[[axis, name, pred], ...], ...]          union of location paths, axis in child|desc|dos (`//`)|attr (last step only),
                                                     name or '*', pred := None | ["has", a] | ["eq", a, v] | ["not", a]
  bitem := as in gen_c12 (["w", [...]] | "text" | {"sel": spath})
"""
import json
from harness import gen_paths as GP
from harness import gen_c12 as G

NAMES = GP.NAMES                   # a b c
ANAMES = ['n', 'm']                # ⊂ gen_paths.ATTR_NAMES
AVALS = ['1', '2', '2.5', 'abc', '']

# the profile of gen_paths for match paths: element axes, names / * / node(), attribute predicates, unions
MATCH = dict(axes=('child', 'child', 'descendant', 'descendant-or-self'), attr_step=False, preds=0.4,
             kinds=('name', 'name', 'name', '*', 'node'), union=0.2, positional=False, funcs=False,
             ns=False, maxsteps=3)
MATCH_POS = dict(MATCH, positional=True)


# --------------------------------------------------------------------------
# documents

def rand_attrs(rng):
    out = []
    for a in ANAMES:
        if rng.random() < 0.4:
            out.append([a, rng.choice(AVALS)])
    return out


def rand_nodes(rng, depth, width, text=True):
    out = []
    for _ in range(rng.randrange(0, width + 1)):
        r = rng.random()
        if text and r < 0.15:
            if out and isinstance(out[-1], str):
                continue
            out.append(rng.choice(['t', 'uu']))
        elif depth <= 0:
            out.append([rng.choice(NAMES), [], rand_attrs(rng)])
        else:
            out.append([rng.choice(NAMES), rand_nodes(rng, depth - 1, width, text), rand_attrs(rng)])
    return out


# --------------------------------------------------------------------------
# structured paths

def rand_spath(rng):
    alts = []
    for _ in range(1 if rng.random() < 0.8 else 2):
        n = rng.choice([1, 1, 2, 2, 3])
        steps = []
        for i in range(n):
            axis = 'child' if i == 0 else rng.choice(['child', 'child', 'desc', 'dos'])
            if i == 0 and rng.random() < 0.15:
                axis = 'dos'            # leading //name
            name = rng.choice(NAMES) if rng.random() < 0.75 else '*'
            pred = None
            r = rng.random()
            if r < 0.15:
                pred = ['has', rng.choice(ANAMES)]
            elif r < 0.28:
                pred = ['eq', rng.choice(ANAMES), rng.choice(['1', '2', 'abc'])]
            elif r < 0.34:
                pred = ['not', rng.choice(ANAMES)]
            steps.append([axis, name, pred])
        if rng.random() < 0.08:
            # a final attribute step: the path selects attribute nodes, so it matches no ELEMENT (the test
            # closure answers an Attrs value, never `True`); as an operand of a union it must not disturb the others
            steps.append(['attr', rng.choice(ANAMES + ['*']), None])
        alts.append(steps)
    return alts


def spath_text(sp):
    out = []
    for steps in sp:
        t = ''
        for i, (axis, name, pred) in enumerate(steps):
            if axis == 'attr':
                t += '/@' + name
                continue
            if axis == 'dos':
                t += '//'
            elif axis == 'desc':
                t += ('/' if i else '') + 'descendant::'
            elif i:
                t += '/'
            t += name
            if pred:
                if pred[0] == 'has':
                    t += '[@%s]' % pred[1]
                elif pred[0] == 'eq':
                    t += '[@%s="%s"]' % (pred[1], pred[2])
                else:
                    t += '[not(@%s)]' % pred[1]
        out.append(t)
    return '|'.join(out)


def rand_gpath(rng, positional=False):
    """a match path from gen_paths' grammar (no variables: the match context binds none)"""
    for _ in range(50):
        t = GP.rand_path(rng, MATCH_POS if positional else MATCH)
        if '$' not in t:
            return t
    return 'a'


def path_shape(text, res_count):
    """count the shape of a match path text in res.dist"""
    alts = text.split('|')
    res_count('rpath:union' if len(alts) > 1 else 'rpath:single-path')
    for a in alts:
        a = a.strip()
        nsteps = len([x for x in a.replace('//', '/').split('/') if x.strip() not in ('', '.')])
        res_count('rpath:steps=%d' % min(nsteps, 4))
        if '//' in a:
            res_count('rpath://')
        if 'descendant::' in a:
            res_count('rpath:descendant::')
        if 'descendant-or-self::' in a:
            res_count('rpath:descendant-or-self::')
        if '[' in a:
            res_count('rpath:predicate')
        if '/@' in a:
            res_count('rpath:attribute-final-step')
        if '[@' in a or '(@' in a:
            res_count('rpath:attribute-predicate')
        if '*' in a or 'node()' in a:
            res_count('rpath:wildcard')


# --------------------------------------------------------------------------
# cases

def rand_case(rng, structured=True, positional=False, hints=True):
    ntmpl = rng.choice([1, 1, 2, 2, 3])
    tmpls = []
    for _ in range(ntmpl):
        body = G.rand_body(rng, maxsel=1)
        if structured:
            sp = rand_spath(rng)
            t = {'match': spath_text(sp), 'spath': sp}
        else:
            t = {'match': rand_gpath(rng, positional and rng.random() < 0.5), 'spath': None}
        t.update(body=body, buffer=True, once=False, recursive=True)
        if hints:
            if rng.random() < 0.25:
                t['buffer'] = False
            if rng.random() < 0.15:
                t['once'] = True
            if rng.random() < 0.15:
                t['recursive'] = False
        tmpls.append(t)
    doc = rand_nodes(rng, 3, 3)
    while not any(isinstance(k, list) for k in doc):
        doc = rand_nodes(rng, 3, 3)
    return {'tmpls': tmpls, 'doc': doc}


def canon(case):
    return json.dumps(case, sort_keys=True)


# --------------------------------------------------------------------------
# template source and the real rendering

def _attr_src(attrs):
    return ''.join(' %s="%s"' % (k, G.esc(v).replace('"', '&quot;')) for k, v in attrs)


def _doc_src(nodes):
    out = []
    for n in nodes:
        if isinstance(n, str):
            out.append(G.esc(n))
        else:
            out.append('<%s%s>%s</%s>' % (n[0], _attr_src(n[2]), _doc_src(n[1]), n[0]))
    return ''.join(out)


def build_source(case):
    parts = []
    for t in case['tmpls']:
        hints = ''.join(' %s="%s"' % (k, v) for k, v in sorted(G.hint_attrs(t).items()))
        parts.append('<py:match path="%s"%s>%s</py:match>' % (G.esc(t['match']).replace('"', '&quot;'), hints,
                                                               G._body_src(t['body'])))
    return '<root xmlns:py="%s">%s%s</root>' % (G.PY_NS, ''.join(parts), _doc_src(case['doc']))


def render_events(case):
    """-> ['ok', [['S', name, attrs] | ['S', name] | ['E', name] | ['T', text]]] | ['err', class name]"""
    from genshi.template import MarkupTemplate
    from harness import evwire
    try:
        stream = MarkupTemplate(build_source(case)).generate()
        out = []
        for e in evwire.stream(stream):
            k = str(e[0]) if isinstance(e, list) else str(e)
            if k == 'S':
                if e[1][0] or any(a[0][0] for a in e[2]):
                    return ['err', 'unexpected-ns']
                attrs = [[a[0][1], a[1]] for a in e[2]]
                out.append(['S', e[1][1], attrs] if attrs else ['S', e[1][1]])
            elif k == 'E':
                out.append(['E', e[1][1]])
            elif k == 'T':
                out.append(['T', e[1]])
            else:
                return ['err', 'unexpected-kind']
        return ['ok', out]
    except Exception as e:  # noqa
        return ['err', type(e).__name__]


# --------------------------------------------------------------------------
# wire form for the driver verbs `real` / `xspec`

def _wire_nodes(nodes, out):
    from harness.proto import Atom
    for n in nodes:
        if isinstance(n, str):
            out.append([Atom('T'), n])
        else:
            out.append([Atom('S'), n[0], [[k, v] for k, v in n[2]]])
            _wire_nodes(n[1], out)
            out.append([Atom('E'), n[0]])


def wire_items(case):
    from harness.proto import Atom
    out = [[Atom('S'), 'root', []]]
    for t in case['tmpls']:
        body = []
        G._flat_body(t['body'], body)
        wb = []
        for b in body:
            if b[0] == 'SEL':
                w = G.SEL_WIRE.get(b[1])
                wb.append([Atom('SEL')] + ([Atom(w[0])] if w else [Atom('named'), b[1]]))
            else:
                wb.append([Atom(b[0]), b[1]])
        a = G.hint_attrs(t)
        out.append([Atom('REGT'), t['match'], wb, a.get('buffer'), a.get('once'), a.get('recursive')])
    _wire_nodes(case['doc'], out)
    out.append([Atom('E'), 'root'])
    return out


# --------------------------------------------------------------------------
# independent reference for structured paths: declaration-order pipeline of whole-document tree
# rewrites, patterns evaluated on ancestor chains (no streams, no matcher state)

def _pred_ok(pred, attrs):
    if pred is None:
        return True
    d = dict(attrs)
    if pred[0] == 'has':
        return pred[1] in d
    if pred[0] == 'eq':
        return d.get(pred[1]) == pred[2]
    return pred[1] not in d


def pattern_matches(steps, chain):
    """chain: [(name, attrs)] outermost first, the element last; XSLT-pattern reading:
    child steps relate neighbours, desc / dos(`//`) steps relate an ancestor to a descendant"""
    if steps[-1][0] == 'attr':
        return False            # attribute nodes are not elements: nothing to replace

    def m(k, pos):
        axis, name, pred = steps[k]
        if pos < 0:
            return False
        nm, attrs = chain[pos]
        if not ((name == '*' or name == nm) and _pred_ok(pred, attrs)):
            return False
        if k == 0:
            return True
        if axis == 'child':
            return m(k - 1, pos - 1)
        return any(m(k - 1, p) for p in range(pos))
    return m(len(steps) - 1, len(chain) - 1)


def ref_select(sel, el):
    name, kids = el[0], el[1]
    if sel == '.':
        return [el]
    if sel in ('node()', '*|text()'):
        return list(kids)
    if sel == '*':
        return [k for k in kids if isinstance(k, list)]
    if sel == 'text()':
        return [k for k in kids if isinstance(k, str)]
    return [k for k in kids if isinstance(k, list) and k[0] == sel]


def ref_body(body, el):
    out = []
    for b in body:
        if isinstance(b, str):
            out.append(b)
        elif isinstance(b, dict):
            out.extend(ref_select(b['sel'], el))
        else:
            out.append([b[0], ref_body(b[1], el), []])
    return out


def reference(case):
    """-> ['ok', events] | ['na', why]; fired per template"""
    tmpls = case['tmpls']
    if any(t.get('spath') is None for t in tmpls):
        return ['na', 'unstructured path'], {}
    fired = {}
    budget = [20000]

    def stage(k, t, nodes, anc, live):
        out = []
        for nd in nodes:
            budget[0] -= 1
            if budget[0] < 0:
                raise RecursionError()
            if isinstance(nd, str):
                out.append(nd)
                continue
            name, ks, attrs = nd
            chain = anc + [(name, attrs)]
            if live[0] and any(pattern_matches(steps, chain) for steps in t['spath']):
                fired[k] = fired.get(k, 0) + 1
                if t.get('once', False):
                    live[0] = False
                if t.get('recursive', True) and not t.get('once', False):
                    ks = stage(k, t, ks, chain, live)
                out.extend(ref_body(t['body'], [name, ks, attrs]))
            else:
                out.append([name, stage(k, t, ks, chain, live), attrs])
        return out

    forest = case['doc']
    try:
        for k, t in enumerate(tmpls):
            forest = stage(k, t, forest, [], [True])
    except RecursionError:
        return ['na', 'budget'], fired
    ev = [['S', 'root']]
    _ev_nodes(forest, ev)
    ev.append(['E', 'root'])
    return ['ok', ev], fired


def _ev_nodes(nodes, out):
    last_text = False
    for n in nodes:
        if isinstance(n, str):
            # adjacent text nodes of the reference are one TEXT event each in genshi's output too
            # (select() yields the original events), so no merging here
            out.append(['T', n])
        else:
            out.append(['S', n[0], [list(a) for a in n[2]]] if n[2] else ['S', n[0]])
            _ev_nodes(n[1], out)
            out.append(['E', n[0]])

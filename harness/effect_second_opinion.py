"""Second opinion on "what Python computes" for the execution-effect oracle of C13.

Run by another CPython of the sandbox (`python3-vt`, 3.11: no PEP 709 comprehension inlining):
reads {"src": …, "data": …} from stdin, exec()s the ORIGINAL source on the context data and
prints the canonical effect [status, namespace] as JSON — the same canonical form the oracle uses
(harness.props.c13.effect_outcome); genshi is not involved (a stub stands in for its Undefined class,
which a plain exec never produces)."""
import builtins, json, os, sys, types

sys.path.insert(0, os.path.dirname(os.path.dirname(os.path.abspath(__file__))))


def main():
    req = json.load(sys.stdin)
    for name in ('genshi', 'genshi.template', 'genshi.template.eval'):
        sys.modules[name] = types.ModuleType(name)
    sys.modules['genshi.template.eval'].Undefined = type('Undefined', (), {})
    from harness.props import c03, c13
    code = compile(req['src'], '<reference>', 'exec')
    g = c03.build_data(req['data'])
    g['__builtins__'] = builtins
    out = c13.effect_outcome(lambda: exec(code, g), g)
    sys.stdout.write(json.dumps({'version': list(sys.version_info[:3]), 'effect': out}))


if __name__ == '__main__':
    main()

"""C11 — directory-tree generators, template printers, the real-code runner and the
specification-side reference evaluator for "included templates behave the same whether
inlined at prepare time or loaded at render time".

A *case* is plain JSON:

  {"dirs":  [ [[path, {"kind": "markup"|"text", "body": [node, ...]}      well-formed file
                     | {"kind": ..., "raw": "<source text>"}], ...],      ill-formed file (verbatim source)
              ... ],                                                      search path, in order
   "entry": path, "data": {name: value}}

  node  = ["text", s] | ["var", x] | ["elem", tag, [node]] | ["if", ["var"|"not", x], [node]]
        | ["for", x, xs, [node]] | ["def", m, [node]] | ["call", m] | ["match", tag, [node]]
        | ["include", href, parse, fallback] | ["select"]   (${select('*|text()')}, in match template bodies)
  href  = ["static", s] | ["dyn", [["lit", s] | ["var", x], ...]]
  parse = "xml" | "text" | null          (null: the includer's own class)
  fallback = null | [node]
  value = str | [value]

The abstract form is what travels to the Lean model; `source()` prints it as genshi template
text (markup or new-style text syntax) for the real code.  Nothing here imports genshi at
module level (workers stage it first).
"""
import json, os, random, shutil, sys

PY_NS = 'http://genshi.edgewall.org/'
XI_NS = 'http://www.w3.org/2001/XInclude'

MATCH_TAGS = ['x', 'q']          # tags match templates are written for
PLAIN_TAGS = ['d', 'p', 'e']
TEXT_ALPHA = ['a', 'b', 'c', ' ', '1', '&', '<', '-']


# --------------------------------------------------------------------------
# printers

def esc_markup(s):
    return s.replace('&', '&amp;').replace('<', '&lt;').replace('>', '&gt;').replace('$', '$$')


def esc_attr(s):
    return esc_markup(s).replace('"', '&#34;')


def href_src(href):
    if href[0] == 'static':
        return href[1].replace('$', '$$')
    return ''.join(p[1].replace('$', '$$') if p[0] == 'lit' else '${%s}' % p[1] for p in href[1])


def cond_src(c):
    return c[1] if c[0] == 'var' else 'not %s' % c[1]


def markup_nodes(nodes, root_ns=False):
    out = []
    for n in nodes:
        k = n[0]
        if k == 'text':
            out.append(esc_markup(n[1]))
        elif k == 'var':
            out.append('${%s}' % n[1])
        elif k == 'call':
            out.append('${%s()}' % n[1])
        elif k == 'select':
            out.append("${select('*|text()')}")
        elif k == 'elem':
            ns = ' xmlns:py="%s" xmlns:xi="%s"' % (PY_NS, XI_NS) if root_ns else ''
            out.append('<%s%s>%s</%s>' % (n[1], ns, markup_nodes(n[2]), n[1]))
        elif k == 'if':
            out.append('<py:if test="%s">%s</py:if>' % (cond_src(n[1]), markup_nodes(n[2])))
        elif k == 'for':
            out.append('<py:for each="%s in %s">%s</py:for>' % (n[1], n[2], markup_nodes(n[3])))
        elif k == 'def':
            out.append('<py:def function="%s">%s</py:def>' % (n[1], markup_nodes(n[2])))
        elif k == 'match':
            out.append('<py:match path="%s">%s</py:match>' % (n[1], markup_nodes(n[2])))
        elif k == 'include':
            href, parse, fb = n[1], n[2], n[3]
            a = ' href="%s"' % href_attr(href)
            if parse:
                a += ' parse="%s"' % parse
            inner = '' if fb is None else '<xi:fallback>%s</xi:fallback>' % markup_nodes(fb)
            out.append('<xi:include%s>%s</xi:include>' % (a, inner))
        else:
            raise ValueError(k)
    return ''.join(out)


def href_attr(href):
    if href[0] == 'static':
        return esc_attr(href[1])
    return ''.join(esc_attr(p[1]) if p[0] == 'lit' else '${%s}' % p[1] for p in href[1])



def text_nodes(nodes):
    out = []
    for n in nodes:
        k = n[0]
        if k == 'text':
            out.append(n[1].replace('$', '$$'))
        elif k == 'var':
            out.append('${%s}' % n[1])
        elif k == 'call':
            out.append('${%s()}' % n[1])
        elif k == 'if':
            out.append('{%% if %s %%}%s{%% end %%}' % (cond_src(n[1]), text_nodes(n[2])))
        elif k == 'for':
            out.append('{%% for %s in %s %%}%s{%% end %%}' % (n[1], n[2], text_nodes(n[3])))
        elif k == 'def':
            out.append('{%% def %s %%}%s{%% end %%}' % (n[1], text_nodes(n[2])))
        elif k == 'include':
            out.append('{%% include %s %%}' % href_src(n[1]))
        else:
            raise ValueError('no text syntax for %s' % k)
    return ''.join(out)


def source(f):
    """template source text of a file record"""
    if 'raw' in f:
        return f['raw']
    if f['kind'] == 'markup':
        body = f['body']
        if len(body) != 1 or body[0][0] != 'elem':
            raise ValueError('a markup file is one root element')
        return markup_nodes(body, root_ns=True)
    return text_nodes(f['body'])


def text_ok(nodes):
    """what a text template can express (and what the model covers for text files)"""
    for n in nodes:
        k = n[0]
        if k in ('elem', 'match', 'call', 'select'):
            return False
        if k in ('if', 'def') and not text_ok(n[2]):
            return False
        if k == 'for' and not text_ok(n[3]):
            return False
        if k == 'include' and (n[2] is not None or n[3] != []):
            return False
    return True


# --------------------------------------------------------------------------
# the real code

def materialise(case, base):
    """write the tree under base/<i>/…; returns the search path"""
    dirs = []
    for i, d in enumerate(case['dirs']):
        root = os.path.join(base, 'r%d' % i)
        os.makedirs(root, exist_ok=True)
        for path, f in d:
            p = os.path.join(root, path)
            os.makedirs(os.path.dirname(p), exist_ok=True)
            with open(p, 'w', encoding='utf-8') as fh:
                fh.write(source(f))
        dirs.append(root)
    return dirs


def entry_kind(case):
    return kind_of_file(case, case['entry'])


class Budget(BaseException):
    """more template loads than LOAD_BUDGET (or more events than EVENT_BUDGET) in one render: the
    case is skipped (deterministic work bound; keeps endless recursions that also grow the
    match-template list affordable)"""


EVENT_BUDGET = 20000


def canon_events(stream):
    out = []
    n = 0
    for kind, data, pos in stream:
        n += 1
        if n > EVENT_BUDGET:
            raise Budget()
        k = str(kind)
        if k == 'TEXT':
            s = str(data)
            if not s:
                continue
            if out and out[-1][0] == 'T':
                out[-1][1] += s
            else:
                out.append(['T', s])
        elif k == 'START':
            tag, attrs = data
            if len(attrs):
                out.append(['S', str(tag), [[str(a), str(v)] for a, v in attrs]])
            else:
                out.append(['S', str(tag)])
        elif k == 'END':
            out.append(['E', str(data)])
        else:
            out.append([k, repr(data)])
    return out


def exc_name(e):
    from genshi.template import TemplateNotFound, TemplateSyntaxError
    from genshi.template.eval import UndefinedError
    if isinstance(e, TemplateNotFound):
        return 'TemplateNotFound'
    if isinstance(e, TemplateSyntaxError):
        return 'TemplateSyntaxError'
    if isinstance(e, UndefinedError):
        return 'UndefinedError'
    if isinstance(e, RecursionError):
        return 'RecursionError'
    return 'Other:%s' % type(e).__name__


def requests(case):
    """[(entry, data)]: the case's entry first, then the optional further requests answered by
    the same loader"""
    return [(case['entry'], case['data'])] + [(e, d) for e, d in case.get('then', [])]


def kind_of_file(case, name):
    f = find_file(case, name)
    return f['kind'] if f else 'markup'


def render_real(case, dirs, auto_reload, prepared=None):
    """outcomes of answering the case's requests one after the other through one fresh
    TemplateLoader(dirs, auto_reload=…): a list of ['ok', events] | ['err', class name] | ['skip', 'budget']"""
    from genshi.template import TemplateLoader, NewTextTemplate, MarkupTemplate

    from genshi.template.base import Context

    class CountingLoader(TemplateLoader):
        loads = 0
        ctxt = None

        def load(self, *a, **kw):
            self.loads += 1
            if self.loads > LOAD_BUDGET:
                raise Budget()
            return TemplateLoader.load(self, *a, **kw)

    class BudgetList(list):
        # every START/END event is tested against every registered match template: an endless
        # recursion that registers templates on the way gets very slow long before it ends
        tests = 0

        def append(self, x):
            if len(self) >= MATCH_BUDGET:
                raise Budget()
            list.append(self, x)

        def __iter__(self):
            # _match walks the list once per START/END event it sees, at every nesting level:
            # match templates whose bodies contain matchable elements multiply that
            self.tests += 1
            if self.tests > MATCH_TEST_BUDGET:
                raise Budget()
            return list.__iter__(self)

    loader = CountingLoader(list(dirs), auto_reload=auto_reload, max_cache_size=200)
    old = sys.getrecursionlimit()
    sys.setrecursionlimit(RECURSION_LIMIT)
    outs = []
    try:
        for entry, data in requests(case):
            cls = NewTextTemplate if kind_of_file(case, entry) == 'text' else MarkupTemplate
            loader.loads = 0
            try:
                loader.ctxt = None
                tmpl = loader.load(entry, cls=cls)
                loader.ctxt = Context(**data)
                loader.ctxt._match_templates = BudgetList()
                stream = tmpl.generate(loader.ctxt)
                outs.append(['ok', canon_events(stream)])
            except Budget:
                outs.append(['skip', 'budget'])
            except Exception as e:  # noqa
                outs.append(['err', exc_name(e)])
            if prepared is not None:
                # the loader after this request (which may have failed): the templates it holds prepared
                items = loader._cache._dict
                prepared.append(sorted(str(k) for k in items if getattr(items[k].value, '_prepared', False)))
    finally:
        sys.setrecursionlimit(old)
    return outs


LOAD_BUDGET = 2500
MATCH_BUDGET = 60
MATCH_TEST_BUDGET = 20000
RECURSION_LIMIT = 420


def kept_static_real(case, dirs):
    """resolved targets of the statically named includes still present in the prepared stream of
    the entry under auto_reload off (document order, any depth), or None when preparing raises"""
    from genshi.template import TemplateLoader, NewTextTemplate, MarkupTemplate
    from genshi.template.base import INCLUDE, SUB
    loader = TemplateLoader(list(dirs), auto_reload=False, max_cache_size=200)
    cls = NewTextTemplate if entry_kind(case) == 'text' else MarkupTemplate
    out = []

    def walk(stream):
        for kind, data, pos in stream:
            if kind is SUB:
                walk(data[1])
            elif kind is INCLUDE:
                href, _, fallback = data
                if isinstance(href, str):
                    out.append(resolve(pos[0], href))
                if fallback:
                    walk(fallback)
    try:
        walk(loader.load(case['entry'], cls=cls).stream)
    except Exception:  # noqa
        return None
    return out


def static_graph(case):
    """file name -> resolved targets of its statically named includes (first search directory wins)"""
    g = {}

    def walk(nodes, here, acc):
        for n in nodes:
            k = n[0]
            if k in ('elem', 'if', 'def', 'match'):
                walk(n[2], here, acc)
            elif k == 'for':
                walk(n[3], here, acc)
            elif k == 'include':
                if n[1][0] == 'static' and not n[1][1].startswith('/'):
                    acc.append(resolve(here, n[1][1]))
                if n[3] is not None:
                    walk(n[3], here, acc)
    for d in case['dirs']:
        for path, f in d:
            if path not in g:
                acc = []
                if 'body' in f:
                    walk(f['body'], path, acc)
                g[path] = acc
    return g


def on_cycle(g, t):
    """t reaches itself through at least one static include"""
    seen, todo = set(), list(g.get(t, []))
    while todo:
        u = todo.pop()
        if u == t:
            return True
        if u in seen:
            continue
        seen.add(u)
        todo.extend(g.get(u, []))
    return False


def load_order(case):
    """a deterministic shuffle of the case's file names (plus one missing name): the order in which the
    load-sequence stream loads them, one after the other, through one loader"""
    names = sorted(set(p for d in case['dirs'] for p, _ in d)) + ['nope.html']
    random.Random(json.dumps(case, sort_keys=True)).shuffle(names)
    return names


def load_sequence_real(case, dirs, names):
    """`loader.load(name).stream` for every name in turn through one TemplateLoader(auto_reload=False), nothing rendered:
    [[outcome, names of the templates the loader holds prepared afterwards]]"""
    from genshi.template import TemplateLoader, NewTextTemplate, MarkupTemplate
    loader = TemplateLoader(list(dirs), auto_reload=False, max_cache_size=200)
    out = []
    for name in names:
        cls = NewTextTemplate if kind_of_file(case, name) == 'text' else MarkupTemplate
        try:
            loader.load(name, cls=cls).stream
            o = 'ok'
        except Exception as e:  # noqa
            o = exc_name(e)
        items = loader._cache._dict
        out.append([o, sorted(str(k) for k in items if getattr(items[k].value, '_prepared', False))])
    return out


def run_real(case, base):
    """both modes on one materialised tree; returns {'inline': outcome, 'runtime': outcome}"""
    os.makedirs(base, exist_ok=True)
    try:
        dirs = materialise(case, base)
        prep = []
        a, b = render_real(case, dirs, False, prep), render_real(case, dirs, True)
        return {'inline': a[0], 'runtime': b[0], 'inline_then': a[1:], 'runtime_then': b[1:],
                'inline_prepared': prep, 'kept': kept_static_real(case, dirs),
                'load_seq': load_sequence_real(case, dirs, load_order(case))}
    finally:
        shutil.rmtree(base, ignore_errors=True)


# --------------------------------------------------------------------------
# path resolution as the property reads it (posix, relative names only)

def normpath(p):
    comps = []
    for c in p.split('/'):
        if c in ('', '.'):
            continue
        if c == '..' and comps and comps[-1] != '..':
            comps.pop()
        else:
            comps.append(c)
    return '/'.join(comps) or '.'


def resolve(relative_to, href):
    d = relative_to.rsplit('/', 1)[0] if '/' in relative_to else ''
    return normpath(d + '/' + href if d else href)


def find_file(case, name):
    for d in case['dirs']:
        for path, f in d:
            if path == name:
                return f
    return None


# --------------------------------------------------------------------------
# the hypotheses of the theorem, as static checks on a case (mirrored by Genshi.Incl.inH;
# the harness compares the two verdicts on every case)

def static_targets_wellformed(case):
    return all('raw' not in f for d in case['dirs'] for _, f in d)


def match_tags(nodes, acc):
    for n in nodes:
        k = n[0]
        if k == 'match':
            acc.add(n[1])
            match_tags(n[2], acc)
        elif k in ('elem', 'if', 'def'):
            match_tags(n[2], acc)
        elif k == 'for':
            match_tags(n[3], acc)
        elif k == 'include' and n[3] is not None:
            match_tags(n[3], acc)
    return acc


def case_match_tags(case):
    acc = set()
    for d in case['dirs']:
        for _, f in d:
            if 'body' in f:
                match_tags(f['body'], acc)
    return acc


CLS = {'xml': 'markup', 'text': 'text'}


def winfree(nodes, T, own):
    """a stream whose rendering does not depend on the window of match templates in force
    (Genshi.Incl.winfreeL)"""
    for n in nodes:
        k = n[0]
        if k in ('call', 'select'):
            return False
        if k == 'elem':
            if n[1] in T or not winfree(n[2], T, own):
                return False
        elif k == 'if':
            if not winfree(n[2], T, own):
                return False
        elif k == 'for':
            if not winfree(n[3], T, own):
                return False
        elif k == 'include':
            if n[1][0] == 'static' and CLS.get(n[2], own) != 'text':
                return False
            if n[3] is not None and not winfree(n[3], T, own):
                return False
    return True


def zone_target_ok(case, T, here, own, n):
    """a statically named include inside a zone: what would be inlined for it (target, or the
    fallback of a missing target) does not depend on the window (Genshi.Incl.zoneTargetOk)"""
    h = n[1][1]
    if h.startswith('/'):
        return False
    f = find_file(case, resolve(here, h))
    if f is None:
        return n[3] is None or winfree(n[3], T, own)
    return 'body' not in f or winfree(f['body'], T, f['kind'])


def zone_free(case, nodes, T, here, own, zone=False):
    """inside an element a match template may rewrite (tag in T) and inside a match template
    body: no macro call, a statically named include only of window-independent content"""
    for n in nodes:
        k = n[0]
        if k == 'call' and zone:
            return False
        if k == 'include':
            if zone and n[1][0] == 'static' and not zone_target_ok(case, T, here, own, n):
                return False
            if n[3] is not None and not zone_free(case, n[3], T, here, own, False):
                return False
        elif k == 'elem':
            if not zone_free(case, n[2], T, here, own, zone or n[1] in T):
                return False
        elif k == 'if':
            if not zone_free(case, n[2], T, here, own, zone):
                return False
        elif k == 'for':
            if not zone_free(case, n[3], T, here, own, zone):
                return False
        elif k == 'def':
            if not zone_free(case, n[2], T, here, own, False):
                return False
        elif k == 'match':
            if not zone_free(case, n[2], T, here, own, True):
                return False
    return True


def cls_ok(case, nodes, here, own):
    """statically named includes are relative and name the class of their target"""
    for n in nodes:
        k = n[0]
        if k in ('elem', 'if', 'def', 'match'):
            if not cls_ok(case, n[2], here, own):
                return False
        elif k == 'for':
            if not cls_ok(case, n[3], here, own):
                return False
        elif k == 'include':
            if n[1][0] == 'static':
                if n[1][1].startswith('/'):
                    return False
                f = find_file(case, resolve(here, n[1][1]))
                cls = {'xml': 'markup', 'text': 'text', None: own}[n[2]]
                if f is not None and f['kind'] != cls:
                    return False
            if n[3] is not None and not cls_ok(case, n[3], here, own):
                return False
    return True


def in_hypothesis(case):
    """the hypothesis of inline_eq_runtime_partial (Genshi.Incl.inH with T = all match tags)"""
    if not static_targets_wellformed(case):
        return False
    T = case_match_tags(case)
    for d in case['dirs']:
        for path, f in d:
            if not zone_free(case, f['body'], T, path, f['kind']) or not cls_ok(case, f['body'], path, f['kind']):
                return False
            if f['kind'] == 'text' and not text_ok(f['body']):
                return False          # a text template that calls a macro
    return True


def in_hypothesis_w(case):
    """the hypothesis of inline_eq_runtime_illformed_partial (Genshi.Incl.inHW with T = all match tags): in_hypothesis
    without "every file is a well-formed template" (an ill-formed file has no stream to check)"""
    T = case_match_tags(case)
    for d in case['dirs']:
        for path, f in d:
            if 'raw' in f:
                continue
            if not zone_free(case, f['body'], T, path, f['kind']) or not cls_ok(case, f['body'], path, f['kind']):
                return False
            if f['kind'] == 'text' and not text_ok(f['body']):
                return False
    return True


def winfree_s(nodes, T, own):
    """window-independent for the specification too (Genshi.Incl.winfreeSL): like winfree, and every include -- also an
    expression-valued one -- is of a text template"""
    for n in nodes:
        k = n[0]
        if k in ('call', 'select'):
            return False
        if k == 'elem':
            if n[1] in T or not winfree_s(n[2], T, own):
                return False
        elif k == 'if':
            if not winfree_s(n[2], T, own):
                return False
        elif k == 'for':
            if not winfree_s(n[3], T, own):
                return False
        elif k == 'include':
            if CLS.get(n[2], own) != 'text':
                return False
            if n[3] is not None and not winfree_s(n[3], T, own):
                return False
    return True


def zone_target_ok_s(case, T, here, own, n):
    """Genshi.Incl.zoneTargetOkS"""
    h = n[1][1]
    if h.startswith('/'):
        return True
    f = find_file(case, resolve(here, h))
    if f is None:
        return n[3] is None or winfree_s(n[3], T, own)
    return 'body' not in f or winfree_s(f['body'], T, f['kind'])


def zone_free_s(case, nodes, T, here, own, zone=False):
    """Genshi.Incl.zoneFreeSL: inside a zone no macro call and includes only of window-independent content"""
    for n in nodes:
        k = n[0]
        if k == 'call' and zone:
            return False
        if k == 'include':
            if zone:
                if n[1][0] == 'static':
                    if not zone_target_ok_s(case, T, here, own, n):
                        return False
                elif CLS.get(n[2], own) != 'text' or (n[3] is not None and not winfree_s(n[3], T, own)):
                    return False
            if n[3] is not None and not zone_free_s(case, n[3], T, here, own, False):
                return False
        elif k == 'elem':
            if not zone_free_s(case, n[2], T, here, own, zone or n[1] in T):
                return False
        elif k == 'if':
            if not zone_free_s(case, n[2], T, here, own, zone):
                return False
        elif k == 'for':
            if not zone_free_s(case, n[3], T, here, own, zone):
                return False
        elif k == 'def':
            if not zone_free_s(case, n[2], T, here, own, False):
                return False
        elif k == 'match':
            if not zone_free_s(case, n[2], T, here, own, True):
                return False
    return True


def in_hypothesis_s(case):
    """the hypothesis of runtime_eq_spec_zones_partial (Genshi.Incl.inHS with T = all match tags)"""
    T = case_match_tags(case)
    for d in case['dirs']:
        for path, f in d:
            if 'raw' in f:
                continue
            if not zone_free_s(case, f['body'], T, path, f['kind']):
                return False
            if f['kind'] == 'text' and not text_ok(f['body']):
                return False
    return True


def modelled(case):
    """what the Lean model covers: text files that the text syntax can express"""
    for d in case['dirs']:
        for _, f in d:
            if f['kind'] == 'text' and 'body' in f and not _text_printable(f['body']):
                return False
    return True


# --------------------------------------------------------------------------
# shape of a case (the shrinker deletes list items and characters blindly; only well-shaped
# cases are judged)

import re as _re
_IDENT = _re.compile(r'^[a-z][a-z0-9]*$')
_PATH = _re.compile(r'^[a-z0-9]+(\.[a-z0-9]+)*(/[a-z0-9]+(\.[a-z0-9]+)*)*$')
_TEXT_OK = set('abcdefghijklmnopqrstuvwxyzABCDEFGHIJKLMNOPQRSTUVWXYZ0123456789 &<-')


def _nodes_ok(nodes, kind, in_def, names):
    if not isinstance(nodes, list):
        return False
    for n in nodes:
        if not isinstance(n, list) or not n or not isinstance(n[0], str):
            return False
        k = n[0]
        if k == 'text':
            if len(n) != 2 or not isinstance(n[1], str) or not set(n[1]) <= _TEXT_OK:
                return False
        elif k == 'select':
            if len(n) != 1 or kind != 'markup':
                return False
        elif k in ('var', 'call'):
            if len(n) != 2 or not isinstance(n[1], str) or not _IDENT.match(n[1]):
                return False
            if k == 'call' and in_def:
                return False
            names.setdefault('macro' if k == 'call' else 'var', set()).add(n[1])
        elif k in ('elem', 'def', 'match'):
            if len(n) != 3 or not isinstance(n[1], str) or not _IDENT.match(n[1]):
                return False
            if k == 'def':
                names.setdefault('macro', set()).add(n[1])
            if not _nodes_ok(n[2], kind, in_def or k == 'def', names):
                return False
        elif k == 'if':
            if (len(n) != 3 or not isinstance(n[1], list) or len(n[1]) != 2 or n[1][0] not in ('var', 'not')
                    or not isinstance(n[1][1], str) or not _IDENT.match(n[1][1])):
                return False
            names.setdefault('var', set()).add(n[1][1])
            if not _nodes_ok(n[2], kind, in_def, names):
                return False
        elif k == 'for':
            if len(n) != 4 or not all(isinstance(x, str) and _IDENT.match(x) for x in n[1:3]):
                return False
            names.setdefault('var', set()).update(n[1:3])
            if not _nodes_ok(n[3], kind, in_def, names):
                return False
        elif k == 'include':
            if len(n) != 4 or not isinstance(n[1], list) or len(n[1]) != 2:
                return False
            h = n[1]
            if h[0] == 'static':
                if not isinstance(h[1], str) or not h[1] or h[1].startswith('/') or not set(h[1]) <= set('abcdefghijklmnopqrstuvwxyz0123456789./'):
                    return False
            elif h[0] == 'dyn':
                if not isinstance(h[1], list) or not any(isinstance(q, list) and q[:1] == ['var'] for q in h[1]):
                    return False
                for q in h[1]:
                    if (not isinstance(q, list) or len(q) != 2 or q[0] not in ('lit', 'var') or not isinstance(q[1], str)
                            or (q[0] == 'var' and not _IDENT.match(q[1]))
                            or (q[0] == 'lit' and (not q[1] or not set(q[1]) <= set('abcdefghijklmnopqrstuvwxyz0123456789./')))):
                        return False
                    if q[0] == 'var':
                        names.setdefault('var', set()).add(q[1])
                if h[1][0][0] == 'lit' and h[1][0][1].startswith('/'):
                    return False
            else:
                return False
            if n[2] not in (None, 'xml', 'text'):
                return False
            if n[3] is not None and not _nodes_ok(n[3], kind, in_def, names):
                return False
        else:
            return False
    return True


def _value_ok(v):
    if isinstance(v, str):
        return set(v) <= _TEXT_OK | set('./')
    return isinstance(v, list) and all(_value_ok(x) for x in v)


def valid_case(case):
    """well-shaped: what the generators can produce, modulo sizes"""
    try:
        if not isinstance(case, dict) or not ({'dirs', 'entry', 'data'} <= set(case) <= {'dirs', 'entry', 'data', 'then'}):
            return False
        dirs, entry, data = case['dirs'], case['entry'], case['data']
        if not isinstance(dirs, list) or not dirs or not isinstance(data, dict) or not isinstance(entry, str):
            return False
        names = {}
        seen_entry = False
        for d in dirs:
            if not isinstance(d, list):
                return False
            paths = set()
            for ent in d:
                if not isinstance(ent, list) or len(ent) != 2:
                    return False
                path, f = ent
                if not isinstance(path, str) or not _PATH.match(path) or path in paths or not isinstance(f, dict):
                    return False
                paths.add(path)
                if f.get('kind') not in ('markup', 'text'):
                    return False
                if path == entry:
                    seen_entry = True
                if 'raw' in f:
                    if set(f) != {'kind', 'raw'} or f['raw'] not in ('<a>', '{% bogus %}'):
                        return False
                    continue
                if set(f) != {'kind', 'body'} or not _nodes_ok(f['body'], f['kind'], False, names):
                    return False
                if f['kind'] == 'markup':
                    if len(f['body']) != 1 or f['body'][0][0] != 'elem':
                        return False
                elif not text_ok(f['body']):
                    # no text syntax for elements / match templates; calls: see modelled()
                    if not _text_printable(f['body']):
                        return False
        if not seen_entry:
            return False
        datas = [data]
        if 'then' in case:
            if not isinstance(case['then'], list) or not case['then']:
                return False
            for q in case['then']:
                if (not isinstance(q, list) or len(q) != 2 or not isinstance(q[0], str) or not isinstance(q[1], dict)
                        or find_file(case, q[0]) is None):
                    return False
                datas.append(q[1])
        for dd in datas:
            for k, v in dd.items():
                if not isinstance(k, str) or not _IDENT.match(k) or not _value_ok(v):
                    return False
            if names.get('macro', set()) & set(dd):
                return False
        # macro names are disjoint from data and loop-variable names
        if names.get('macro', set()) & (names.get('var', set()) | set(data)):
            return False
        return True
    except (TypeError, KeyError, IndexError, AttributeError):
        return False


def _text_printable(nodes):
    for n in nodes:
        k = n[0]
        if k in ('elem', 'match', 'select'):
            return False
        if k in ('if', 'def') and not _text_printable(n[2]):
            return False
        if k == 'for' and not _text_printable(n[3]):
            return False
        if k == 'include' and (n[2] is not None or n[3] != []):
            return False
    return True


# --------------------------------------------------------------------------
# specification: an include stands for the content of its target
#
# Independent of genshi and of the Lean model's two-mode machinery: one evaluator, no
# preparation step, no loader cache, no filter pipeline.  The include element is replaced by
# the target's content evaluated in the including template's context at that point; fallback
# content is used exactly when the target is missing; a missing target without fallback is
# the not-found error; macros and match templates registered by included content stay
# registered for the includer from that point on.

def events_to_nodes(evs):
    """a canonical event list read back as a forest of elements and text"""
    stack, cur = [], []
    for e in evs:
        if e[0] == 'T':
            cur.append(['text', e[1]])
        elif e[0] == 'S':
            stack.append(cur)
            cur = []
        elif e[0] == 'E':
            el = ['elem', e[1], cur]
            cur = stack.pop() if stack else []
            cur.append(el)
    return cur


class SpecError(Exception):
    pass


class Diverged(Exception):
    pass


SPEC_DEPTH = 24


def truthy(v):
    return len(v) > 0


def value_text(v):
    if isinstance(v, str):
        return v
    out = []
    for x in v:
        if not isinstance(x, str):
            raise SpecError('Unmodelled')
        out.append(x)
    return ''.join(out)


class Spec(object):
    def __init__(self, case):
        self.case = case
        self.frames = []                  # innermost first: [name, value]
        self.data = dict(case['data'])
        self.macros = {}
        self.matches = []                 # [tag, body]
        self.sel = []                     # contents of the matched elements being rewritten, innermost first
        self.out = []
        self.stats = {}
        self.active = [case['entry']]

    def stat(self, k):
        self.stats[k] = self.stats.get(k, 0) + 1

    def lookup(self, x):
        for n, v in self.frames:
            if n == x:
                return v
        if x in self.data:
            return self.data[x]
        raise SpecError('UndefinedError')

    def emit_text(self, s):
        if not s:
            return
        if self.out and self.out[-1][0] == 'T':
            self.out[-1][1] += s
        else:
            self.out.append(['T', s])

    def render(self, nodes, here, depth, lo, hi):
        """here: name of the file the nodes were written in; [lo, hi) the match templates that
        may still apply (hi None: no upper bound)"""
        if depth > SPEC_DEPTH:
            raise Diverged()          # same accounting as the model's fuel (one unit per template / macro / match body entry)
        for n in nodes:
            k = n[0]
            if k == 'text':
                self.emit_text(n[1])
            elif k == 'var':
                self.emit_text(value_text(self.lookup(n[1])))
            elif k == 'if':
                v = self.lookup(n[1][1])
                if truthy(v) == (n[1][0] == 'var'):
                    self.render(n[2], here, depth, lo, hi)
            elif k == 'for':
                v = self.lookup(n[2])
                items = list(v)
                for it in items:
                    self.frames.insert(0, [n[1], it])
                    try:
                        self.render(n[3], here, depth, lo, hi)
                    finally:
                        self.frames.pop(0)
            elif k == 'def':
                self.macros[n[1]] = (n[2], here)
            elif k == 'call':
                if n[1] not in self.macros:
                    self.lookup(n[1])          # a data value is not callable here
                    raise SpecError('Unmodelled')
                body, where = self.macros[n[1]]
                self.stat('macro-call' if where == here else 'macro-call-across-files')
                self.render(body, where, depth + 1, lo, hi)
            elif k == 'match':
                self.matches.append((n[1], n[2], here))
            elif k == 'select':
                if not self.sel:
                    raise SpecError('UndefinedError')
                self.stat('select')
                # the selected events become part of the body: the match templates still open
                # at this point apply to them
                self.render(events_to_nodes(self.sel[0]), here, depth + 1, lo, hi)
            elif k == 'elem':
                idx = None
                for i, (tag, body, where) in enumerate(self.matches):
                    if i >= lo and (hi is None or i < hi) and tag == n[1]:
                        idx = i
                        break
                if idx is None:
                    self.out.append(['S', n[1]])
                    self.render(n[2], here, depth, lo, hi)
                    self.out.append(['E', n[1]])
                else:
                    tag, body, where = self.matches[idx]
                    self.stat('match-applied' if where == here else 'match-applied-across-files')
                    saved = self.out
                    self.out = []
                    try:
                        # the matched element is consumed (its content is evaluated, the match
                        # templates up to this one may still rewrite it) …
                        self.render(n[2], here, depth, lo, idx + 1)
                        content = self.out
                    finally:
                        self.out = saved
                    # … and replaced by the template body, open to the later match templates of
                    # the window in force (the rest see it when the enclosing body is matched);
                    # select() hands the content to the body
                    self.sel.insert(0, content)
                    try:
                        self.render(body, where, depth + 1, idx + 1, hi)
                    finally:
                        self.sel.pop(0)
            elif k == 'include':
                href, parse, fb = n[1], n[2], n[3]
                if href[0] == 'static':
                    h = href[1]
                else:
                    h = ''.join(p[1] if p[0] == 'lit' else value_text(self.lookup(p[1])) for p in href[1])
                if h.startswith('/'):
                    raise SpecError('Unmodelled')
                name = resolve(here, h)
                f = None if name.startswith('..') or name == '.' else find_file(self.case, name)
                # what an include produces is processed like a template of its own: every match
                # template registered so far applies to it (the hypothesis keeps statically
                # named includes out of the places where that differs from plain substitution)
                tag = 'static' if href[0] == 'static' else 'dynamic'
                if f is None:
                    if fb is None:
                        self.stat('include-notfound')
                        raise SpecError('TemplateNotFound')
                    self.stat('include-fallback')
                    self.stat('include-fallback-' + tag)
                    self.render(fb, here, depth, 0, None)
                else:
                    if 'raw' in f:
                        raise SpecError('TemplateSyntaxError')
                    self.stat('include-found')
                    self.stat('include-found-' + tag)
                    if (lo, hi) != (0, None):
                        self.stat('include-found-%s-under-restricted-window' % tag)
                    if self.frames:
                        self.stat('include-inside-loop')
                    if depth > 0:
                        self.stat('include-nested')
                    if name in self.active:
                        self.stat('include-recursive')
                    if '..' in h.split('/'):
                        self.stat('include-parent-path')
                    if f['kind'] == 'text':
                        self.stat('include-text')
                    self.active.append(name)
                    try:
                        self.render(f['body'], name, depth + 1, 0, None)
                    finally:
                        self.active.pop()
            else:
                raise ValueError(k)


def spec_render(case, entry=None, data=None):
    if entry is not None:
        case = {'dirs': case['dirs'], 'entry': entry, 'data': data}
    f = find_file(case, case['entry'])
    if f is None:
        return ['err', 'TemplateNotFound']
    if 'raw' in f:
        return ['err', 'TemplateSyntaxError']
    sp = Spec(case)
    try:
        sp.render(f['body'], case['entry'], 0, 0, None)
    except SpecError as e:
        return ['err', str(e)]
    except Diverged:
        return ['err', 'RecursionError']
    return ['ok', sp.out]


# --------------------------------------------------------------------------
# generators

FILE_POOL = ['a.html', 'b.html', 'c.html', 'sub/d.html', 'sub/e.html', 'sub/deep/f.html',
             't.txt', 'sub/u.txt', 'v.txt']
MISSING = ['nope.html', 'sub/nope.html', 'nope.txt', 'sub/deep/none.html']


def kind_of(path):
    return 'text' if path.endswith('.txt') else 'markup'


def rel_href(rng, frm, to):
    """a spelling of `to` relative to the directory of `frm`, sometimes with redundant steps"""
    fd = frm.split('/')[:-1]
    td = to.split('/')
    i = 0
    while i < len(fd) and i < len(td) - 1 and fd[i] == td[i]:
        i += 1
    parts = ['..'] * (len(fd) - i) + td[i:]
    r = rng.random()
    if r < 0.12:
        parts = ['.'] + parts
    elif r < 0.2 and fd:
        # up to the root of the search directory and down again
        parts = ['..'] * len(fd) + td
    elif r < 0.26:
        parts = parts[:-1] + ['zz', '..'] + parts[-1:]
    return '/'.join(parts)


def rand_text(rng):
    return ''.join(rng.choice(TEXT_ALPHA) for _ in range(rng.randrange(1, 4)))


class Gen(object):
    def __init__(self, rng, zone=False, illformed=False, p_missing=0.12, seq=False):
        self.rng = rng
        self.seq = seq                # always further requests through the same loader
        self.zone = zone              # allow static includes / calls inside match zones (outside the hypothesis)
        self.illformed = illformed
        self.p_missing = p_missing
        self.in_def = 0
        self.guarded = 0
        self.in_match = 0

    def case(self):
        rng = self.rng
        nfiles = rng.choice([1, 2, 2, 3, 3, 4, 5, 6])
        names = [FILE_POOL[0]] + rng.sample(FILE_POOL[1:], nfiles - 1)
        if rng.random() < 0.15:
            names[0] = rng.choice(['t.txt', 'sub/u.txt', 'sub/d.html'])
            names = list(dict.fromkeys(names))
        self.names = names
        # macro calls only in the "upper" files; includes written inside macro bodies and in the
        # "lower" files target lower files only: a macro whose body includes a file that calls
        # the macro again recurses through an include in run-time mode (RecursionError) but, once
        # inlined, inside _flatten's explicit stack (an endless loop, no exception) — both
        # diverge, the second cannot be observed by a test run
        k = rng.randrange(1, len(names) + 1)
        self.lower = set(names[k:])
        # "leaf" fragments (markup, lower): plain content without matchable elements; they may be
        # included by name inside elements that match templates rewrite
        self.leaves = set(n for n in names[k:] if kind_of(n) == 'markup' and rng.random() < 0.5)
        self.use_match = rng.random() < (0.9 if self.zone else 0.6)
        self.macros = ['m0', 'm1'] if rng.random() < 0.5 else []
        self.data = {
            's0': rng.choice(['', 'v', 'w&']), 's1': rng.choice(['', 'z']),
            'l0': [rng.choice(['i', 'j', 'k<']) for _ in range(rng.randrange(0, 4))],
            't0': self.tree(rng.randrange(0, 4)),
        }
        self.dyn = {}
        files = {}
        for nm in names:
            files[nm] = {'kind': kind_of(nm), 'body': self.file_body(nm)}
        for h, v in self.dyn.items():
            self.data[h] = v
        if self.illformed and len(names) > 1:
            bad = rng.choice(names[1:])
            files[bad] = {'kind': kind_of(bad), 'raw': '<a>' if kind_of(bad) == 'markup' else '{% bogus %}'}
        # one or two search directories; a second one may shadow or supply files
        dirs = [sorted([p, f] for p, f in files.items())]
        if rng.random() < 0.2 and len(names) > 1:
            moved = rng.choice(names[1:])
            second = [[moved, files[moved]]]
            first = [[p, f] for p, f in dirs[0] if p != moved]
            if rng.random() < 0.5:
                # shadowed copy in the later directory: never served
                first = dirs[0]
                second = [[moved, {'kind': kind_of(moved), 'body': self.shadow_body(moved)}]]
            dirs = [first, second]
        case = {'dirs': dirs, 'entry': names[0], 'data': self.data}
        if (rng.random() < 0.3 or self.seq) and len(names) > 1:
            # further requests through the same loader: other entries (their templates may already
            # have been prepared inside the first one), other data
            then = []
            for _ in range(rng.randrange(1, 3)):
                d2 = dict(self.data)
                d2['s0'] = rng.choice(['', 'v', 'w&'])
                d2['t0'] = self.tree(rng.randrange(0, 3))
                d2['l0'] = [rng.choice(['i', 'j', 'k<']) for _ in range(rng.randrange(0, 3))]
                then.append([rng.choice(names), d2])
            case['then'] = then
        return case

    def shadow_body(self, nm):
        if kind_of(nm) == 'markup':
            return [['elem', 'e', [['text', 'SHADOW']]]]
        return [['text', 'SHADOW']]

    def tree(self, depth):
        if depth == 0:
            return []
        return [self.tree(self.rng.randrange(0, depth)) for _ in range(self.rng.randrange(0, 3))]

    def file_body(self, nm):
        self.here = nm
        self.kind = kind_of(nm)
        rng = self.rng
        if nm in self.leaves:
            return [['elem', rng.choice(PLAIN_TAGS), self.content(2, tags=PLAIN_TAGS)]]
        pre = []
        # a "library" prelude: macros and match templates registered before the rest of the file
        # (and, when this file is included early, before the rest of the includer)
        for m in self.macros:
            if rng.random() < 0.45:
                self.in_def += 1
                pre.append(['def', m, self.nodes(2, ['s0', 's1'], ['l0'], False, False)])
                self.in_def -= 1
        if self.kind == 'markup' and self.use_match:
            for t in MATCH_TAGS:
                if rng.random() < 0.4:
                    pre.append(['match', t, self.match_body(2, ['s0', 's1'], ['l0'], False)])
        if pre and rng.random() < 0.3:
            # sometimes the include that brings in another library comes first
            pre.insert(0, self.include(1, ['s0', 's1'], ['l0'], False, False))
        body = pre + self.nodes(3, ['s0', 's1'], ['l0'], False, False)
        if self.zone and self.kind == 'markup' and self.use_match and rng.random() < 0.6:
            body.insert(rng.randrange(0, len(body) + 1), ['elem', rng.choice(MATCH_TAGS), self.nodes(1, ['s0', 's1'], ['l0'], True, False)])
        if self.kind == 'markup' and self.use_match:
            # elements for the match templates registered so far (by this file or by what it included)
            for _ in range(rng.choice([0, 1, 1, 2])):
                body.append(['elem', rng.choice(MATCH_TAGS), self.content(2)])
        if self.kind == 'markup':
            return [['elem', rng.choice(PLAIN_TAGS), body]]
        return body

    def target(self):
        """(path, exists?) of an include target appropriate for the current file kind"""
        rng = self.rng
        if rng.random() < self.p_missing:
            cands = [m for m in MISSING if kind_of(m) == self.kind or self.kind == 'markup']
            return rng.choice(cands)
        cands = [n for n in self.names if self.kind == 'markup' or kind_of(n) == 'text']
        if self.in_def or self.here in self.lower:
            cands = [n for n in cands if n in self.lower]
        if not cands:
            return rng.choice(MISSING)
        later = [n for n in cands if self.names.index(n) > self.names.index(self.here)]
        # cycles (a target at or before the current file) mostly under a loop over the shrinking tree
        if later and rng.random() < (0.35 if self.guarded else 0.93):
            return rng.choice(later)
        if not later and not self.guarded and rng.random() < 0.7:
            return rng.choice(MISSING)
        return rng.choice(cands)

    def include(self, depth, svars, lvars, zone, in_fb):
        rng = self.rng
        to = self.target()
        href = rel_href(rng, self.here, to)
        if rng.random() < 0.06:
            href = to            # root-relative spelling: wrong from a sub-directory
        if self.kind == 'text':
            parse, fb = None, []
        else:
            parse = 'text' if kind_of(to) == 'text' else rng.choice([None, None, 'xml'])
            fb = None
            if rng.random() < 0.4:
                # xi:fallback nesting: a fallback may contain includes with fallbacks of their own, three levels deep
                fb = [] if int(in_fb) >= 3 or rng.random() < 0.15 else self.nodes(max(0, depth - 1), svars, lvars, False, int(in_fb) + 1)
        dyn_ok = True
        static_ok = self.zone or not zone
        if (not static_ok) or (dyn_ok and rng.random() < 0.22):
            h = 'h%d' % len(self.dyn)
            cut = rng.randrange(0, len(href) + 1) if rng.random() < 0.5 else 0
            self.dyn[h] = href[cut:]
            parts = ([['lit', href[:cut]]] if cut else []) + [['var', h]]
            return ['include', ['dyn', parts], parse, fb]
        return ['include', ['static', href], parse, fb]

    def content(self, depth, tags=None):
        """plain content of a matchable element: text, expressions, elements — and now and then a
        leaf fragment included by name"""
        rng = self.rng
        tags = tags or (PLAIN_TAGS + MATCH_TAGS)
        out = []
        for _ in range(rng.randrange(0, 4)):
            r = rng.random()
            if r < 0.4:
                out.append(['text', rand_text(rng)])
            elif r < 0.55:
                out.append(['var', rng.choice(['s0', 's1'])])
            elif r < 0.7 and self.leaves and self.here not in self.leaves and self.kind == 'markup':
                out.append(['include', ['static', rel_href(rng, self.here, rng.choice(sorted(self.leaves)))], None, None])
            elif depth > 0:
                out.append(['elem', rng.choice(tags), self.content(depth - 1, tags)])
        return out

    def match_body(self, depth, svars, lvars, in_fb):
        rng = self.rng
        self.in_match += 1
        try:
            body = self.nodes(depth, svars, lvars, True, in_fb)
        finally:
            self.in_match -= 1
        r = rng.random()
        if r < 0.5:
            # the usual shape: the content wrapped or decorated
            sel = ['select']
            if rng.random() < 0.5:
                sel = ['elem', rng.choice(PLAIN_TAGS + MATCH_TAGS), [['select']]]
            body.insert(rng.randrange(0, len(body) + 1), sel)
        return body

    def nodes(self, depth, svars, lvars, zone, in_fb):
        rng = self.rng
        out = []
        n = rng.randrange(0, 4) if depth < 3 else rng.randrange(1, 5)
        for _ in range(n):
            out.append(self.node(depth, svars, lvars, zone, in_fb))
        if self.zone and zone and self.kind == 'markup' and rng.random() < 0.5:
            # outside the hypothesis on purpose: a statically named include (or a matchable
            # element) right where the match window is restricted
            pick = rng.random()
            if pick < 0.6:
                to = self.target()
                parse = 'text' if kind_of(to) == 'text' else None
                out.insert(rng.randrange(0, len(out) + 1), ['include', ['static', rel_href(rng, self.here, to)], parse, None])
            else:
                out.insert(rng.randrange(0, len(out) + 1), ['elem', rng.choice(MATCH_TAGS), []])
        return out

    def node(self, depth, svars, lvars, zone, in_fb):
        rng = self.rng
        markup = self.kind == 'markup'
        r = rng.random()
        if depth <= 0:
            r = r * 0.45
        if r < 0.18:
            return ['text', rand_text(rng)]
        if r < 0.28:
            if rng.random() < 0.015:
                return ['var', 'u9']
            return ['var', rng.choice(svars + (lvars if rng.random() < 0.2 else []))]
        if r < 0.45:
            return self.include(depth, svars, lvars, zone, in_fb)
        if r < 0.55:
            if markup:
                tags = PLAIN_TAGS + (MATCH_TAGS if self.use_match else [])
                tag = rng.choice(tags)
                return ['elem', tag, self.nodes(depth - 1, svars, lvars, zone or tag in MATCH_TAGS, in_fb)]
            return ['text', rand_text(rng)]
        if r < 0.67:
            c = [rng.choice(['var', 'var', 'not']), rng.choice(svars + lvars + ['t0'])]
            return ['if', c, self.nodes(depth - 1, svars, lvars, zone, in_fb)]
        if r < 0.80:
            if rng.random() < 0.45:
                # the recursion pattern: the loop variable shadows the tree it walks
                self.guarded += 1
                try:
                    return ['for', 't0', 't0', self.nodes(depth - 1, svars, lvars, zone, in_fb)]
                finally:
                    self.guarded -= 1
            v = rng.choice(['s2', 's0'])
            src = rng.choice(lvars + (['s0'] if rng.random() < 0.15 else []))
            return ['for', v, src, self.nodes(depth - 1, sorted(set(svars + [v])), lvars, zone, in_fb)]
        if r < 0.88 and self.macros:
            if rng.random() < 0.5:
                # a macro body never calls a macro: direct macro recursion is an endless loop in
                # _flatten (explicit stack, no RecursionError) in either mode
                self.in_def += 1
                try:
                    return ['def', rng.choice(self.macros), self.nodes(depth - 1, svars, lvars, False, in_fb)]
                finally:
                    self.in_def -= 1
            if (markup or self.zone) and (self.zone or not zone) and not self.in_def and self.here not in self.lower:
                return ['call', rng.choice(self.macros)]
            return ['text', rand_text(rng)]
        if r < 0.96 and markup and self.use_match:
            return ['match', rng.choice(MATCH_TAGS), self.match_body(depth - 1, svars, lvars, in_fb)]
        return ['text', rand_text(rng)]


def gen_case(rng, zone=False, illformed=False, seq=False):
    return Gen(rng, zone=zone, illformed=illformed, seq=seq).case()

"""C15 (shared with C16): loader histories.

* `PropSpec`   – the property stated as a deterministic reference (independent of the Lean model):
                 what every load must return / raise, which object, what the cache must hold.
* `gen_history`– seeded generator; uses PropSpec to know what is cached so that it can keep a
                 history inside the hypothesis of `reload_current_partial` (no file is created that
                 would shadow a cached template) or mark it `shadow`.
* `RealRun`    – runs a history against the real TemplateLoader on real files under .build/ with
                 mtimes from a logical clock, and canonicalises everything observable.

History ops (JSON lists):
  ['W', d, sub, base, content, bad]   write file  <dir d>/[sub/]t<base>.html
  ['WA', d, sub, base, content, bad, mtime]   write file with an explicit logical mtime, possibly
                                      older than the current one (restore from backup, rsync -t);
                                      the generator keeps it different from every mtime the loader
                                      remembers for that file (a different content under a
                                      remembered mtime is the limit of mtime-based reloading)
  ['T', d, sub, base]                 touch (new mtime, same content)
  ['X', d, sub, base]                 delete
  ['L', {base, sub, absd, rel, cls, enc, cb, fault}]   load
  ['LR', {…}, before, content, bad]   load during which the file it opens (the first successful
                                      `open` of directory()) is replaced by a new file (written
                                      aside, renamed over the old name): before `open` / right
                                      after `open` returned
Config: {'cap', 'auto_reload', 'callback', 'path': [['D', d, insub] | ['F', d, checks]]}
"""
import collections, os, re, shutil

NDIRS = 3
T0 = 1000000   # mtime of clock 0 (seconds)


# --------------------------------------------------------------------------
# names

def fname(sub, base):
    return ('sub/' if sub else '') + 't%d.html' % base


def content_bytes(c, bad):
    return (u'<p>é v%d%s</p>' % (c, ' ${1+}' if bad else '')).encode('utf-8')


def resolve(cfg, r):
    """the cache key (absd, sub, base) of a request, or None outside the path algebra"""
    rel = r['rel']
    absd, sub, base = r['absd'], r['sub'], r['base']
    if rel is None:
        return (absd, sub, base)
    applies = rel[0] == 'R' or not cfg['path']
    if not applies or absd is not None:
        return (absd, sub, base)
    rsub = rel[1] if rel[0] == 'R' else rel[2]
    if rsub and sub:
        return None
    return (None if rel[0] == 'R' else rel[1], rsub or sub, base)


def search_path(cfg, r, key):
    """(entries, isabs) or None when no search path is configured"""
    if key[0] is not None:
        return [['D', key[0], key[1]]], True
    rel = r['rel']
    if rel is not None and rel[0] == 'A':
        e = ['D', rel[1], rel[2]]
        path = list(cfg['path'])
        if e not in path:
            path.append(e)
        return path, True
    if not cfg['path']:
        return None
    return list(cfg['path']), False


def locate(entry, key):
    """the location (d, sub, base) a path item opens for a key, or None"""
    if key[0] is not None:
        return (key[0], key[1], key[2])
    if entry[0] == 'D':
        if entry[2] and key[1]:
            return None
        return (entry[1], entry[2] or key[1], key[2])
    return (entry[1], key[1], key[2])


def validate(cfg, ops):
    """raise ValueError for a case that is not a well-formed history (shrinking produces those)"""
    ok = (isinstance(cfg.get('cap'), int) and isinstance(cfg.get('auto_reload'), bool) and
          isinstance(cfg.get('callback'), bool) and isinstance(cfg.get('path'), list))
    for e in cfg.get('path', []) if ok else []:
        ok = ok and len(e) == 3 and e[0] in ('D', 'F') and e[1] in range(NDIRS) and isinstance(e[2], bool)
    for op in ops:
        if not ok:
            break
        if op[0] == 'W':
            ok = len(op) == 6 and op[1] in range(NDIRS)
        elif op[0] == 'WA':
            ok = len(op) == 7 and op[1] in range(NDIRS) and isinstance(op[6], int) and op[6] >= 0
        elif op[0] in ('T', 'X'):
            ok = len(op) == 4 and op[1] in range(NDIRS)
        elif op[0] in ('L', 'LR'):
            r = op[1] if len(op) == (2 if op[0] == 'L' else 5) else None
            if op[0] == 'LR' and r is not None and not (isinstance(op[2], bool) and isinstance(op[3], int)
                                                        and isinstance(op[4], bool)):
                r = None
            ok = (isinstance(r, dict) and set(r) == {'base', 'sub', 'absd', 'rel', 'cls', 'enc', 'cb', 'fault'} and
                  r['fault'] in (None, 'io', 'nf', 'other') and
                  (r['rel'] is None or (r['rel'][0] == 'R' and len(r['rel']) == 2) or
                   (r['rel'][0] == 'A' and len(r['rel']) == 3 and r['rel'][1] in range(NDIRS))))
        else:
            ok = False
    if not ok:
        raise ValueError('not a history')


# --------------------------------------------------------------------------
# the property as a reference

class Entry(object):
    __slots__ = ('token', 'content', 'loc', 'mtime', 'reloadable', 'cls', 'enc')


class PropSpec(object):
    """What the property demands. `strict`: the full statement (with auto-reload the template
    reflects the file found first on the search path *now*); otherwise the proved part (…the file
    it came from), used for histories marked `shadow`."""

    def __init__(self, cfg, strict=True):
        self.cfg = cfg
        self.strict = strict
        self.fs = {}            # loc -> (content, bad, mtime)
        self.clock = 1
        self.cache = collections.OrderedDict()   # key -> Entry, oldest first
        self.ntokens = 0        # templates instantiated so far
        self.ncallbacks = 0

    def fs_op(self, op):
        loc = (op[1], op[2], op[3])
        if op[0] == 'W':
            self.fs[loc] = (op[4], op[5], self.clock)
            self.clock += 1
        elif op[0] == 'WA':
            self.fs[loc] = (op[4], op[5], op[6])
            self.clock = max(self.clock, op[6] + 1)
        elif op[0] == 'T':
            if loc in self.fs:
                c, b, _ = self.fs[loc]
                self.fs[loc] = (c, b, self.clock)
                self.clock += 1
        elif op[0] == 'X':
            self.fs.pop(loc, None)

    def remembered(self, loc):
        """the mtimes the loader remembers for a file (cached templates parsed from it)"""
        return set(e.mtime for e in self.cache.values() if e.loc == loc)

    def fresh_time(self, loc, m):
        """may a modification of this file set mtime m?  It must differ from what the loader
        remembers for the file (and, so that it is a modification at all, from the current one)"""
        return m not in self.remembered(loc) and (loc not in self.fs or self.fs[loc][2] != m)

    def first_on_path(self, r, key, entries):
        """walk the path: ('found', loc, file, reloadable) | ('notfound',) | ('loadfunc',)"""
        for e in entries:
            if e[0] == 'F':
                if r['fault'] in ('io', 'nf'):
                    continue        # the load function does not have it (IOError / TemplateNotFound)
                if r['fault'] == 'other':
                    return ('loadfunc',)
            loc = locate(e, key)
            if loc is None or loc not in self.fs:
                continue
            return ('found', loc, self.fs[loc], e[0] == 'D' or e[2], e[0])
        return ('notfound',)

    def served(self, r, key, sp):
        """the cache entry that answers this request without a parse, or None"""
        cfg = self.cfg
        e = self.cache.get(key)
        if e is None:
            return None
        if not cfg['auto_reload']:
            return e
        if e.reloadable and e.loc in self.fs and self.fs[e.loc][2] == e.mtime:
            # nothing changed in the file it came from
            if self.strict and sp is not None:
                f = self.first_on_path(dict(r, fault=None), key, sp[0])
                if f[0] == 'found' and f[1] != e.loc:
                    return None       # the file found first on the search path is another one now
            return e
        return None

    def would_open(self, r):
        """the file the load function of a directory *name* opens for this request (where a racing
        replacement lands), or None: served from the cache, nothing found, a user's load function
        delivers or raises first"""
        key = resolve(self.cfg, r)
        if key is None:
            return None
        sp = search_path(self.cfg, r, key)
        if sp is None or self.served(r, key, sp) is not None:
            return None
        out = self.first_on_path(r, key, sp[0])
        if out[0] == 'found' and out[4] == 'D':
            return out[1]
        return None

    def load_race(self, r, before, content, bad, fired='predict', first=True):
        """the property for a load raced by a replacement of the file it opens: it is the load and
        the write in one of the two orders (`first`: the order this position suggests).
        -> (expectation of the load, file replaced)"""
        loc = self.would_open(r) if fired == 'predict' else fired
        if loc is None:
            return self.load(r), None
        w = ['W', loc[0], loc[1], loc[2], content, bad]
        if before == first:
            self.fs_op(w)
            return self.load(r), loc
        exp = self.load(r)
        self.fs_op(w)
        return exp, loc

    def load(self, r):
        """-> expectation dict: kind 'ok'|'err', err class, serve ('cached', token) or ('new', loc,
        content), the cache order afterwards (list of (key, token)), touched (key moved to front
        although the load failed), instantiated / callbacks counters"""
        cfg = self.cfg
        key = resolve(cfg, r)
        if key is None:
            return None
        exp = {'key': key}
        e = self.cache.get(key)
        sp = search_path(cfg, r, key)
        serve = self.served(r, key, sp)
        if serve is not None:
            self.cache.move_to_end(key)
            exp.update(kind='ok', serve=('cached', serve.token), content=serve.content, loc=serve.loc,
                       cls=serve.cls, enc=serve.enc)
        else:
            if sp is None:
                out = ('nopath',)
            else:
                out = self.first_on_path(r, key, sp[0])
            if out[0] == 'found' and out[2][1]:
                out = ('syntax',)
            if out[0] == 'found':
                token = self.ntokens
                self.ntokens += 1
                if cfg['callback']:
                    self.ncallbacks += 1
                if cfg['callback'] and r['cb']:
                    out = ('callback',)
            if out[0] == 'found':
                _, loc, f, reloadable = out[:4]
                ne = Entry()
                ne.token, ne.content, ne.loc, ne.mtime, ne.reloadable = token, f[0], loc, f[2], reloadable
                ne.cls, ne.enc = r['cls'], r['enc']
                self.cache[key] = ne
                self.cache.move_to_end(key)
                while len(self.cache) > cfg['cap']:
                    self.cache.popitem(last=False)
                exp.update(kind='ok', serve=('new', token), content=f[0], loc=loc, cls=r['cls'], enc=r['enc'],
                           absname=sp[1])
            else:
                exp.update(kind='err', err={'notfound': 'TemplateNotFound', 'syntax': 'TemplateSyntaxError',
                                            'callback': 'CallbackError', 'loadfunc': 'LoadFuncError',
                                            'nopath': 'TemplateError'}[out[0]],
                           touched=e is not None)
        exp['cache'] = [(k, v.token) for k, v in reversed(self.cache.items())]
        exp['instantiated'] = self.ntokens
        exp['callbacks'] = self.ncallbacks
        return exp

    def touch_failed(self, key):
        """the failed load moved the cached key to the front (an access is an access)"""
        if key in self.cache:
            self.cache.move_to_end(key)


# --------------------------------------------------------------------------
# generation

CONFIG_PATHS = [
    [['D', 0, False], ['D', 1, False]],
    [['D', 0, False], ['D', 1, False], ['D', 2, False]],
    [['D', 1, False], ['D', 0, False]],
    [['D', 0, False], ['F', 1, True]],
    [['F', 0, True], ['D', 1, False]],
    [['D', 0, False], ['F', 1, False], ['D', 2, False]],
    [['D', 0, True], ['D', 1, False]],
    [['D', 0, False]],
    [],
]


def gen_config(rng):
    r = rng.random()
    path = CONFIG_PATHS[0] if r < 0.35 else CONFIG_PATHS[1] if r < 0.55 else rng.choice(CONFIG_PATHS)
    return {'cap': rng.choice([0, 1, 2, 2, 3, 4, 5, 25]), 'auto_reload': rng.random() < 0.6,
            'callback': rng.random() < 0.9, 'path': path}


def nbases(cfg):
    return 6 if cfg['cap'] >= 4 else 3


def gen_req(rng, cfg, existing=()):
    base, sub = rng.randrange(nbases(cfg)), rng.random() < 0.15
    if existing and rng.random() < 0.8:
        _, sub, base = rng.choice(existing)
    r = {'base': base, 'sub': sub, 'absd': None, 'rel': None,
         'cls': 1 if rng.random() < 0.1 else 0, 'enc': 1 if rng.random() < 0.1 else 0,
         'cb': rng.random() < 0.06, 'fault': None}
    x = rng.random()
    if x < 0.07:
        r['rel'] = ['R', rng.random() < 0.6]
    elif x < 0.13:
        r['rel'] = ['A', rng.randrange(NDIRS), rng.random() < 0.3]
    elif x < 0.18:
        r['absd'] = rng.randrange(NDIRS)
    if any(e[0] == 'F' for e in cfg['path']) and rng.random() < 0.2:
        r['fault'] = rng.choice(['io', 'other', 'nf'])
    if r['rel'] and r['rel'][-1] and r['sub']:
        r['sub'] = False
    return r


def gen_history(rng, maxlen=25, allow_shadow=0.5, race=0.12, backwards=0.3):
    """-> (cfg, ops, shadow)"""
    cfg = gen_config(rng)
    spec = PropSpec(cfg, strict=True)
    ops = []
    shadow = False
    n = rng.randrange(4, maxlen + 1)
    if cfg['cap'] >= 4:
        n = max(n, maxlen - 3)
    content = 100
    scenario = rng.random()
    if scenario < 0.12 and cfg['path'] and all(e[1] != 2 for e in cfg['path']):
        # an include from a template that lives outside the search path (absolute relative_to),
        # then plain loads of the same name on the same loader: the configured path must still
        # be the one that decides
        b = rng.randrange(3)
        content += 1
        ops.append(['W', 2, False, b, content, False])
        ops.append(['L', {'base': b, 'sub': False, 'absd': None, 'rel': ['A', 2, False], 'cls': 0, 'enc': 0,
                          'cb': False, 'fault': None}])
        ops.append(['L', {'base': (b + 1) % 3, 'sub': False, 'absd': None, 'rel': None, 'cls': 0, 'enc': 0,
                          'cb': False, 'fault': None}])
        content += 1
        ops.append(['W', 2, False, (b + 1) % 3, content, False])
        ops.append(['L', {'base': (b + 1) % 3, 'sub': False, 'absd': None, 'rel': None, 'cls': 0, 'enc': 0,
                          'cb': False, 'fault': None}])
        for op in ops:
            if op[0] == 'L':
                if not shadow and reveals_shadow(spec, op):
                    shadow = True
                    spec.strict = False
                spec.load(op[1])
            else:
                spec.fs_op(op)
    elif scenario < 0.3 and cfg['cap'] >= 4 and cfg['path']:
        # fill the cache, then re-load a middle entry before anything is evicted
        d0 = cfg['path'][0][1]
        k = min(cfg['cap'], 5)
        for b in range(k):
            content += 1
            ops.append(['W', d0, False, b, content, False])
        for b in range(k):
            ops.append(['L', {'base': b, 'sub': False, 'absd': None, 'rel': None, 'cls': 0, 'enc': 0,
                              'cb': False, 'fault': None}])
        ops.append(['L', {'base': rng.randrange(1, k - 1), 'sub': False, 'absd': None, 'rel': None, 'cls': 0,
                          'enc': 0, 'cb': False, 'fault': None}])
        for op in ops:
            if op[0] == 'L':
                if not shadow and reveals_shadow(spec, op):
                    shadow = True
                    spec.strict = False
                spec.load(op[1])
            else:
                spec.fs_op(op)
        n = max(n, len(ops) + 6)
    while len(ops) < n:
        x = rng.random()
        d, sub, base = rng.randrange(NDIRS), rng.random() < 0.15, rng.randrange(nbases(cfg))
        loc = (d, sub, base)
        if x < 0.24 or (not spec.fs and x < 0.6):
            content += 1
            op = ['W', d, sub, base, content, rng.random() < 0.08]
            if rng.random() < backwards:
                # a modification with an arbitrary mtime, preferably of a file a cached template
                # came from and older than its current one
                cached = sorted(set(e.loc for e in spec.cache.values() if e.loc in spec.fs))
                if cached and rng.random() < 0.8:
                    d, sub, base = rng.choice(cached)
                cur = spec.fs.get((d, sub, base))
                m = rng.randrange(0, spec.clock + 2)
                if cur is not None and cur[2] > 0 and rng.random() < 0.7:
                    m = rng.randrange(0, cur[2])
                if spec.fresh_time((d, sub, base), m):
                    op = ['WA', d, sub, base, content, rng.random() < 0.05, m]
        elif x < 0.31:
            if not spec.fs:
                continue
            loc = rng.choice(sorted(spec.fs))
            op = ['T', loc[0], loc[1], loc[2]]
        elif x < 0.39:
            if not spec.fs:
                continue
            loc = rng.choice(sorted(spec.fs))
            op = ['X', loc[0], loc[1], loc[2]]
        else:
            r = gen_req(rng, cfg, sorted(spec.fs))
            if resolve(cfg, r) is None:
                continue
            op = ['L', r]
            if rng.random() < 2 * race and (spec.would_open(r) is not None or rng.random() < 0.2):
                # the file this load opens is replaced while the load runs
                content += 1
                op = ['LR', r, rng.random() < 0.4, content, rng.random() < 0.06]
            if not shadow and reveals_shadow(spec, op):
                # this load is outside the hypothesis of reload_current_partial (the cached template
                # comes from a file that is no longer the first one on the search path)
                if rng.random() >= allow_shadow:
                    continue
                shadow = True
                spec.strict = False
        ops.append(op)
        spec_apply(spec, op)
    return cfg, ops, shadow


def spec_apply(spec, op):
    if op[0] == 'L':
        return spec.load(op[1])
    if op[0] == 'LR':
        return spec.load_race(op[1], op[2], op[3], op[4])
    return spec.fs_op(op)


def reveals_shadow(spec, op):
    """does the full property demand something else for this load (`['L', r]` or `['LR', …]`) than
    its proved part?"""
    import copy
    a, b = copy.deepcopy(spec), copy.deepcopy(spec)
    a.strict, b.strict = True, False
    return spec_apply(a, op) != spec_apply(b, op)


# --------------------------------------------------------------------------
# the real loader

class CallbackError(Exception):
    pass


class LoadFuncError(Exception):
    pass


_classes = {}


def counting_classes():
    """template classes that log every successfully constructed instance"""
    if not _classes:
        from genshi.template import MarkupTemplate, NewTextTemplate
        log = []

        class CountMarkup(MarkupTemplate):
            def __init__(self, *a, **kw):
                MarkupTemplate.__init__(self, *a, **kw)
                log.append(self)

        class CountText(NewTextTemplate):
            def __init__(self, *a, **kw):
                NewTextTemplate.__init__(self, *a, **kw)
                log.append(self)

        _classes.update(markup=CountMarkup, text=CountText, log=log)
    return _classes


class RealRun(object):
    def __init__(self, cfg, root):
        from genshi.template.loader import TemplateLoader
        self.cfg = cfg
        self.root = root
        shutil.rmtree(root, ignore_errors=True)
        self.dirs = []
        for d in range(NDIRS):
            p = os.path.join(root, 'd%d' % d)
            os.makedirs(os.path.join(p, 'sub'))
            self.dirs.append(p)
        self.clock = 1
        cc = counting_classes()
        self.inst_log = cc['log']
        del self.inst_log[:]
        self.cb_log = []
        self.flags = {'cb': False, 'fault': None}
        path = []
        for e in cfg['path']:
            if e[0] == 'D':
                path.append(os.path.join(self.dirs[e[1]], 'sub') if e[2] else self.dirs[e[1]])
            else:
                path.append(self.make_fn(self.dirs[e[1]], e[2]))
        self.loader = TemplateLoader(path, auto_reload=cfg['auto_reload'], max_cache_size=cfg['cap'],
                                     default_class=cc['markup'],
                                     callback=self.callback if cfg['callback'] else None)
        self.objnum = {}

    def make_fn(self, dirpath, checks):
        flags = self.flags

        def load_fn(filename):
            if flags['fault'] == 'io':
                raise IOError('injected')
            if flags['fault'] == 'nf':
                from genshi.template.loader import TemplateNotFound
                raise TemplateNotFound(filename, [dirpath])
            if flags['fault'] == 'other':
                raise LoadFuncError('injected')
            filepath = os.path.join(dirpath, filename)
            fileobj = open(filepath, 'rb')
            if not checks:
                return filepath, filename, fileobj, None
            mtime = os.path.getmtime(filepath)
            return filepath, filename, fileobj, lambda: mtime == os.path.getmtime(filepath)
        return load_fn

    def callback(self, tmpl):
        self.cb_log.append(tmpl)
        if self.flags['cb']:
            raise CallbackError('injected')

    def path_of(self, loc):
        return os.path.join(self.dirs[loc[0]], fname(loc[1], loc[2]))

    def fs_op(self, op):
        p = self.path_of((op[1], op[2], op[3]))
        if op[0] == 'W':
            with open(p, 'wb') as f:
                f.write(content_bytes(op[4], op[5]))
            os.utime(p, (T0 + self.clock, T0 + self.clock))
            self.clock += 1
        elif op[0] == 'WA':
            with open(p, 'wb') as f:
                f.write(content_bytes(op[4], op[5]))
            os.utime(p, (T0 + op[6], T0 + op[6]))
            self.clock = max(self.clock, op[6] + 1)
        elif op[0] == 'T':
            if os.path.exists(p):
                os.utime(p, (T0 + self.clock, T0 + self.clock))
                self.clock += 1
        elif op[0] == 'X':
            if os.path.exists(p):
                os.remove(p)

    def loc_of_path(self, p):
        for d, dp in enumerate(self.dirs):
            if p.startswith(dp + os.sep):
                rest = p[len(dp) + 1:]
                sub = rest.startswith('sub' + os.sep)
                m = re.match(r't(\d+)\.html$', rest[4:] if sub else rest)
                if m:
                    return (d, sub, int(m.group(1)))
        return None

    def key_of(self, k):
        if os.path.isabs(k):
            loc = self.loc_of_path(k)
            return loc if loc is None else (loc[0], loc[1], loc[2])
        sub = k.startswith('sub' + os.sep)
        m = re.match(r't(\d+)\.html$', k[4:] if sub else k)
        return (None, sub, int(m.group(1))) if m else None

    def obj(self, t):
        """identity -> the number of the instantiation (from the counting classes)"""
        for i, x in enumerate(self.inst_log):
            if x is t:
                return i
        return -1

    def describe(self, t):
        cc = counting_classes()
        try:
            text = t.generate().render(encoding=None)
        except Exception as e:  # noqa
            text = 'render raises %s' % type(e).__name__
        m = re.search(r'v(\d+)', text)
        return {'obj': self.obj(t), 'loc': self.loc_of_path(t.filepath),
                'content': int(m.group(1)) if m else -1,
                'cls': 1 if isinstance(t, cc['text']) else 0,
                'enc': 1 if u'Ã' in text else 0,
                'absname': os.path.isabs(t.filename)}

    def snapshot(self):
        """cache as [(key, obj)] most recent first, the mapping by identity, _uptodate by identity"""
        c = self.loader._cache
        order = []
        bound = len(c._dict) + 2
        for k in c:
            order.append(k)
            if len(order) > bound:
                break
        return {'order': [(self.key_of(k), self.obj(c._dict[k].value) if k in c._dict else -1) for k in order],
                'mapping': dict((k, id(c._dict[k].value)) for k in c._dict),
                'uptodate': dict((k, id(v)) for k, v in self.loader._uptodate.items()),
                'len': len(c)}

    def path_intact(self):
        """the configured search path is still the list it was created with"""
        return len(self.loader.search_path) == len(self.cfg['path'])

    def lock_depth(self):
        lk = self.loader._lock
        if hasattr(lk, '_recursion_count'):
            return lk._recursion_count()
        return 1 if lk._is_owned() else 0

    def load(self, r):
        cc = counting_classes()
        name = fname(r['sub'], r['base'])
        if r['absd'] is not None:
            name = os.path.join(self.dirs[r['absd']], name)
        rel = r['rel']
        relto = None
        if rel is not None:
            relto = fname(rel[1], 99) if rel[0] == 'R' else os.path.join(self.dirs[rel[1]], fname(rel[2], 99))
        self.flags['cb'] = r['cb']
        self.flags['fault'] = r['fault']
        try:
            t = self.loader.load(name, relative_to=relto, cls=cc['text'] if r['cls'] == 1 else None,
                                 encoding='iso-8859-1' if r['enc'] == 1 else None)
            return ('ok', t)
        except Exception as e:  # noqa
            return ('err', type(e).__name__)
        finally:
            self.flags['cb'] = False
            self.flags['fault'] = None

    def load_race(self, r, before, content, bad):
        """a load during which the first file that `directory()` opens successfully is replaced
        (new file written aside with the next logical mtime, renamed over the name): before the
        `open`, or right after it returned.  Nothing in the repository is touched: the name `open`
        is shadowed in the loader module's globals for the duration of the call.
        -> (kind, value, location replaced or None)"""
        import builtins
        import genshi.template.loader as LM
        fired = []
        run = self

        def replace(path):
            tmp = path + '.new'
            with builtins.open(tmp, 'wb') as f:
                f.write(content_bytes(content, bad))
            os.utime(tmp, (T0 + run.clock, T0 + run.clock))
            os.replace(tmp, path)
            run.clock += 1
            fired.append(run.loc_of_path(path))

        def racing_open(path, *a, **kw):
            if fired or not isinstance(path, str) or not os.path.isfile(path):
                return builtins.open(path, *a, **kw)
            if before:
                replace(path)
                return builtins.open(path, *a, **kw)
            fo = builtins.open(path, *a, **kw)
            replace(path)
            return fo
        had = 'open' in vars(LM)
        saved = vars(LM).get('open')
        LM.open = racing_open
        try:
            kind, val = self.load(r)
        finally:
            if had:
                LM.open = saved
            else:
                del LM.open
        return kind, val, (fired[0] if fired else None)

    def close(self):
        shutil.rmtree(self.root, ignore_errors=True)


def wire_history(cfg, ops):
    """the request line for `gdrv C15 hist`"""
    from harness import proto
    from harness.proto import Atom, B, N

    def rel(x):
        if x is None:
            return N
        return [Atom('R'), B(x[1])] if x[0] == 'R' else [Atom('A'), x[1], B(x[2])]
    path = [[Atom('D'), e[1], B(e[2])] if e[0] == 'D' else [Atom('F'), e[1], B(e[2])] for e in cfg['path']]
    wops = []
    for op in ops:
        if op[0] == 'W':
            wops.append([Atom('W'), op[1], B(op[2]), op[3], op[4], B(op[5])])
        elif op[0] == 'WA':
            wops.append([Atom('WA'), op[1], B(op[2]), op[3], op[4], B(op[5]), op[6]])
        elif op[0] in 'TX':
            wops.append([Atom(op[0]), op[1], B(op[2]), op[3]])
        else:
            r = op[1]
            w = [Atom(op[0]), r['base'], B(r['sub']), N if r['absd'] is None else r['absd'], rel(r['rel']),
                 r['cls'], r['enc'], B(r['cb']), N if r['fault'] is None else Atom('io' if r['fault'] == 'nf' else r['fault'])]
            if op[0] == 'LR':
                w += [B(op[2]), op[3], B(op[4])]
            wops.append(w)
    return proto.line(Atom('C15'), Atom('hist'), cfg['cap'], B(cfg['auto_reload']), B(cfg['callback']), path, wops)


def uptodate_view(run, seen):
    """`_uptodate` over the keys requested so far: None, or (file, logical mtime) read from the
    closure of the up-to-date function"""
    from harness.proto import Atom, B, N
    byk = dict((run.key_of(k), v) for k, v in run.loader._uptodate.items())
    out = []
    for key in seen:
        if key not in byk:
            continue
        fn = byk[key]
        kw = [N if key[0] is None else key[0], B(key[1]), key[2]]
        if fn is None:
            out.append([kw, N])
            continue
        # by type, not by name: the closure holds one path (str) and one mtime (number)
        vals = [c.cell_contents for c in (fn.__closure__ or ())]
        paths = [v for v in vals if isinstance(v, str)]
        nums = [v for v in vals if isinstance(v, (int, float)) and not isinstance(v, bool)]
        loc = (run.loc_of_path(paths[0]) if paths else None) or (-1, False, -1)
        m = (int(nums[0]) - T0) if nums else -1
        out.append([kw, [loc[0], B(loc[1]), loc[2], m]])
    return out


def real_answer(run, kind, val, seen=(), fired=False):
    """what the real loader did for one load, in the vocabulary of Driver/C15.lean histRun
    (`fired`: None for a plain load; for a racing load the location replaced, or False)"""
    from harness.proto import Atom, B, N
    snap = run.snapshot()
    if kind == 'ok':
        d = run.describe(val)
        loc = d['loc'] or (-1, False, -1)
        res = [Atom('ok'), [d['obj'], loc[0], B(loc[1]), loc[2], d['content'], d['cls'], d['enc'], B(d['absname'])]]
    else:
        res = [Atom('err'), Atom(val)]
    cache = [[[N if k[0] is None else k[0], B(k[1]), k[2]], o]
             for k, o in [(k or (-1, False, -1), o) for k, o in snap['order']]]
    out = [res, [cache, len(run.cb_log), len(run.inst_log), run.lock_depth(), uptodate_view(run, seen)]]
    if fired is not False:
        out.append(0 if fired is None else 1)
    return out

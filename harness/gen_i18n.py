"""Generators for C19: i18n template trees, their source text, the independent message
linearisation (documented `[n:...]` / `%(param)s` format), the reference ("without the
filter") template, and catalogue families.

A template is a JSON tree:
  ['t', text]                              literal text
  ['x', name]                              ${name}
  ['c', text]                              comment
  ['e', tag, attrs, dirs, kids]            element; attrs = [[name, parts]], parts = [['t',s]|['x',n]];
                                           dirs = [[qname, value]] e.g. ['i18n:msg','a, b'], ['py:if','f1']
  ['d', qname, args, kids]                 directive element, args = [[name, value]]
Nothing in here touches genshi.
"""
import re

OPT = '\ue000'      # marks an optional white-space character in the identity reference
NS_PY = 'http://genshi.edgewall.org/'
NS_I18N = 'http://genshi.edgewall.org/i18n'

WS = ' \t\n\r\x0b\x0c\x1c\x1d\x1e\x1f\x85\xa0       　'

TAGS = ['p', 'div', 'span', 'b', 'i', 'em', 'a', 'h1', 'li', 'td', 'label', 'title']
IGNORED = ['script', 'style']
INCL_ATTRS = ['abbr', 'alt', 'label', 'prompt', 'standby', 'summary', 'title', 'placeholder']
OTHER_ATTRS = ['class', 'href', 'id', 'name', 'value', 'data-x']
WORDS = ['Hello', 'world', 'Foo', 'bar', 'Please', 'see', 'the', 'page', 'for', 'details', 'coin', 'coins',
         'thing', 'things', 'One', 'Many', 'Voilà', 'Größe', 'Ωmega', '日本', 'x', 'a']
NONALPHA = ['123', '--', '!', '...', '42%', '(1)', '½', '→', '*', '#7', '+', '?']
SPACES = [' ', ' ', ' ', '\n', '\n  ', '  ', '\t', '\xa0', ' ', ' \n ']
DOMAINS = ['foo', 'bar']
CONTEXTS = ['menu', 'verb']
STR_VARS = ['s1', 's2', 's3']
BOOL_VARS = ['f1', 'f2']
NUM_VARS = ['n1', 'n2']
LIST_VARS = ['l1']


# --------------------------------------------------------------------------
# source text

def xesc(s, attr=False):
    s = s.replace('&', '&amp;').replace('<', '&lt;').replace('>', '&gt;')
    if attr:
        s = s.replace('"', '&quot;').replace('\n', '&#10;').replace('\t', '&#9;').replace('\r', '&#13;')
    else:
        s = s.replace('\r', '&#13;')
    return s


def parts_src(parts, attr):
    out = []
    for p in parts:
        if p[0] == 't':
            out.append(xesc(p[1], attr).replace('$', '$$'))
        else:
            out.append('${%s}' % p[1])
    return ''.join(out)


def node_src(n):
    k = n[0]
    if k == 't':
        return xesc(n[1]).replace('$', '$$')
    if k == 'x':
        return '${%s}' % n[1]
    if k == 'c':
        return '<!--%s-->' % n[1]
    if k == 'pi':
        return '<?python %s ?>' % n[1]
    if k == 'e':
        _, tag, attrs, dirs, kids = n
        a = ''.join(' %s="%s"' % (name, parts_src(parts, True)) for name, parts in attrs)
        a += ''.join(' %s="%s"' % (name, xesc(value, True)) for name, value in dirs)
        return '<%s%s>%s</%s>' % (tag, a, ''.join(node_src(c) for c in kids), tag)
    if k == 'd':
        _, qn, args, kids = n
        a = ''.join(' %s="%s"' % (name, xesc(value, True)) for name, value in args)
        return '<%s%s>%s</%s>' % (qn, a, ''.join(node_src(c) for c in kids), qn)
    raise ValueError(n)


NS_XHTML = 'http://www.w3.org/1999/xhtml'


def source(tree, i18n=True, xhtml=False):
    """tree = list of nodes (children of the root element); `xhtml`: the document is in the
    XHTML namespace (all element names become namespaced QNames)"""
    ns = ' xmlns:i18n="%s"' % NS_I18N if i18n else ''
    if xhtml:
        ns = ' xmlns="%s"' % NS_XHTML + ns
    return '<html xmlns:py="%s"%s>%s</html>' % (NS_PY, ns, ''.join(node_src(c) for c in tree))


# --------------------------------------------------------------------------
# the message format as documented (doc/i18n.txt): independent of MessageBuffer/parse_msg

def esc_brackets(s):
    return s.replace('[', '\\[').replace(']', '\\]')


def unesc_brackets(s):
    return s.replace('\\[', '[').replace('\\]', ']')


def dir_of(n, name):
    """value of directive attribute `name` on element node n, else None"""
    if n[0] == 'e':
        for q, v in n[3]:
            if q == name:
                return v
    return None


class Msg(object):
    """the message of a content list: elements numbered by the order of their start tags,
    expressions bound to the parameter names in order"""

    def __init__(self, kids, params):
        self.elems = {}
        self.exprs = {}
        self.params = list(params)
        self.n = 0
        self.ok = True
        self.string = self._lin(kids).strip()

    def _lin(self, kids):
        out = []
        for k in kids:
            if k[0] == 't':
                out.append(esc_brackets(k[1]))
            elif k[0] == 'x':
                if not self.params:
                    self.ok = False
                    out.append('%(?)s')
                else:
                    p = self.params.pop(0)
                    self.exprs[p] = k
                    out.append('%%(%s)s' % p)
            elif k[0] == 'e':
                self.n += 1
                num = self.n
                self.elems[num] = k
                out.append('[%d:%s]' % (num, self._lin(k[4])))
            elif k[0] == 'c':
                pass
            else:
                self.ok = False
        return ''.join(out)


TOKEN = re.compile(r'\\\[|\\\]|\[(\d+):|\]|%\((\w+)\)s')


def parse_translation(s):
    """translated string -> tree: list of ['t', text] | ['p', name] | ['ph', n, kids];
    raises ValueError when brackets do not balance"""
    root = []
    stack = [root]
    pos = 0
    buf = []

    def flush():
        if buf:
            stack[-1].append(['t', ''.join(buf)])
            del buf[:]
    for m in TOKEN.finditer(s):
        buf.append(s[pos:m.start()])
        pos = m.end()
        tok = m.group(0)
        if tok in ('\\[', '\\]'):
            buf.append(tok[1])
        elif tok == ']':
            flush()
            if len(stack) == 1:
                raise ValueError('unbalanced ]')
            stack.pop()
        elif tok.startswith('['):
            flush()
            node = ['ph', int(m.group(1)), []]
            stack[-1].append(node)
            stack.append(node[2])
        else:
            flush()
            stack[-1].append(['p', m.group(2)])
    buf.append(s[pos:])
    flush()
    if len(stack) != 1:
        raise ValueError('unbalanced [')
    return root


def unparse_translation(tree):
    out = []
    for n in tree:
        if n[0] == 't':
            out.append(esc_brackets(n[1]))
        elif n[0] == 'p':
            out.append('%%(%s)s' % n[1])
        else:
            out.append('[%d:%s]' % (n[1], unparse_translation(n[2])))
    return ''.join(out)


def rebuild(tree, msg, fn_attr):
    """translation tree -> template nodes: placeholders become the original elements (attributes
    kept, passed through fn_attr), parameters the original expressions"""
    out = []
    for n in tree:
        if n[0] == 't':
            if n[1]:
                out.append(['t', n[1]])
        elif n[0] == 'p':
            out.append(msg.exprs[n[1]])
        else:
            e = msg.elems[n[1]]
            out.append(['e', e[1], fn_attr(e), [d for d in e[3] if not d[0].startswith('i18n:')], rebuild(n[2], msg, fn_attr)])
    return out


# --------------------------------------------------------------------------
# catalogue families: functions msgid -> translation, seeded, deterministic

def cat_identity(s):
    return s


SCRAMBLE_KEEP = re.compile(r'\\\[|\\\]|\[\d+:|\]|%\(\w+\)s')


def cat_scramble(s):
    """changes every letter, keeps placeholders, parameters and white space"""
    out = []
    pos = 0
    for m in SCRAMBLE_KEEP.finditer(s):
        out.append(s[pos:m.start()].swapcase().replace('e', '3').replace('E', '3'))
        out.append(m.group(0))
        pos = m.end()
    out.append(s[pos:].swapcase().replace('e', '3').replace('E', '3'))
    return ''.join(out)


def _perm(tree, rng):
    """permute the placeholders among the placeholder positions of every level (texts and
    parameters stay where they are)"""
    idx = [i for i, n in enumerate(tree) if n[0] == 'ph']
    phs = [tree[i] for i in idx]
    rng.shuffle(phs)
    out = list(tree)
    for i, p in zip(idx, phs):
        out[i] = ['ph', p[1], _perm(p[2], rng)]
    return out


def _drop(tree, rng, top=True):
    """drop parts: whole top-level placeholders, and text parts at any level"""
    out = []
    for n in tree:
        if n[0] == 'ph':
            if top and rng.random() < 0.3:
                continue
            out.append(['ph', n[1], _drop(n[2], rng, False)])
        elif n[0] == 't':
            if rng.random() < 0.25:
                continue
            out.append(n)
        else:
            out.append(n)
    return out


def _dropnested(tree, top=True):
    """drop every placeholder nested in another placeholder (keeps the parents)"""
    out = []
    for n in tree:
        if n[0] == 'ph':
            if not top:
                continue
            out.append(['ph', n[1], _dropnested(n[2], False)])
        else:
            out.append(n)
    return out


def make_catalogue(kind, seed):
    import random

    def f(s):
        if kind == 'id' or not any(ch.isalpha() for ch in s):
            # a catalogue holds the extracted messages; text without a letter is never extracted
            return s
        if kind == 'scramble':
            return cat_scramble(s)
        rng = random.Random('%s/%s/%s' % (kind, seed, s))
        try:
            tree = parse_translation(s)
        except ValueError:
            return s
        if kind == 'perm':
            tree = _perm(tree, rng)
        elif kind == 'drop':
            tree = _drop(tree, rng)
        elif kind == 'permdrop':
            tree = _drop(_perm(tree, rng), rng)
        elif kind == 'dropnested':
            tree = _dropnested(tree)
        else:
            raise ValueError(kind)
        return unparse_translation(tree)
    return f


# --------------------------------------------------------------------------
# reference template: the same document without i18n markup, message contents rebuilt from
# the catalogue's answer (identity catalogue: the content with its edge white space removed)

def split_params(value):
    return [p.strip() for p in value.split(',') if p]


def choose_parts(value):
    ps = [v.strip() for v in value.split(';')]
    numeral = ps.pop(0)
    params = [n.strip() for n in ps[0].split(',') if n] if ps else []
    return numeral, params


class Ref(object):
    """builds the reference tree; `f(msgid)` is the catalogue; cfg gives ignore_tags /
    include_attrs / extract_text so that plain text and attributes are translated where the
    documentation says they are"""

    def __init__(self, f, cfg, translate_plain=True, identity=False):
        self.f = f
        self.cfg = cfg
        self.identity = identity
        self.translate_plain = translate_plain and cfg.get('extract_text', True)
        self.lookups = []      # msgids the reference looked up (with the letter filter applied by the caller)

    def tr(self, s):
        self.lookups.append(s)
        return self.f(s)

    def text(self, s, skip):
        if skip or not self.translate_plain:
            return s
        t = s.strip()
        if not t:
            return s
        i = s.index(t)
        return s[:i] + self.tr(t) + s[i + len(t):]

    def attrs(self, e, skip):
        out = []
        for name, parts in e[2]:
            if (not skip and self.translate_plain and name in self.cfg['include_attrs']
                    and len(parts) == 1 and parts[0][0] == 't' and parts[0][1].strip()):
                v = parts[0][1]
                t = v.strip()
                i = v.index(t)
                out.append([name, [['t', v[:i] + self.tr(t) + v[i + len(t):]]]])
            else:
                out.append([name, parts])
        return out

    def skips(self, e):
        if e[1] in self.cfg['ignore_tags']:
            return True
        for name, parts in e[2]:
            if name == 'xml:lang' and (len(parts) == 0 or all(p[0] == 't' for p in parts)):
                return True
        return False

    def trimmed(self, kids, skip):
        """identity catalogue: the content itself; the white space at its two edges is *marked*
        optional (each such character is preceded by OPT): the property allows any of it to be
        missing.  This does not go through the message format at all."""
        kids = list(kids)

        def mark(ws):
            return ''.join(OPT + c for c in ws)
        if kids and kids[0][0] == 't':
            t = kids[0][1]
            rest = t.lstrip()
            kids[0] = ['t', mark(t[:len(t) - len(rest)]) + rest]
        if kids and kids[-1][0] == 't':
            t = kids[-1][1]
            core = t.rstrip()
            if OPT in core and not core.replace(OPT, '').strip():
                pass          # a single all-white-space node: already marked from the left
            else:
                kids[-1] = ['t', core + mark(t[len(core):])]

        def inner(n):
            if n[0] == 'e':
                return ['e', n[1], self.attrs(n, skip), [d for d in n[3] if not d[0].startswith('i18n:')],
                        [inner(k) for k in n[4]]]
            if n[0] == 'd':
                return ['d', n[1], n[2], [inner(k) for k in n[3]]]
            return n
        return [inner(k) for k in kids]

    def message(self, kids, params, skip):
        """content of a msg directive / choose branch -> translated content"""
        if self.identity:
            return self.trimmed(kids, skip)
        m = Msg(kids, params)
        trans = self.tr(m.string)
        tree = parse_translation(trans)
        return rebuild(tree, m, lambda e: self.attrs(e, skip or self.skips_inner(e)))

    def skips_inner(self, e):
        return False

    def nodes(self, kids, skip):
        out = []
        for n in kids:
            out.extend(self.node(n, skip))
        return out

    def node(self, n, skip):
        k = n[0]
        if k == 't':
            return [['t', self.text(n[1], skip)]]
        if k in ('x', 'c', 'pi'):
            return [n]
        if k == 'd':
            _, qn, args, kids = n
            a = dict(args)
            if qn == 'i18n:msg':
                return self.message(kids, split_params(a.get('params', '')), skip)
            if qn == 'i18n:choose':
                return self.choose(kids, a.get('numeral', ''), split_params(a.get('params', '')), skip)
            if qn in ('i18n:domain', 'i18n:ctxt', 'i18n:comment'):
                return self.nodes(kids, skip)
            return [['d', qn, args, self.nodes(kids, skip)]]
        _, tag, attrs, dirs, kids = n
        sk = skip or self.skips(n)
        pydirs = [d for d in dirs if not d[0].startswith('i18n:')]
        new_attrs = self.attrs(n, sk)
        msg = dir_of(n, 'i18n:msg')
        cho = dir_of(n, 'i18n:choose')
        if msg is not None:
            return [['e', tag, new_attrs, pydirs, self.message(kids, split_params(msg), sk)]]
        if cho is not None:
            numeral, params = choose_parts(cho)
            return [['e', tag, new_attrs, pydirs, self.choose(kids, numeral, params, sk)]]
        return [['e', tag, new_attrs, pydirs, self.nodes(kids, sk)]]

    def choose(self, kids, numeral, params, skip):
        """singular and plural branch side by side at the singular's position, selected by
        numeral == 1 (what an identity ngettext selects)"""
        out = []
        sing = plur = None
        for n in kids:
            if self.branch(n) == 'singular':
                sing = n
                out.append(None)
            elif self.branch(n) == 'plural':
                plur = n
            else:
                out.extend(self.node(n, skip))
        res = []
        for n in out:
            if n is None:
                res.extend(self.branches(sing, plur, numeral, params, skip))
            else:
                res.append(n)
        return res

    @staticmethod
    def branch(n):
        if n[0] == 'e':
            if dir_of(n, 'i18n:singular') is not None:
                return 'singular'
            if dir_of(n, 'i18n:plural') is not None:
                return 'plural'
        if n[0] == 'd' and n[1] in ('i18n:singular', 'i18n:plural'):
            return n[1][5:]
        return None

    def branches(self, sing, plur, numeral, params, skip):
        out = []
        for which, n in (('s', sing), ('p', plur)):
            if n is None:
                continue
            cond = '%s == 1' % numeral if which == 's' else '%s != 1' % numeral
            # the catalogue is asked with (singular id, plural id, n); an identity-like family answers
            # f(singular) for n == 1 and f(plural) otherwise
            content = self.message(n[4] if n[0] == 'e' else n[3], params, skip)
            if n[0] == 'e':
                pydirs = [d for d in n[3] if not d[0].startswith('i18n:')]
                out.append(['d', 'py:if', [['test', cond]],
                            [['e', n[1], self.attrs(n, skip or self.skips(n)), pydirs, content]]])
            else:
                out.append(['d', 'py:if', [['test', cond]], content])
        return out


def reference(tree, f, cfg, identity=False):
    r = Ref(f, cfg, identity=identity)
    return r.nodes(tree, False), r


# --------------------------------------------------------------------------
# random templates

class Gen(object):
    """hypotheses the generator keeps (each is a recorded finding or a documented assumption):
    included attribute values carry no edge white space; directive-carrying elements do not nest
    inside a message; element-form messages/branches start and end with text or an expression;
    no message directive inside an excluded sub-tree and no ignored tag inside a message;
    with `nofrag` the text inside choose branches and inside directive-carrying elements of a
    message has no letter (C19-fragments)."""

    def __init__(self, rng, hazards=(), nofrag=False):
        self.rng = rng
        self.hazards = set(hazards)
        self.nofrag = nofrag
        self.uid = 0
        self.config = self.cfg()

    def words(self, lo=1, hi=3, alpha=None):
        r = self.rng
        ws = []
        for _ in range(r.randrange(lo, hi + 1)):
            if alpha is False or (alpha is None and r.random() < 0.15):   # alpha=True: letters only
                ws.append(r.choice(NONALPHA))
            else:
                ws.append(r.choice(WORDS))
        s = ' '.join(ws)
        if r.random() < (0.3 if 'brackets' in self.hazards else 0.06):
            # brackets in text are escaped by the message format and must come back
            s += r.choice(['[', ']', '[]', ' [1] ', ' ]-[', ' [7 8]'] if alpha is False else
                          [' [x]', '[', ']', ' a]b[', '[]', ' [a: b]'])
        if 'backslash' in self.hazards and r.random() < 0.3:
            s += r.choice(['\\', ' \\ ', 'a\\b'])
        if 'percent' in self.hazards and r.random() < 0.3:
            s += r.choice(['%(n)s', ' %(s1)s', '%(', '%s'])
        if 'phtext' in self.hazards and r.random() < 0.3:
            s += r.choice(['[1:', ' [2:x]', '[0:'])
        return s

    def pad(self, s, p=0.5):
        r = self.rng
        if r.random() < p:
            s = r.choice(SPACES) + s
        if r.random() < p:
            s = s + r.choice(SPACES)
        return s

    def text(self, p=0.5, alpha=None):
        r = self.rng
        if r.random() < 0.08:
            return ['t', r.choice(SPACES)]
        return ['t', self.pad(self.words(alpha=alpha), p)]

    def svar(self):
        return self.rng.choice(STR_VARS)

    def expr(self, code_ok=True):
        r = self.rng
        if code_ok and r.random() < 0.2:
            # gettext calls in template code: extracted by extract_from_code, looked up through the
            # functions the harness puts into the template data
            q = r.random()
            if q < 0.6:
                return ['x', "_('%s')" % r.choice(WORDS[:14])]
            if q < 0.7:
                # a gettext call nested in the argument of another one (extract_from_code as repaired:
                # the arguments of a gettext call are searched as well)
                return ['x', "ngettext('%s', '%s', len(_('%s')))" % (r.choice(WORDS[:14]), r.choice(WORDS[:14]), r.choice(WORDS[:14]))]
            if q < 0.78:
                # a literal numeral (extract_from_code as repaired: a non-string literal is no string)
                return ['x', "ngettext('%s', '%s', %s)" % (r.choice(WORDS[:14]), r.choice(WORDS[:14]), r.choice(['1', '2']))]
            return ['x', "ngettext('%s', '%s', %s)" % (r.choice(WORDS[:14]), r.choice(WORDS[:14]), r.choice(NUM_VARS))]
        return ['x', self.svar()]

    def attrs(self, lang_ok=True, plain=False, code_ok=True):
        """`plain`: no attribute that the configuration translates; `code_ok`: gettext calls may
        occur in interpolated values"""
        r = self.rng
        out = []
        names = set()
        for _ in range(r.choice([0, 0, 1, 1, 2, 3])):
            name = r.choice(INCL_ATTRS + OTHER_ATTRS) if r.random() < 0.8 else r.choice(['alt', 'title'])
            if plain and name in self.config['include_attrs']:
                continue
            if name in names:
                continue
            names.add(name)
            q = r.random()
            if q < 0.65:
                edge = 0.3 if ('attrws' in self.hazards or name not in self.config['include_attrs']) else 0.0
                parts = [['t', self.pad(self.words().strip(), edge)]]
            elif q < 0.75:
                parts = [['t', self.words(alpha=False).strip()]]
            elif q < 0.8:
                parts = [['t', r.choice(['', ' ', '  '])]]
            elif q < 0.9:
                parts = [['t', self.words() + ' '], self.expr(code_ok)]
            else:
                parts = [self.expr(code_ok)]
            out.append([name, parts])
        if lang_ok and r.random() < 0.08:
            out.append(['xml:lang', [['t', 'en']] if r.random() < 0.7 else [['x', self.svar()]]])
        elif r.random() < 0.03:
            out.append(['lang', [['t', 'en']]])          # not xml:lang: must not exclude anything
        # a marker that no configuration translates: identifies the element in the output
        self.uid += 1
        out.append(['data-u', [['t', 'u%d' % self.uid]]])
        r.shuffle(out)
        return out

    @staticmethod
    def has_lang(attrs):
        return any(n == 'xml:lang' and all(p[0] == 't' for p in parts) for n, parts in attrs)

    def pydirs(self, p=0.15):
        r = self.rng
        out = []
        if r.random() < p:
            k = r.random()
            if k < 0.5:
                out.append(['py:if', r.choice(BOOL_VARS)])
            elif k < 0.75:
                out.append(['py:strip', ''])
            else:
                out.append(['py:for', 'it in l1'])
        return out

    def combo_dirs(self, base, p_i18n=0.25, p_py=0.3):
        """directive list of an element that carries NO message directive (its text, included
        attributes and gettext calls are looked up by the translation pass itself): `base` plus any
        combination of the other non-extracting i18n directives (comment / ctxt / domain) and one to
        three control-flow directives.  `Translator.extract` and `Translator.__call__` walk such a
        list with loops that edit it under their own iterator, so what happens to the content
        depends on the whole combination - every combination has to reach the oracle."""
        r = self.rng
        ds = [list(d) for d in base]
        have = set(d[0] for d in ds)
        for name in ('i18n:comment', 'i18n:ctxt', 'i18n:domain'):
            if name not in have and r.random() < p_i18n:
                ds.append([name, self.words() if name == 'i18n:comment' else
                           r.choice(CONTEXTS) if name == 'i18n:ctxt' else r.choice(DOMAINS)])
        if not any(d[0].startswith('py:') for d in ds) and r.random() < p_py:
            pool = [['py:if', r.choice(BOOL_VARS)], ['py:strip', ''], ['py:for', 'it in l1'], ['py:with', 'w1 = s1']]
            r.shuffle(pool)
            ds.extend(pool[:r.choice([1, 1, 1, 2, 2, 3])])
        r.shuffle(ds)                  # attribute order in the source does not matter: the engine sorts
        return ds

    def inline(self, depth, in_msg, params, dirs_ok=True, alpha=None, maxparams=3, lvl=0, plain=False):
        """content nodes; inside a message (`in_msg`) expressions take a parameter name each"""
        r = self.rng
        out = []
        n = r.choice([1, 1, 2, 2, 3, 4])
        prev = None
        tags = [t for t in ['b', 'i', 'em', 'a', 'span'] if not (in_msg and t in self.config['ignore_tags'])]
        for _ in range(n):
            q = r.random()
            if q < 0.45 or (prev != 't' and q < 0.55):
                if prev == 't':
                    continue
                out.append(self.text(alpha=alpha))
                prev = 't'
            elif q < 0.6:
                if in_msg:
                    if len(params) >= maxparams:
                        continue
                    v = self.svar()
                    params.append('p%d' % (len(params) + 1) if r.random() < 0.5 else v + 'x' * len(params))
                    if dirs_ok and not plain and r.random() < 0.15:
                        # a gettext call in the expression bound to the parameter (not inside a
                        # directive-carrying element of the message: finding C19-sub-attrs)
                        out.append(self.expr())
                    else:
                        out.append(['x', v])
                else:
                    out.append(self.expr())
                prev = 'x'
            elif depth > 0:
                if in_msg and lvl > 0 and prev == 'e':
                    # two adjacent elements inside a placeholder element: finding C19-adjacent
                    out.append(self.text(alpha=alpha))
                tag = r.choice(tags)
                dirs = self.pydirs(0.12 if in_msg else 0.15) if dirs_ok else []
                sub_alpha = alpha
                if in_msg and dirs and self.nofrag:
                    sub_alpha = False
                sub_plain = plain or bool(in_msg and dirs and self.nofrag)
                kids = self.inline(depth - 1, in_msg, params, dirs_ok and not (in_msg and dirs), sub_alpha, maxparams,
                                   lvl + 1, sub_plain) if r.random() < 0.85 else []
                out.append(['e', tag, self.attrs(lang_ok=not in_msg, plain=sub_plain, code_ok=not sub_plain), dirs, kids])
                prev = 'e'
        return out

    def edges(self, kids, must=False, alpha=None):
        """white space at the edges of a message; with `must` the content starts and ends with a
        text or an expression"""
        r = self.rng
        if must:
            if not kids or kids[0][0] == 'e':
                kids.insert(0, self.text(alpha=alpha) if r.random() < 0.6 else ['t', r.choice(SPACES)])
            if kids[-1][0] == 'e':
                kids.append(self.text(alpha=alpha) if r.random() < 0.6 else ['t', r.choice(SPACES)])
        if r.random() < 0.6 and kids:
            if kids[0][0] == 't':
                kids[0] = ['t', r.choice(SPACES) + kids[0][1]]
            else:
                kids.insert(0, ['t', r.choice(SPACES)])
            if kids[-1][0] == 't':
                kids[-1] = ['t', kids[-1][1] + r.choice(SPACES)]
            else:
                kids.append(['t', r.choice(SPACES)])
        return kids

    def msg(self, depth):
        r = self.rng
        params = []
        kids = self.inline(depth, True, params)
        elem = r.random() < 0.8
        kids = self.edges(kids, must=not elem)
        value = ', '.join(params) if r.random() < 0.8 else ','.join(params)
        if elem:
            dirs = [['i18n:msg', value]] + self.pydirs(0.12)
            if r.random() < 0.15:
                dirs.insert(0, ['i18n:comment', self.words()])
            if r.random() < 0.2:
                # the message shares its element with other non-extracting i18n directives and
                # with control-flow directives
                dirs = self.combo_dirs(dirs, p_i18n=0.3, p_py=0.3)
            r.shuffle(dirs)
            tag = r.choice([t for t in TAGS if t not in self.config['ignore_tags']])
            return ['e', tag, self.attrs(lang_ok=False), dirs, kids]
        return ['d', 'i18n:msg', [['params', value]], kids]

    def choose(self, depth):
        r = self.rng
        nv = r.choice(NUM_VARS)
        alpha = False if self.nofrag else None
        params = []
        # both branches use the same parameter list: generate the singular, then a plural with at
        # most as many expressions
        sing = self.inline(min(depth, 1), True, params, dirs_ok=False, alpha=alpha)
        p2 = []
        plur = self.inline(min(depth, 1), True, p2, dirs_ok=False, alpha=alpha, maxparams=len(params))
        elem = r.random() < 0.85
        # a branch may carry py:strip (as in the library's own tests); like the element form it then
        # has to start and end with text or an expression (finding C19-msg-element-first-child)
        strip_s = elem and r.random() < 0.1
        strip_p = elem and r.random() < 0.1
        sing = self.edges(sing, must=(not elem) or strip_s, alpha=alpha)
        plur = self.edges(plur, must=(not elem) or strip_p, alpha=alpha)
        ws = lambda: ['t', r.choice(['\n', ' ', '\n  ', '  '])]
        tag = r.choice([t for t in ['p', 'span', 'li'] if t not in self.config['ignore_tags']])
        if elem:
            # a branch may carry py:strip (as in the library's own tests)
            ds = [['i18n:singular', '']] + ([['py:strip', '']] if strip_s else [])
            dp = [['i18n:plural', '']] + ([['py:strip', '']] if strip_p else [])
            bs = ['e', tag, self.attrs(lang_ok=False), ds, sing]
            bp = ['e', tag, self.attrs(lang_ok=False), dp, plur]
        else:
            bs = ['d', 'i18n:singular', [], sing]
            bp = ['d', 'i18n:plural', [], plur]
        # white space around the branches, sometimes none (also none after the last branch of the
        # element form: ChooseDirective.extract as repaired, fix b01357f)
        kids = [k for k in [ws(), bs, ws(), bp, ws()] if k[0] != 't' or r.random() < 0.85]
        pv = ', '.join(params)
        if r.random() < 0.8:
            value = '%s; %s' % (nv, pv) if params or r.random() < 0.5 else nv
            ctag = r.choice([t for t in ['div', 'p', 'ul'] if t not in self.config['ignore_tags']])
            cdirs = [['i18n:choose', value]]
            if r.random() < 0.25:
                # ... and so does the plural choice (ChooseDirective.__call__ as repaired applies them)
                cdirs = self.combo_dirs(cdirs, p_i18n=0.3, p_py=0.5)
            return ['e', ctag, self.attrs(lang_ok=False), cdirs, kids]
        return ['d', 'i18n:choose', [['numeral', nv], ['params', pv]], kids]

    def plain_elem(self, depth, excl):
        # gettext calls in the attributes of excluded elements are extracted (fix 3dc8094)
        attrs = self.attrs()
        tag = self.rng.choice(TAGS)
        ex = excl or self.has_lang(attrs) or tag in self.config['ignore_tags']
        return tag, attrs, ex

    def block(self, depth, excl):
        r = self.rng
        q = r.random()
        if q < 0.22:
            return self.text()
        if q < 0.28:
            return self.expr()
        if q < 0.30:
            return ['c', ' ' + self.words(alpha=True) + ' ']
        if q < 0.31:
            self.uid += 1
            return ['pi', "v%d = _('%s')" % (self.uid, r.choice(WORDS[:14]))]
        if q < 0.45 and not excl:
            return self.msg(2)
        if q < 0.53 and not excl:
            return self.choose(2)
        if q < 0.58 and depth > 0:
            if r.random() < 0.5:
                return ['d', 'i18n:domain', [['name', r.choice(DOMAINS)]], self.blocks(depth - 1, excl)]
            tag, attrs, ex = self.plain_elem(depth, excl)
            return ['e', tag, attrs, self.combo_dirs([['i18n:domain', r.choice(DOMAINS + [''])]] + self.pydirs(0.1)),
                    self.blocks(depth - 1, ex)]
        if q < 0.63 and depth > 0:
            if r.random() < 0.3:
                return ['d', 'i18n:ctxt', [['name', r.choice(CONTEXTS)]], self.blocks(depth - 1, excl)]
            dirs = [['i18n:ctxt', r.choice(CONTEXTS)]]
            if r.random() < 0.3:
                dirs.append(['i18n:domain', r.choice(DOMAINS)])
                r.shuffle(dirs)
            tag, attrs, ex = self.plain_elem(depth, excl)
            return ['e', tag, attrs, self.combo_dirs(dirs), self.blocks(depth - 1, ex)]
        if q < 0.67 and depth > 0:
            tag, attrs, ex = self.plain_elem(depth, excl)
            return ['e', tag, attrs, self.combo_dirs([['i18n:comment', self.words()]]), self.blocks(depth - 1, ex)]
        if q < 0.73:
            tag = r.choice(IGNORED)
            kids = [self.text()] if r.random() < 0.8 else [self.text(), ['e', 'b', self.attrs(), [], [self.text()]]]
            return ['e', tag, self.attrs(), [], kids]
        if depth > 0:
            tag, attrs, ex = self.plain_elem(depth, excl)
            return ['e', tag, attrs, self.combo_dirs(self.pydirs(), p_i18n=0.06, p_py=0.05), self.blocks(depth - 1, ex)]
        return self.text()

    def blocks(self, depth, excl=False):
        r = self.rng
        out = []
        prev = None
        for _ in range(r.choice([1, 2, 2, 3, 4])):
            b = self.block(depth, excl)
            if b[0] == 't' and prev == 't':
                continue
            prev = b[0]
            out.append(b)
        return out

    def data(self):
        r = self.rng
        d = {}
        for v in STR_VARS:
            d[v] = r.choice(['Jo', 'Ann B', ' x ', '', 'a<b', '7', 'né'])
        for v in BOOL_VARS:
            d[v] = r.random() < 0.6
        for v in NUM_VARS:
            d[v] = r.choice([0, 1, 1, 2, 5])
        d['l1'] = [r.choice(['k', 'm']) for _ in range(r.choice([0, 1, 2]))]
        return d

    def cfg(self):
        r = self.rng
        c = {'ignore_tags': list(IGNORED), 'include_attrs': list(INCL_ATTRS), 'extract_text': True}
        q = r.random()
        if q < 0.12:
            c['ignore_tags'] = sorted(set(IGNORED + [r.choice(['b', 'span', 'p'])]))
        elif q < 0.2:
            c['ignore_tags'] = []
        q = r.random()
        if q < 0.12:
            c['include_attrs'] = sorted(set(INCL_ATTRS) - set([r.choice(INCL_ATTRS)]) | set([r.choice(OTHER_ATTRS)]))
        elif q < 0.17:
            c['include_attrs'] = []
        if r.random() < 0.08:
            c['extract_text'] = False
        return c

    def case(self, depth=2):
        tree = self.blocks(depth)
        return {'tmpl': tree, 'data': self.data(), 'cfg': self.config, 'xhtml': self.rng.random() < 0.15}


class Rare(Gen):
    """templates aimed at the model branches the main generator rarely or never reaches
    (measured: `br:` counters in the evidence): several i18n directives on one element (the loops
    of `Translator.__call__` / `extract` that edit the directive list under their iterator), message
    directives next to i18n:ctxt / i18n:domain / i18n:comment (contextify: pgettext / npgettext),
    odd message and choose bodies (empty, one event, surplus expressions, directives on branches,
    events between branches), message directives inside excluded elements.  Correspondence only:
    many of these lie outside the hypotheses of the oracle (recorded findings, undocumented usage)."""

    def i18n_combo(self):
        r = self.rng
        ds = []
        if r.random() < 0.5:
            ds.append(['i18n:domain', r.choice(DOMAINS)])
        if r.random() < 0.6:
            ds.append(['i18n:comment', self.words()])
        if r.random() < 0.6:
            ds.append(['i18n:ctxt', r.choice(CONTEXTS)])
        if not ds:
            ds.append(['i18n:ctxt', r.choice(CONTEXTS)])
        return ds

    def finish_dirs(self, ds):
        r = self.rng
        ds = list(ds)
        k = r.random()
        if k < 0.35:
            ds.append(r.choice([['py:if', r.choice(BOOL_VARS)], ['py:strip', ''], ['py:for', 'it in l1']]))
        elif k < 0.45:
            ds.append(['py:if', r.choice(BOOL_VARS)])
            ds.append(['py:strip', ''])
        r.shuffle(ds)                  # attribute order in the source does not matter: the engine sorts
        return ds

    def rare_msg(self):
        r = self.rng
        params = []
        q = r.random()
        if q < 0.2:
            kids = []
        elif q < 0.3:
            kids = [self.text()] if r.random() < 0.6 else [['x', self.svar()]]
            if kids[0][0] == 'x':
                params.append('p1')
        else:
            kids = self.inline(2, True, params)
            kids = self.edges(kids, must=False)
        k = r.random()
        if k < 0.25 and params:
            params = params[:-1]                          # more expressions than parameters
        elif k < 0.2:
            params = params + ['extra']
        value = ', '.join(params)
        form = r.random()
        if form < 0.7:
            ds = self.finish_dirs((self.i18n_combo() if r.random() < 0.75 else []) + [['i18n:msg', value]])
            tag = r.choice([t for t in TAGS if t not in self.config['ignore_tags']])
            return ['e', tag, self.attrs(lang_ok=r.random() < 0.2), ds, kids]
        node = ['d', 'i18n:msg', [['params', value]], kids]
        if r.random() < 0.5:
            return ['e', r.choice(['div', 'p']), self.attrs(), self.finish_dirs(self.i18n_combo()), [self.text(), node]]
        return node

    def rare_choose(self):
        r = self.rng
        nv = r.choice(NUM_VARS)
        params = []
        sing = self.edges(self.inline(1, True, params, dirs_ok=r.random() < 0.3), must=True)
        p2 = []
        plur = self.edges(self.inline(1, True, p2, dirs_ok=r.random() < 0.3, maxparams=max(len(params), 1)), must=True)
        if len(p2) > len(params):
            params = p2
        tag = r.choice(['p', 'span', 'li'])

        def branch(name, content):
            q = r.random()
            if q < 0.25:
                return ['d', name, [], content]
            ds = [[name, '']]
            if q < 0.5:
                ds.append(['py:if', r.choice(BOOL_VARS)])
            elif q < 0.65:
                ds.append(['py:strip', ''])
            elif q < 0.75:
                ds.append(['i18n:comment', self.words()])
            r.shuffle(ds)
            return ['e', tag, self.attrs(lang_ok=False), ds, content]
        ws = lambda: ['t', r.choice(['\n', ' ', '\n  '])]
        between = r.random()
        mid = [ws()]
        if between < 0.2:
            mid = [['t', ' ' + self.words() + ' ']]
        elif between < 0.4:
            mid = [ws(), ['e', 'b', self.attrs(), [['py:if', r.choice(BOOL_VARS)]], [self.text()]], ws()]
        elif between < 0.5:
            mid = [['c', ' note '], ws()]
        elif between < 0.6:
            mid = []
        bs, bp = branch('i18n:singular', sing), branch('i18n:plural', plur)
        shape = r.random()
        if shape < 0.1:
            inner = [ws(), bs, ws()]
        elif shape < 0.2:
            inner = [ws(), bp, ws()]
        elif shape < 0.3:
            inner = [ws(), bp] + mid + [bs, ws()]
        elif shape < 0.4:
            inner = [bs] + mid + [bp]
        else:
            inner = [ws(), bs] + mid + [bp, ws()]
        pv = ', '.join(params)
        if r.random() < 0.75:
            ds = self.finish_dirs((self.i18n_combo() if r.random() < 0.7 else []) + [['i18n:choose', '%s; %s' % (nv, pv) if params else nv]])
            return ['e', r.choice(['div', 'p', 'ul']), self.attrs(lang_ok=r.random() < 0.2), ds, inner]
        node = ['d', 'i18n:choose', [['numeral', nv], ['params', pv]], inner]
        if r.random() < 0.5:
            return ['e', 'div', self.attrs(), self.finish_dirs(self.i18n_combo()), [node]]
        return node

    def rare_plain(self):
        r = self.rng
        tag, attrs, ex = self.plain_elem(1, False)
        kids = self.blocks(1, ex)
        if r.random() < 0.4:
            kids.append(self.rare_msg() if r.random() < 0.6 else self.rare_choose())    # also inside excluded elements
        return ['e', tag, attrs, self.finish_dirs(self.i18n_combo()), kids]

    def case(self, depth=2):
        r = self.rng
        tree = []
        for _ in range(r.choice([1, 2, 2, 3])):
            q = r.random()
            tree.append(self.rare_msg() if q < 0.4 else self.rare_choose() if q < 0.7 else self.rare_plain())
            if r.random() < 0.5:
                tree.append(self.text())
        if r.random() < 0.3:
            tree = [['e', r.choice(IGNORED + ['div']), self.attrs(), [], tree]]
        return {'tmpl': tree, 'data': self.data(), 'cfg': self.config, 'xhtml': r.random() < 0.1}


def gen_rare_case(rng):
    # `attrws`: included attribute values with white space at their edges (finding C19-attr-space
    # keeps them away from the oracle; model and code must still agree on them)
    return Rare(rng, ('attrws',) if rng.random() < 0.5 else (), nofrag=rng.random() < 0.5).case()


def gen_case(rng, hazards=(), depth=2, nofrag=False):
    return Gen(rng, hazards, nofrag).case(depth)

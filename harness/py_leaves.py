"""C13 — the leaf tokens of a Python `ast` tree in source order, written against the Python grammar
(CPython's own operator texts, not genshi's tables): identifiers, literals, operators and node /
clause keywords, no punctuation.  Counterpart of `Genshi.Py.leaves` / `leavesB` (Model/PyLeaves.lean);
used (a) to tie that Lean definition to `ast` and (b) as an oracle on the real code: the leaves of
an accepted program are a subsequence of the tokens of the regenerated source.

Order is the order of the `ast` fields in source (for a call: positional arguments, then keywords —
the canonical order in which every unparser writes them)."""
import ast
from harness.proto import Atom
from harness import gen_pyexpr as G


class Outside(Exception):
    """tree outside the domain of the leaf statement (or outside the modelled syntax)"""


def NAME(s):
    return [Atom('NAME'), s]


def _words(text):
    return [[Atom('NAME' if (w[0].isalpha() or w[0] == '_') else 'OP'), w] for w in text.split()]


_BIN = dict((k.__name__, v) for k, v in G.BINOPS)
_UN = dict((k.__name__, v) for k, v in G.UNOPS)
_CMP = dict((k.__name__, v) for k, v in G.CMPOPS)
_BOOL = {'And': 'and', 'Or': 'or'}


def _const(v):
    if v is True or v is False or v is None:
        return [NAME(repr(v))]
    if v is Ellipsis:
        return [[Atom('OP'), '...']]
    if isinstance(v, (str, bytes)):
        r = repr(v)
        if any(0xd800 <= ord(c) <= 0xdfff for c in r):
            raise Outside('surrogate')
        return [[Atom('STR'), r]]
    if type(v) in (int, float, complex):
        r = repr(v)
        if not (r[0].isdigit() or r[0] == '.') or 'inf' in r:
            raise Outside('number that is not a literal')
        return [[Atom('NUM'), r]]
    raise Outside('constant')


def _opt(n):
    return [] if n is None else leaves(n)


def _param(a, default=None):
    return [NAME(a.arg)] + _opt(a.annotation) + _opt(default)


def _params(a):
    pos = list(a.posonlyargs) + list(a.args)
    nd = len(pos) - len(a.defaults)
    if nd < 0 or len(a.kw_defaults) != len(a.kwonlyargs):
        raise Outside('arguments')
    out = []
    for i, p in enumerate(pos):
        out += _param(p, a.defaults[i - nd] if i >= nd else None)
    if a.vararg is not None:
        out += _param(a.vararg)
    for p, d in zip(a.kwonlyargs, a.kw_defaults):
        out += _param(p, d)
    if a.kwarg is not None:
        out += _param(a.kwarg)
    return out


def _comp(c):
    out = [NAME('async')] if c.is_async else []
    out += [NAME('for')] + leaves(c.target) + [NAME('in')] + leaves(c.iter)
    for i in c.ifs:
        out += [NAME('if')] + leaves(i)
    return out


def _kw(k):
    return ([] if k.arg is None else [NAME(k.arg)]) + leaves(k.value)


def _dotted(s):
    return [NAME(p) for p in s.split('.') if p]


def _body(b):
    out = []
    for s in b:
        out += leaves(s)
    return out


def _else(b):
    return ([NAME('else')] + _body(b)) if b else []


def _decos(n):
    out = []
    for d in n.decorator_list:
        out += leaves(d)
    return out


def leaves(n):
    if not isinstance(n, ast.AST):
        raise Outside('raw value')
    t = type(n)
    if t is ast.Name:
        return [NAME(n.id)]
    if t is ast.Constant:
        return _const(n.value)
    if t is ast.BoolOp:
        out = []
        for i, v in enumerate(n.values):
            out += ([NAME(_BOOL[type(n.op).__name__])] if i else []) + leaves(v)
        return out
    if t is ast.BinOp:
        return leaves(n.left) + _words(_BIN[type(n.op).__name__]) + leaves(n.right)
    if t is ast.UnaryOp:
        return _words(_UN[type(n.op).__name__]) + leaves(n.operand)
    if t is ast.Lambda:
        return [NAME('lambda')] + _params(n.args) + leaves(n.body)
    if t is ast.IfExp:
        return leaves(n.body) + [NAME('if')] + leaves(n.test) + [NAME('else')] + leaves(n.orelse)
    if t is ast.Dict:
        out = []
        for k, v in zip(n.keys, n.values):
            out += _opt(k) + leaves(v)
        return out
    if t in (ast.ListComp, ast.GeneratorExp):
        out = leaves(n.elt)
        for c in n.generators:
            out += _comp(c)
        return out
    if t is ast.Yield:
        return [NAME('yield')] + _opt(n.value)
    if t is ast.Compare:
        out = leaves(n.left)
        for o, c in zip(n.ops, n.comparators):
            out += _words(_CMP[type(o).__name__]) + leaves(c)
        return out
    if t is ast.Call:
        out = leaves(n.func)
        for a in n.args:
            out += leaves(a)
        for k in n.keywords:
            out += _kw(k)
        return out
    if t is ast.Attribute:
        if isinstance(n.value, ast.Constant) and type(n.value.value) is int:
            raise Outside('attribute of an integer literal')
        return leaves(n.value) + [NAME(n.attr)]
    if t is ast.Subscript:
        return leaves(n.value) + leaves(n.slice)
    if t is ast.Slice:
        return _opt(n.lower) + _opt(n.upper) + _opt(n.step)
    if t is ast.Starred:
        return leaves(n.value)
    if t in (ast.List, ast.Tuple):
        out = []
        for e in n.elts:
            out += leaves(e)
        return out
    # ---- statements
    if t is ast.Expr:
        return leaves(n.value)
    if t is ast.Assign:
        out = []
        for x in n.targets:
            out += leaves(x)
        return out + leaves(n.value)
    if t is ast.AugAssign:
        return leaves(n.target) + [[Atom('OP'), _BIN[type(n.op).__name__] + '=']] + leaves(n.value)
    if t is ast.Return:
        return [NAME('return')] + _opt(n.value)
    if t is ast.Delete:
        out = [NAME('del')]
        for x in n.targets:
            out += leaves(x)
        return out
    if t in (ast.Pass, ast.Break, ast.Continue):
        return [NAME(t.__name__.lower())]
    if t is ast.Assert:
        return [NAME('assert')] + leaves(n.test) + _opt(n.msg)
    if t is ast.Raise:
        out = [NAME('raise')] + _opt(n.exc)
        if n.exc is not None and n.cause is not None:
            out += [NAME('from')] + leaves(n.cause)
        return out
    if t is ast.Import:
        out = [NAME('import')]
        for a in n.names:
            out += _dotted(a.name) + ([] if a.asname is None else [NAME('as'), NAME(a.asname)])
        return out
    if t is ast.ImportFrom:
        out = [NAME('from')] + ([] if n.module is None else _dotted(n.module)) + [NAME('import')]
        for a in n.names:
            out += ([] if a.name == '*' else [NAME(a.name)]) + ([] if a.asname is None else [NAME('as'), NAME(a.asname)])
        return out
    if t in (ast.If, ast.While):
        return [NAME(t.__name__.lower())] + leaves(n.test) + _body(n.body) + _else(n.orelse)
    if t is ast.For:
        return [NAME('for')] + leaves(n.target) + [NAME('in')] + leaves(n.iter) + _body(n.body) + _else(n.orelse)
    if t is ast.With:
        out = [NAME('with')]
        for i in n.items:
            out += leaves(i.context_expr) + ([] if i.optional_vars is None else [NAME('as')] + leaves(i.optional_vars))
        return out + _body(n.body)
    if t is ast.Try:
        out = [NAME('try')] + _body(n.body)
        for h in n.handlers:
            if h.name is not None:
                raise Outside('except … as name')
            out += [NAME('except')] + _opt(h.type) + _body(h.body)
        out += _else(n.orelse)
        if n.finalbody:
            out += [NAME('finally')] + _body(n.finalbody)
        return out
    if t is ast.FunctionDef:
        if getattr(n, 'type_params', None):
            raise Outside('type parameters')
        return _decos(n) + [NAME('def'), NAME(n.name)] + _params(n.args) + _opt(n.returns) + _body(n.body)
    if t is ast.ClassDef:
        if getattr(n, 'type_params', None):
            raise Outside('type parameters')
        out = _decos(n) + [NAME('class'), NAME(n.name)]
        for b in n.bases:
            out += leaves(b)
        for k in n.keywords:
            out += _kw(k)
        return out + _body(n.body)
    raise Outside(t.__name__)


def leaves_of(tree, mode):
    """leaves of an `ast.Expression` / `ast.Module`, or None when outside"""
    try:
        return leaves(tree.body) if mode == 'eval' else _body(tree.body)
    except Outside:
        return None
    except KeyError:          # an operator class this table does not know
        return None


def missing_leaf(want, toks):
    """None when `want` is a subsequence of `toks`, else the index of the first leaf that is not found"""
    i = 0
    for k, w in enumerate(want):
        while i < len(toks) and toks[i] != w:
            i += 1
        if i == len(toks):
            return k
        i += 1
    return None

"""Raw text-template sources for the character-level scanner models (C04, `Model/TmplScan.lean`).

* `gen_raw(rng, lang)` -> source text: mostly-valid templates (balanced blocks, escapes, comments,
  interpolation) or a malformed stream (unterminated `{%`, stray `%}`, backslashes before
  delimiters, CR LF line ends, a directive at the end of the file without a line feed, ...).
* `real_tokens(lang, src)`: what the *compiled regular expressions of the code under test* match
  (`finditer` spans and groups) in the shape of the model's raw tokens.
* `real_parse(lang, src)`: the event stream `_parse` returns, canonical (no positions).
* `model_answers(lang, srcs)`: the Lean scan + token loop through gdrv (verbs `rawnew`/`rawold`);
  the Python syntax of `${...}` / `{% python %}` sources (outside the scanner) is judged by CPython.
* cooked-token generators + printers for the round-trip oracle on the real code.
"""
import io, warnings
from harness import proto
from harness.proto import Atom

WORDS = ['x', 'y', 'xs', 'i', 'f(a)', '1', "'s'", 'x == 1', 'not x']

NEW_TEXT = ['a', 'b ', '\n', ' ', 'x1', '\u00e9', '%', '}', '{', '#', '\\', '.', 'end', '\t', '\r\n', '{ %', '$', '1']
NEW_ESC = ['\\\n', '\\\r\n', '\\\\', '\\{%', '\\{#', '\\{% if x %}', '\\{# c #}', '\\\\{% if x %}', '\\\r', '\\a', '\\{', '\\%}', '\\\\\\{% end %}']
NEW_INTERP = ['$x', '$x.y', '${x}', '${ y }', "${'}'}", '${{1: 2}[1]}', '$$', '$$x', '$1', '$.', '${x}${y}', '$x$y', '$x.', "${'{%'}",
              '${"a" + \'b\'}', '${x # c\n}', '${[1, 2][0]}']
NEW_BADINTERP = ['${x', '${1 +}', '${}', '${ }', "${'}", '${{}', '$', '${x y}', '${)}']
NEW_OPEN = ['{% if x %}', '{%if x%}', '{%\nfor i in xs\n%}', '{% choose %}', '{% choose x %}', '{% when 1 %}', '{% otherwise %}',
            '{% with y=1 %}', '{% def f(a) %}', '{%  if  x == 1  %}', '{% for i in xs%}', '{% if x%y %}', '{% if "%}" %}', '{% if x\t%}',
            '{% when\u00a0x %}', '{% if {#c#} %}']
NEW_END = ['{% end %}', '{% end if %}', '{%end%}', '{% end\n%}', '{% endfor %}']
NEW_OTHER = ['{% include foo.txt %}', '{% include ${x}.txt %}', '{% include %}', '{% include $x %}', '{% python x = 1 %}',
             '{% python\nx = 1\ny = 2\n%}', '{# c #}', '{##}', '{# a\nb #}', '{# {% if x %} #}', '{#\\#}', '{# $x ${ #}']
NEW_BAD = ['{% bogus %}', '{% \u00e9 %}', '{%', '{% if x', '%}', '{#', '{% %}', '{%}', '{% if x % }', '{#}', '#}', '{% python x = %}',
           '{% 1 %}', '{% end', '{%%}', '{% if x %', '{#%}', '{%#}', '{% include ${ %}']

OLD_TEXT = ['a\n', 'b $x\n', 'c', ' ', '\n', 'a #if x\n', '# x\n', '#\n', '#!\n', '\\#if x\n', '  \\#end\n', 'x \\# y\n', '\\\\#z\n',
            '${x}\n', '$$\n', 'a\r\n', '\u00e9\n', '\x0c#if x\n', '\r#if x\n', '#', '  #', '\\##c\n', 'a\\\n']
OLD_OPEN = ['#if x\n', '  #if x\n', '\t#for i in xs\n', '#if x\r\n', '#choose\n', '#choose x\n', '#when 1\n', '#otherwise\n', '#with y=1\n',
            '#def f(a)\n', '#if  x == 1  \n', '#if\tx\n', '#if\u00a0x\n', '#if x\x0cy\n', ' \t #if x\n', '#when\x0b1\n']
OLD_END = ['#end\n', '#end if\n', '  #end\n', '#end\r\n', '#end\tfor\n']
OLD_OTHER = ['## comment\n', '##comment\n', '##\n', '  ## c\n', '###\n', '#include foo.txt\n', '#include  foo.txt  \n', '##if x\n', '## $x ${\n']
OLD_BAD = ['#endif\n', '#bogus\n', '#include\n', '#include  \n', '#\u00e9\n', '#1\n', '#if', '#end', '##', '#if x', '#_\n', '#end.\n', '#${\n']


def gen_new(rng, malformed):
    out = []

    def body(depth, n):
        for _ in range(n):
            r = rng.random()
            if r < 0.40:
                out.append(rng.choice(NEW_TEXT))
            elif r < 0.52:
                out.append(rng.choice(NEW_ESC))
            elif r < 0.66:
                out.append(rng.choice(NEW_INTERP))
            elif r < 0.80 and depth < 3:
                out.append(rng.choice(NEW_OPEN))
                body(depth + 1, rng.randint(0, 3))
                out.append(rng.choice(NEW_END[:4]))
            elif r < 0.92:
                out.append(rng.choice(NEW_OTHER))
            else:
                out.append(rng.choice(NEW_TEXT))
    if not malformed:
        body(0, rng.randint(1, 7))
    else:
        pools = [NEW_TEXT, NEW_ESC, NEW_INTERP, NEW_OPEN, NEW_END, NEW_OTHER, NEW_BAD, NEW_BADINTERP, NEW_TEXT, NEW_BAD]
        for _ in range(rng.randint(1, 8)):
            out.append(rng.choice(rng.choice(pools)))
    return ''.join(out)


def gen_old(rng, malformed):
    out = []

    def body(depth, n):
        for _ in range(n):
            r = rng.random()
            if r < 0.50:
                out.append(rng.choice(OLD_TEXT))
            elif r < 0.75 and depth < 3:
                if out and not out[-1].endswith('\n'):
                    out.append('\n')
                out.append(rng.choice(OLD_OPEN))
                body(depth + 1, rng.randint(0, 3))
                if out and not out[-1].endswith('\n'):
                    out.append('\n')
                out.append(rng.choice(OLD_END))
            elif r < 0.9:
                if out and not out[-1].endswith('\n') and rng.random() < 0.8:
                    out.append('\n')
                out.append(rng.choice(OLD_OTHER))
            else:
                out.append(rng.choice(OLD_TEXT))
    if not malformed:
        body(0, rng.randint(1, 7))
    else:
        pools = [OLD_TEXT, OLD_OPEN, OLD_END, OLD_OTHER, OLD_BAD, OLD_TEXT, OLD_BAD]
        for _ in range(rng.randint(1, 8)):
            out.append(rng.choice(rng.choice(pools)))
    return ''.join(out)


def gen_raw(rng, lang, malformed=None):
    if malformed is None:
        malformed = rng.random() < 0.4
    return (gen_new if lang == 'newtext' else gen_old)(rng, malformed)


# --------------------------------------------------------------------------
# the real code

def _cls(lang):
    from genshi.template.text import NewTextTemplate, OldTextTemplate
    return NewTextTemplate if lang == 'newtext' else OldTextTemplate


_TMPL = {}


def _tmpl(lang):
    if lang not in _TMPL:
        _TMPL[lang] = _cls(lang)('')
    return _TMPL[lang]


def real_tokens(lang, src):
    """finditer of the compiled expression of the code under test, as raw tokens"""
    t = _tmpl(lang)
    out, offset = [], 0
    if lang == 'newtext':
        for mo in t._directive_re.finditer(src):
            start, end = mo.span(1)
            if start > offset:
                out.append(['T', src[offset:start]])
            if mo.group(2) is not None:
                out.append(['D', src[start + 2:end - 2], mo.group(2), mo.group(3)])
            else:
                out.append(['C', src[start + 2:end - 2]])
            offset = end
    else:
        for mo in t._DIRECTIVE_RE.finditer(src):
            start, end = mo.span()
            if start > offset:
                out.append(['T', src[offset:start]])
            out.append(['L', src[start:end]])
            offset = end
    if offset < len(src):
        out.append(['T', src[offset:]])
    return out


ERRCLS = {'TemplateSyntaxError': 'badsyntax', 'BadDirectiveError': 'baddirective', 'AttributeError': 'attribute'}


def canon_stream(cls, stream):
    from genshi.core import TEXT
    from genshi.template.base import EXPR, SUB, INCLUDE, EXEC
    names = dict((c, n) for n, c in cls.directives)
    out = []
    for kind, data, pos in stream:
        if kind is TEXT:
            out.append(['TX', str(data)])
        elif kind is EXPR:
            out.append(['EX', data.source])
        elif kind is SUB:
            (d,), sub = data
            out.append(['SUB', names.get(d[1], '?' + d[1].__name__), d[2], canon_stream(cls, sub)])
        elif kind is INCLUDE:
            v = data[0]
            out.append(['INCL', [['TX', v]] if isinstance(v, str) else canon_stream(cls, v)])
        elif kind is EXEC:
            out.append(['EXEC', data.source])
        else:
            out.append(['OTHER', str(kind)])
    return out


def real_parse(lang, src):
    t = _tmpl(lang)
    try:
        with warnings.catch_warnings():
            warnings.simplefilter('ignore')
            stream = t._parse(io.StringIO(src), None)
    except Exception as e:  # noqa
        n = type(e).__name__
        return ['err', ERRCLS.get(n, n)]
    return ['ok', canon_stream(type(t), stream)]


def render(lang, src, **data):
    try:
        with warnings.catch_warnings():
            warnings.simplefilter('ignore')
            return ['ok', _cls(lang)(src).generate(**data).render(encoding=None)]
    except Exception as e:  # noqa
        return ['err', type(e).__name__]


# --------------------------------------------------------------------------
# custom delimiters of NewTextTemplate (Model/TmplScanD.lean)

# (directive start, directive end, comment start, comment end); the last ones are outside the side
# condition of the model (the directive end starts with a word character / a blank): counted as unmodelled
DELIMS = [('{%', '%}', '{#', '#}'), ('<<', '>>', '<#', '#>'), ('[[', ']]', '[*', '*]'), ('<?', '?>', '<!--', '-->'),
          ('{{', '}}', '{*', '*}'), ('@(', ')@', '@*', '*@'), ('%', '%', '#', '#'), ('{%', '%}', '{%#', '#%}'),
          ('((', '))', '(#', '#)'), ('$(', ')', '$#', '#'), ('{%', 'x}', '{#', '#}'), ('{%', ' %}', '{#', '#}')]


def gen_raw_delims(rng, malformed=None):
    """raw text of the new syntax (same fragment grammar as gen_new) written with another set of
    delimiters: -> (delims, source)"""
    d = rng.choice(DELIMS)
    src = gen_raw(rng, 'newtext', malformed)
    marks = {'{%': '\x00', '%}': '\x01', '{#': '\x02', '#}': '\x03'}
    for k in ('{%', '%}', '{#', '#}'):
        src = src.replace(k, marks[k])
    for k, v in zip(('{%', '%}', '{#', '#}'), d):
        src = src.replace(marks[k], v)
    return d, src


_TMPLD = {}


def _tmpl_d(delims):
    if delims not in _TMPLD:
        _TMPLD[delims] = _cls('newtext')('', delims=delims)
    return _TMPLD[delims]


def real_tokens_d(delims, src):
    try:
        return _real_tokens_d(delims, src)
    except Exception as e:  # noqa  (the expressions for these delimiters do not compile / have other groups)
        return ['err', type(e).__name__]


def _real_tokens_d(delims, src):
    t = _tmpl_d(delims)
    out, offset = [], 0
    for mo in t._directive_re.finditer(src):
        start, end = mo.span(1)
        if start > offset:
            out.append(['T', src[offset:start]])
        if mo.group(2) is not None:
            out.append(['D', src[start + len(delims[0]):end - len(delims[1])], mo.group(2), mo.group(3)])
        else:
            out.append(['C', src[start + len(delims[2]):end - len(delims[3])]])
        offset = end
    if offset < len(src):
        out.append(['T', src[offset:]])
    return out


def real_parse_d(delims, src):
    try:
        t = _tmpl_d(delims)
    except Exception as e:  # noqa
        return ['err', type(e).__name__]
    try:
        with warnings.catch_warnings():
            warnings.simplefilter('ignore')
            stream = t._parse(io.StringIO(src), None)
    except Exception as e:  # noqa
        n = type(e).__name__
        return ['err', ERRCLS.get(n, n)]
    return ['ok', canon_stream(type(t), stream)]


def model_answers_d(cases):
    """cases: [(delims, src)] -> list of (tokens, parse verdict | None) | None when the delimiters are
    outside the side condition of the model"""
    res = []
    lines = [proto.line(Atom('C04'), Atom('rawnewd'), d[0], d[1], d[2], d[3], s) for d, s in cases]
    for a in proto.run_lines(lines):
        if a.strip() == 'unmodelled':
            res.append(None)
            continue
        v = proto.dec(a)
        toks, parsed = _toks('newtext', v[0]), v[1]
        evs = _evs(parsed[1] if str(parsed[0]) == 'ok' else parsed[2])
        if str(parsed[0]) == 'err' and str(parsed[1]) == 'unmodelled':
            res.append((toks, None))
        elif any(_beyond_codegen(s, m) for m, s in _sources(evs, [])):
            res.append((toks, None))
        elif any(not _compiles(s, m) for m, s in _sources(evs, [])):
            res.append((toks, ['err', 'badsyntax']))
        elif str(parsed[0]) == 'ok':
            res.append((toks, ['ok', evs]))
        else:
            res.append((toks, ['err', str(parsed[1])]))
    return res


# --------------------------------------------------------------------------
# the model

def _compiles(src, mode):
    try:
        with warnings.catch_warnings():
            warnings.simplefilter('ignore')
            compile(src.strip(), '<c04>', mode)
        return True
    except (SyntaxError, ValueError):
        return False


def _beyond_codegen(src, mode):
    """Python the code generator of genshi.template.astutil does not handle (set literals, which the
    delimiters `{{ }}` produce as `${{ x }}`: 'Unhandled node type Set' — C13's subject, not the scanner's)"""
    import ast
    try:
        tree = ast.parse(src.strip(), mode=mode)
    except (SyntaxError, ValueError):
        return False
    return any(isinstance(n, (ast.Set, ast.SetComp, ast.DictComp, ast.NamedExpr, ast.JoinedStr)) for n in ast.walk(tree))


def _sources(evs, out):
    """(mode, source) of every expression / code block, in the order `_parse` meets them"""
    for e in evs:
        k = str(e[0])
        if k == 'EX':
            out.append(('eval', e[1]))
        elif k == 'EXEC':
            out.append(('exec', e[1]))
        elif k == 'SUB':
            _sources(e[3], out)
        elif k == 'INCL':
            _sources(e[1], out)
    return out


def _evs(v):
    out = []
    for e in v:
        k = str(e[0])
        if k in ('TX', 'EX', 'EXEC'):
            out.append([k, e[1]])
        elif k == 'SUB':
            out.append(['SUB', e[1], None if isinstance(e[2], Atom) else e[2], _evs(e[3])])
        elif k == 'INCL':
            out.append(['INCL', _evs(e[1])])
        else:
            raise ValueError(e)
    return out


def _toks(lang, v):
    out = []
    for t in v:
        k = str(t[0])
        if k == 'T':
            out.append(['T', t[1]])
        elif k == 'D':
            out.append(['D', t[1], t[2], t[3]])
        elif k == 'C':
            out.append(['C', t[1]])
        elif k == 'L':
            out.append(['L', t[1] + '#' + t[2]])
    return out


def model_answers(lang, srcs):
    """-> list of (tokens, parse verdict | None when unmodelled)"""
    verb = 'rawnew' if lang == 'newtext' else 'rawold'
    res = []
    for a in proto.run_lines([proto.line(Atom('C04'), Atom(verb), s) for s in srcs]):
        v = proto.dec(a)
        toks, parsed = v[0], v[1]
        toks = _toks(lang, toks)
        evs = _evs(parsed[1] if str(parsed[0]) == 'ok' else parsed[2])
        if str(parsed[0]) == 'err' and str(parsed[1]) == 'unmodelled':
            res.append((toks, None))
            continue
        # Python syntax of the sources the scanner cut out: CPython decides
        if any(not _compiles(s, m) for m, s in _sources(evs, [])):
            res.append((toks, ['err', 'badsyntax']))
        elif str(parsed[0]) == 'ok':
            res.append((toks, ['ok', evs]))
        else:
            res.append((toks, ['err', str(parsed[1])]))
    return res


def print_new(ctoks):
    """the Lean printer `Scan.printNew` (specification side) through gdrv"""
    lines = [proto.line(Atom('C04'), Atom('printnew'), [[Atom(t[0])] + list(t[1:]) for t in toks]) for toks in ctoks]
    return [proto.dec(a) if a.strip() != 's' else '' for a in proto.run_lines(lines)]


# --------------------------------------------------------------------------
# cooked tokens (round-trip oracle)

CT_TEXT = ['a', 'b ', '\n', ' {', '%}', '{%', '{#', '\\', '\\\n', '#}', '{% if x %}', '\\{%', 'x\\', '{', '}', '\u00e9', '\r\n', '{{%', '\\\\', '{# c #}']
CT_VAL = ['x', 'x == 1', 'i in xs', 'y=1', 'f(a)', "'%' + '}'", 'x\ny', 'x % y', '{#', '1', 'a\\', '% }', '']
CT_COMMENT = ['', ' c ', 'a\nb', '{% if x %}', '#', '\\', '# }', '{#', ' $x ${ ']
CT_OPEN = ['if', 'for', 'choose', 'when', 'otherwise', 'with', 'def']


def gen_ctoks(rng):
    """a well-formed token list: no two adjacent texts, texts non-empty and not ending in a backslash
    in front of a directive or comment, blocks balanced"""
    out = []

    def text():
        s = ''.join(rng.choice(CT_TEXT) for _ in range(rng.randint(1, 3)))
        return ['T', s]

    def body(depth, n):
        for _ in range(n):
            r = rng.random()
            if r < 0.45:
                if not out or out[-1][0] != 'T':
                    out.append(text())
            elif r < 0.75 and depth < 3:
                cmd = rng.choice(CT_OPEN)
                val = rng.choice(CT_VAL)
                out.append(['D', cmd, val])
                body(depth + 1, rng.randint(0, 3))
                out.append(['D', 'end', rng.choice(['', '', cmd, 'x % y'])])
            else:
                out.append(['C', rng.choice(CT_COMMENT)])
    body(0, rng.randint(1, 6))
    # a text in front of a directive / comment must not end in a backslash (it would escape the delimiter)
    for i in range(len(out) - 1):
        if out[i][0] == 'T' and out[i][1].endswith('\\'):
            out[i] = ['T', out[i][1] + '.']
    return out


def expected_stream(ctoks):
    """the nesting the documentation gives balanced tokens (independent of the code and the model)"""
    stack = [[]]
    heads = []
    for t in ctoks:
        if t[0] == 'T':
            stack[-1].append(['TX', t[1]])
        elif t[0] == 'D' and t[1] == 'end':
            b = stack.pop()
            cmd, val = heads.pop()
            stack[-1].append(['SUB', cmd, val, b])
        elif t[0] == 'D':
            heads.append((t[1], t[2]))
            stack.append([])
    assert len(stack) == 1
    return stack[0]

"""Translator part for C15/C16: facts about genshi.util.LRUCache and TemplateLoader read from the
*values* of the imported modules (not from source text), emitted as lean/Genshi/Gen/Loader.lean.

* which methods LRUCache defines itself (the operation alphabet of the Lean model is this
  overridden interface) and which mapping methods it inherits from dict untouched (finding
  C15-inherited-dict);
* the defaults of TemplateLoader.__init__;
* whether the lock a TemplateLoader creates is re-entrant (probed on an instance: a second
  non-blocking acquire by the same thread succeeds).
"""
import inspect
from harness.extract_tables import HEADER, strlist

MAPPING_METHODS = ['get', 'keys', 'values', 'items', 'pop', 'popitem', 'setdefault', 'update', 'clear',
                   'copy', '__delitem__', '__eq__', '__reversed__']


def gen_loader():
    from genshi.util import LRUCache
    from genshi.template.loader import TemplateLoader
    own = sorted(k for k, v in vars(LRUCache).items() if inspect.isfunction(v))
    inherited = sorted(m for m in MAPPING_METHODS if m not in vars(LRUCache) and hasattr(dict, m))
    sig = inspect.signature(TemplateLoader.__init__)
    cap = sig.parameters['max_cache_size'].default
    ar = sig.parameters['auto_reload'].default
    loader = TemplateLoader([])
    lk = loader._lock
    reentrant = False
    if lk.acquire(False):
        try:
            if lk.acquire(False):
                reentrant = True
                lk.release()
        finally:
            lk.release()
    parts = [HEADER, 'namespace Genshi.Gen.Loader\n']
    parts.append(strlist('lruOwnMethods', own, 'from genshi/util.py: functions defined in class LRUCache itself'))
    parts.append(strlist('lruInheritedMapping', inherited,
                         'from genshi/util.py: mapping methods LRUCache takes from dict without overriding them'))
    parts.append('/-- from genshi/template/loader.py: TemplateLoader.__init__ default max_cache_size -/\n'
                 'def defaultMaxCacheSize : Nat := %d\n' % int(cap))
    parts.append('/-- from genshi/template/loader.py: TemplateLoader.__init__ default auto_reload -/\n'
                 'def defaultAutoReload : Bool := %s\n' % ('true' if ar else 'false'))
    parts.append('/-- probed on TemplateLoader([])._lock: a second acquire by the same thread succeeds -/\n'
                 'def lockIsReentrant : Bool := %s\n' % ('true' if reentrant else 'false'))
    parts.append('end Genshi.Gen.Loader\n')
    return 'Loader.lean', '\n'.join(parts)


GENERATORS = [gen_loader]

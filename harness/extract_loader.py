"""Translator part for C15/C16: facts about genshi.util.LRUCache and TemplateLoader read from the
*values* of the imported modules (not from source text), emitted as lean/Genshi/Gen/Loader.lean.

* which methods LRUCache defines itself (the operation alphabet of the Lean model is this
  overridden interface) and which mapping methods it inherits from dict untouched (finding
  C15-inherited-dict);
* the defaults of TemplateLoader.__init__;
* whether the lock a TemplateLoader creates is re-entrant (probed on an instance: a second
  non-blocking acquire by the same thread succeeds);
* whether `directory()` remembers the modification time of the file it *opened* (probed: the file
  is replaced by another one right after `open` returned; the up-to-date check handed out must
  then say "changed").
"""
import inspect, os, shutil, tempfile
from harness.extract_tables import HEADER, strlist

MAPPING_METHODS = ['get', 'keys', 'values', 'items', 'pop', 'popitem', 'setdefault', 'update', 'clear',
                   'copy', '__delitem__', '__eq__', '__reversed__']


def gen_loader():
    from genshi.util import LRUCache
    from genshi.template.loader import TemplateLoader
    own = sorted(k for k, v in vars(LRUCache).items() if inspect.isfunction(v))
    inherited = sorted(m for m in MAPPING_METHODS if m not in vars(LRUCache) and hasattr(dict, m))
    sig = inspect.signature(TemplateLoader.__init__)
    cap = sig.parameters['max_cache_size'].default
    ar = sig.parameters['auto_reload'].default
    loader = TemplateLoader([])
    lk = loader._lock
    reentrant = False
    if lk.acquire(False):
        try:
            if lk.acquire(False):
                reentrant = True
                lk.release()
        finally:
            lk.release()
    opened = probe_mtime_of_opened_file()
    parts = [HEADER, 'namespace Genshi.Gen.Loader\n']
    parts.append(strlist('lruOwnMethods', own, 'from genshi/util.py: functions defined in class LRUCache itself'))
    parts.append(strlist('lruInheritedMapping', inherited,
                         'from genshi/util.py: mapping methods LRUCache takes from dict without overriding them'))
    parts.append('/-- from genshi/template/loader.py: TemplateLoader.__init__ default max_cache_size -/\n'
                 'def defaultMaxCacheSize : Nat := %d\n' % int(cap))
    parts.append('/-- from genshi/template/loader.py: TemplateLoader.__init__ default auto_reload -/\n'
                 'def defaultAutoReload : Bool := %s\n' % ('true' if ar else 'false'))
    parts.append('/-- probed on TemplateLoader([])._lock: a second acquire by the same thread succeeds -/\n'
                 'def lockIsReentrant : Bool := %s\n' % ('true' if reentrant else 'false'))
    parts.append('/-- probed on directory(): a file replaced right after `open` returned is reported as changed by the\n'
                 '    up-to-date check (the modification time remembered is the one of the file that was opened) -/\n'
                 'def mtimeOfOpenedFile : Bool := %s\n' % ('true' if opened else 'false'))
    parts.append('end Genshi.Gen.Loader\n')
    return 'Loader.lean', '\n'.join(parts)


def probe_mtime_of_opened_file():
    """replace the file between `open` and whatever follows inside the load function of
    directory(); True iff the up-to-date check it returns notices the replacement"""
    import genshi.template.loader as LM
    build = os.path.join(os.path.dirname(os.path.dirname(os.path.abspath(__file__))), '.build')
    os.makedirs(build, exist_ok=True)
    d = tempfile.mkdtemp(prefix='extract-loader-', dir=build)
    had = 'open' in vars(LM)
    saved = vars(LM).get('open')
    try:
        p = os.path.join(d, 'a.txt')
        with open(p, 'w') as f:
            f.write('one')
        os.utime(p, (1000001, 1000001))

        def racing_open(path, *a, **kw):
            fo = open(path, *a, **kw)
            tmp = path + '.new'
            with open(tmp, 'w') as f:
                f.write('two')
            os.utime(tmp, (1000002, 1000002))
            os.replace(tmp, path)
            return fo
        LM.open = racing_open
        try:
            _, _, fileobj, uptodate = LM.directory(d)('a.txt')
        finally:
            if had:
                LM.open = saved
            else:
                del LM.open
        try:
            content = fileobj.read()
        finally:
            fileobj.close()
        if uptodate is None:
            return True          # never up to date: always re-read
        # stale content remembered as current = the defect
        return not (content == b'one' and uptodate())
    finally:
        shutil.rmtree(d, ignore_errors=True)


GENERATORS = [gen_loader]

"""C12 generators: structured match-template cases, their template source, their model input,
and an independent tree-rewriting reference for the context-free fragment.

A case (JSON-serialisable, canonical):

  {"kids": [item, ...]}                      children of the root element <root>
  item  := node | match
  node  := ["a", [item, ...]]                element (children may declare further match templates)
         | "text"                            text
         | {"for": n, "kids": [item, ...]}   <py:for each="_ in range(n)">…</py:for>
         | {"frag": [node, ...]}             ${fragK}: a markup stream passed as data (generated markup)
         | {"inc": node}                     <xi:include href="incK.xml"/> of a file holding that element (included markup)
  optional "auto_reload": bool              the loader mode: false = static includes are inlined at prepare time,
                                            true = the include is performed at render time
  match := {"match": path, "body": [bitem, ...], "buffer": bool, "once": bool, "recursive": bool}
  bitem := ["w", [bitem, ...]] | "text" | {"sel": spath}

Paths (match): name | * | step/step… with child (/) or descendant (/descendant::) axes, `//`,
optional [n] on a step.  Select paths: . | node() | * | text() | name | *|text().
"""
import json, re

PY_NS = 'http://genshi.edgewall.org/'
DOC_NAMES = ['a', 'b', 'c', 'd']
BODY_NAMES = ['w', 'x', 'a', 'b', 'c']
SELS = ['.', 'node()', '*', 'text()', '*|text()', 'b', 'a']


# --------------------------------------------------------------------------
# paths

def parse_path(p):
    """'a/b//c[2]/descendant::d' -> [(axis, name, pos|None)] with axis in child|desc|dos(//)"""
    steps = []
    toks = re.findall(r'//|/|[^/]+', p)
    axis = 'child'
    for t in toks:
        if t == '/':
            axis = 'child'
            continue
        if t == '//':
            axis = 'dos'
            continue
        m = re.match(r'^(descendant::)?([\w*]+)(?:\[(\d+)\])?$', t)
        if not m:
            raise ValueError(p)
        ax = 'desc' if m.group(1) else axis
        steps.append((ax, m.group(2), int(m.group(3)) if m.group(3) else None))
        axis = 'child'
    return steps


def path_has_pos(p):
    return '[' in p


def path_strategy(p):
    """which genshi strategy class serves this match path (mirrors Path.__init__'s choice)"""
    st = parse_path(p)
    if len(st) == 1 and st[0][0] == 'child':
        return 'single'
    if all(n != '*' and pos is None and ax in ('child', 'desc') for ax, n, pos in st):
        return 'simple'
    return 'generic'


def path_names(p):
    return [n for _, n, _ in parse_path(p)]


# --------------------------------------------------------------------------
# template source

def hint_attrs(t):
    """the hint attributes written on the <py:match> element: the exact spellings in t['attrs']
    when given, else the canonical ones for the booleans"""
    if 'attrs' in t:
        return dict(t['attrs'])
    a = {}
    if not t.get('buffer', True):
        a['buffer'] = 'false'
    if t.get('once', False):
        a['once'] = 'true'
    if not t.get('recursive', True):
        a['recursive'] = 'false'
    return a


def hint_flags(attrs):
    """what the documentation says the attributes mean: buffer/recursive default true, switched off
    by "false"; once default false, switched on by "true" (case-insensitive) -> (buffer, once, recursive)"""
    return (attrs.get('buffer', '').lower() != 'false', attrs.get('once', '').lower() == 'true',
            attrs.get('recursive', '').lower() != 'false')


def set_hints(t, buffer=None, once=None, recursive=None):
    """switch hints of a template dict (drops exact spellings)"""
    t.pop('attrs', None)
    if buffer is not None:
        t['buffer'] = buffer
    if once is not None:
        t['once'] = once
    if recursive is not None:
        t['recursive'] = recursive


def esc(t):
    return t.replace('&', '&amp;').replace('<', '&lt;').replace('>', '&gt;')


def _body_src(items):
    out = []
    for b in items:
        if isinstance(b, str):
            out.append(esc(b))
        elif isinstance(b, dict):
            out.append("${select('%s')}" % b['sel'])
        else:
            inner = _body_src(b[1])
            out.append('<%s>%s</%s>' % (b[0], inner, b[0]))
    return ''.join(out)


def _plain_src(nodes):
    out = []
    for n in nodes:
        if isinstance(n, str):
            out.append(esc(n))
        else:
            out.append('<%s>%s</%s>' % (n[0], _plain_src(n[1]), n[0]))
    return ''.join(out)


def _items_src(items, frags):
    out = []
    for it in items:
        if isinstance(it, str):
            out.append(esc(it))
        elif isinstance(it, dict) and 'match' in it:
            hints = ''.join(' %s="%s"' % (k, esc(v)) for k, v in sorted(hint_attrs(it).items()))
            out.append('<py:match path="%s"%s>%s</py:match>' % (it['match'], hints, _body_src(it['body'])))
        elif isinstance(it, dict) and 'for' in it:
            out.append('<py:for each="_ in range(%d)">%s</py:for>' % (it['for'], _items_src(it['kids'], frags)))
        elif isinstance(it, dict) and 'frag' in it:
            name = 'frag%d' % len(frags)
            frags.append((name, _plain_src(it['frag'])))
            out.append('${%s}' % name)
        elif isinstance(it, dict) and 'inc' in it:
            name = 'inc%d.xml' % len(frags)
            frags.append((name, _plain_src([it['inc']])))
            out.append('<xi:include href="%s"/>' % name)
        else:
            out.append('<%s>%s</%s>' % (it[0], _items_src(it[1], frags), it[0]))
    return ''.join(out)


def build_source(case):
    """-> (template source, [(data name, xml text of the fragment)])"""
    frags = []
    body = _items_src(case['kids'], frags)
    xi = ' xmlns:xi="http://www.w3.org/2001/XInclude"' if any(n.endswith('.xml') for n, _ in frags) else ''
    return '<root xmlns:py="%s"%s>%s</root>' % (PY_NS, xi, body), frags


def _make_template(case):
    """-> (MarkupTemplate object, data factory) for the case"""
    from genshi.template import MarkupTemplate
    from genshi.input import XML
    from genshi.core import Stream
    src, frags = build_source(case)
    files = dict((n, x) for n, x in frags if n.endswith('.xml'))
    if files:
        # included markup: an in-memory loader, in the mode the case asks for
        from genshi.template import TemplateLoader
        from io import StringIO

        def memload(filename):
            if filename not in files:
                raise IOError(filename)
            return filename, filename, StringIO(files[filename]), (lambda: True)
        loader = TemplateLoader([memload], auto_reload=bool(case.get('auto_reload', False)))
        tmpl = MarkupTemplate(src, loader=loader)
    else:
        tmpl = MarkupTemplate(src)

    def data():
        d = {}
        for name, xml in frags:
            if name.endswith('.xml'):
                continue
            # a fresh list-backed stream per render (generated markup)
            d[name] = Stream(list(XML('<f>%s</f>' % xml))[1:-1])
        return d
    return tmpl, data


def _finish(stream, method):
    if method == 'events':
        from harness import evwire
        return ['ok', evwire.stream(stream)]
    return ['ok', stream.render('xml', encoding=None)]


def render_real(case, method='events'):
    """render the case with the staged genshi; returns the canonical outcome"""
    try:
        tmpl, data = _make_template(case)
        return _finish(tmpl.generate(**data()), method)
    except Exception as e:  # noqa
        return ['err', type(e).__name__]


def render_many(case, mode='twice', method='xml'):
    """several renderings of ONE template object (a template is parsed once and rendered per request):
    mode 'twice'       -> three renderings one after the other
    mode 'interleaved' -> one rendering alone, then two renderings whose events are consumed in turns
    returns the list of canonical outcomes, in that order"""
    from genshi.core import Stream
    try:
        tmpl, data = _make_template(case)
    except Exception as e:  # noqa
        return [['err', type(e).__name__]]
    outs = []

    def one():
        try:
            return _finish(tmpl.generate(**data()), method)
        except Exception as e:  # noqa
            return ['err', type(e).__name__]
    outs.append(one())
    if mode == 'twice':
        outs.append(one())
        outs.append(one())
        return outs
    try:
        s1, s2 = iter(tmpl.generate(**data())), iter(tmpl.generate(**data()))
        o1, o2 = [], []
        d1 = d2 = False
        while not (d1 and d2):
            if not d1:
                try:
                    o1.append(next(s1))
                except StopIteration:
                    d1 = True
            if not d2:
                try:
                    o2.append(next(s2))
                except StopIteration:
                    d2 = True
        outs.append(_finish(Stream(o1), method))
        outs.append(_finish(Stream(o2), method))
    except Exception as e:  # noqa
        outs.append(['err', type(e).__name__])
    return outs


# --------------------------------------------------------------------------
# model input: the flattened template stream with registration pseudo-items

def _flat_nodes(nodes, out):
    for n in nodes:
        if isinstance(n, str):
            out.append(['T', n])
        else:
            out.append(['S', n[0]])
            _flat_nodes(n[1], out)
            out.append(['E', n[0]])


def _flat_body(items, out):
    for b in items:
        if isinstance(b, str):
            out.append(['T', b])
        elif isinstance(b, dict):
            out.append(['SEL', b['sel']])
        else:
            out.append(['S', b[0]])
            _flat_body(b[1], out)
            out.append(['E', b[0]])


def _flat_items(items, out):
    for it in items:
        if isinstance(it, str):
            out.append(['T', it])
        elif isinstance(it, dict) and 'match' in it:
            body = []
            _flat_body(it['body'], body)
            a = hint_attrs(it)
            out.append(['REG', it['match'], body, a.get('buffer'), a.get('once'), a.get('recursive')])
        elif isinstance(it, dict) and 'for' in it:
            for _ in range(it['for']):
                _flat_items(it['kids'], out)
        elif isinstance(it, dict) and 'frag' in it:
            _flat_nodes(it['frag'], out)
        elif isinstance(it, dict) and 'inc' in it:
            _flat_nodes([it['inc']], out)
        else:
            out.append(['S', it[0]])
            _flat_items(it[1], out)
            out.append(['E', it[0]])


def flat_items(case):
    """the stream `_match` receives from `_flatten`, as the generator knows it (independent of
    genshi): ['S',name] ['E',name] ['T',text] and ['REG',path,body,buffer,once,recursive] (attribute values or None) at the
    place where the py:match directive registers its template"""
    out = [['S', 'root']]
    _flat_items(case['kids'], out)
    out.append(['E', 'root'])
    return out


# --------------------------------------------------------------------------
# random cases

def rand_path(rng, names, pos_ok=False, kinds=('single', 'simple', 'generic')):
    r = rng.random()
    nm = lambda: rng.choice(names)
    if r < 0.45 or kinds == ('single',):
        p = nm() if rng.random() < 0.85 else '*'
        if pos_ok and rng.random() < 0.5:
            p += '[%d]' % rng.randrange(1, 4)
        return p
    if r < 0.8 and 'simple' in kinds:
        n = rng.choice([2, 2, 3])
        parts = [nm()]
        for _ in range(n - 1):
            parts.append(('/descendant::' if rng.random() < 0.25 else '/') + nm())
        return ''.join(parts)
    if 'generic' in kinds:
        n = rng.choice([2, 2, 3])
        parts = [nm() if rng.random() < 0.7 else '*']
        for _ in range(n - 1):
            parts.append(rng.choice(['/', '/', '//']) + (nm() if rng.random() < 0.7 else '*'))
        p = ''.join(parts)
        if pos_ok and rng.random() < 0.5:
            p += '[%d]' % rng.randrange(1, 3)
        return p
    return nm()


def rand_path_first_pos(rng, names):
    """a multi-step match path with a positional predicate on its FIRST step (`a[2]/b`, `*[1]//b`,
    `a[1]/descendant::b`): served by GenericStrategy, the counter of the first step lives in the root
    frame of the matcher's stack"""
    nm = lambda: rng.choice(names)
    first = (nm() if rng.random() < 0.8 else '*') + '[%d]' % rng.choice([1, 1, 2, 2, 3])
    parts = [first]
    for _ in range(rng.choice([1, 1, 2])):
        parts.append(rng.choice(['/', '/', '//', '/descendant::']) + (nm() if rng.random() < 0.8 else '*'))
    p = ''.join(parts)
    if rng.random() < 0.15:
        p += '[%d]' % rng.choice([1, 2])
    return p


def first_step_positional(p):
    """multi-step path whose first step carries a positional predicate"""
    st = parse_path(p)
    return len(st) > 1 and st[0][2] is not None


def rand_body(rng, shape=None, maxsel=2):
    shape = shape or rng.choice(['wrap', 'wrap', 'drop', 'dup', 'repro', 'const', 'inner', 'wrapself', 'text'])
    sel = lambda: {'sel': rng.choice(SELS)}
    w = rng.choice(BODY_NAMES)
    if shape == 'wrap':
        return [[w, [sel()]]]
    if shape == 'wrapself':
        return [[w, [{'sel': '.'}]]]
    if shape == 'drop':
        return []
    if shape == 'dup':
        if maxsel < 2:
            return [[w, [sel()]]]
        return [sel(), [w, [sel()]]]
    if shape == 'repro':
        return [{'sel': '.'}]
    if shape == 'const':
        return [[w, ['k'] if rng.random() < 0.5 else []]]
    if shape == 'inner':
        return [{'sel': rng.choice(['node()', '*', '*|text()'])}]
    if shape == 'text':
        return ['u', {'sel': 'text()'}]
    raise ValueError(shape)


def body_nsel(body):
    n = 0
    for b in body:
        if isinstance(b, dict):
            n += 1
        elif isinstance(b, list):
            n += body_nsel(b[1])
    return n


def rand_nodes(rng, depth, width, names=DOC_NAMES, text=True):
    out = []
    for _ in range(rng.randrange(0, width + 1)):
        r = rng.random()
        if text and r < 0.2:
            if out and isinstance(out[-1], str):
                continue      # adjacent text would be one TEXT event after parsing
            out.append(rng.choice(['t', 'uu', 'v w']))
        elif depth <= 0:
            out.append([rng.choice(names), []])
        else:
            out.append([rng.choice(names), rand_nodes(rng, depth - 1, width, names, text)])
    return out


def rand_case_dropped_state(rng, pos=False):
    """targeted shape (seeded change C12-1): an earlier *stateful* template (once, or positional when
    `pos`) whose matches also occur inside an element that a later template drops or replaces by a
    constant without calling select(), with and without buffering, and again after that element —
    the dropped content must still have gone through the earlier templates"""
    x, y = rng.sample(DOC_NAMES, 2)
    t0 = {'match': x, 'body': rand_body(rng, rng.choice(['wrap', 'const', 'wrapself'])),
          'buffer': True, 'once': True, 'recursive': True}
    if pos and rng.random() < 0.5:
        t0['once'] = False
        t0['match'] = '%s[%d]' % (x, rng.choice([1, 2]))
    t1 = {'match': y, 'body': rand_body(rng, rng.choice(['drop', 'const', 'const', 'wrap'])),
          'buffer': rng.random() < 0.4, 'once': rng.random() < 0.15, 'recursive': rng.random() < 0.85}
    inner = rand_nodes(rng, 1, 2)
    inner.insert(rng.randrange(0, len(inner) + 1), [x, rand_nodes(rng, 0, 1)])
    if rng.random() < 0.4:
        inner = [[rng.choice(DOC_NAMES), inner]]
    kids = rand_nodes(rng, 1, 2) + [[y, inner]] + rand_nodes(rng, 1, 1) + [[x, rand_nodes(rng, 0, 1)]] + rand_nodes(rng, 1, 2)
    # adjacent text nodes would be one TEXT event after parsing
    merged = []
    for k in kids:
        if isinstance(k, str) and merged and isinstance(merged[-1], str):
            continue
        merged.append(k)
    tmpls = [t0, t1]
    if rng.random() < 0.3:
        tmpls.append({'match': rand_path(rng, DOC_NAMES + ['w', 'x']), 'body': rand_body(rng, maxsel=1),
                      'buffer': True, 'once': False, 'recursive': True})
    return {'kids': tmpls + merged}


def rand_case(rng, ntmpl=None, hints=True, pos=False, late=0.15, kinds=('single', 'simple', 'generic'),
              gen_markup=0.2, maxsel=2, depth=3, width=3, inc=0.0, targeted=0.1):
    if hints and ntmpl is None and set(kinds) == {'single', 'simple', 'generic'} and rng.random() < targeted:
        return rand_case_dropped_state(rng, pos=pos)
    ntmpl = ntmpl or rng.choice([1, 2, 2, 3, 3, 4])
    names = DOC_NAMES + ['w', 'x']
    tmpls = []
    for _ in range(ntmpl):
        body = rand_body(rng, maxsel=maxsel)
        t = {'match': rand_path(rng, names, pos_ok=pos and rng.random() < 0.4, kinds=kinds), 'body': body,
             'buffer': True, 'once': False, 'recursive': True}
        if hints:
            if rng.random() < 0.25:
                t['buffer'] = False
            if rng.random() < 0.2:
                t['once'] = True
            if rng.random() < 0.15:
                t['recursive'] = False
            if rng.random() < 0.3:
                # exact spellings of the attributes, consistent with the booleans
                a = {}
                if not t['buffer']:
                    a['buffer'] = rng.choice(['false', 'False', 'FALSE'])
                elif rng.random() < 0.5:
                    a['buffer'] = rng.choice(['true', 'no', ' false', '', '0'])
                if t['once']:
                    a['once'] = rng.choice(['true', 'True', 'TRUE'])
                elif rng.random() < 0.5:
                    a['once'] = rng.choice(['false', 'yes', 'true ', '', '1'])
                if not t['recursive']:
                    a['recursive'] = rng.choice(['false', 'False', 'FALSE'])
                elif rng.random() < 0.5:
                    a['recursive'] = rng.choice(['true', 'no', 'fals', '', '0'])
                assert hint_flags(a) == (t['buffer'], t['once'], t['recursive'])
                t['attrs'] = a
        tmpls.append(t)
    kids = rand_nodes(rng, depth, width)
    while not any(isinstance(k, list) for k in kids):
        kids = rand_nodes(rng, depth, width)
    if rng.random() < gen_markup:
        # generated markup: wrap one top-level subtree in py:for or pass it as a data stream
        i = rng.choice([j for j, k in enumerate(kids) if isinstance(k, list)])
        if rng.random() < 0.5:
            kids[i] = {'for': rng.choice([1, 2]), 'kids': [kids[i]]}
        else:
            kids[i] = {'frag': [kids[i]]}
    if rng.random() < inc:
        # included markup: a top-level subtree moves into an included file (never inside an element,
        # see known finding C12-include-in-match)
        cand = [j for j, k in enumerate(kids) if isinstance(k, list)]
        if cand:
            i = rng.choice(cand)
            kids[i] = {'inc': kids[i]}
    # declarations first, except a few declared late (after some content, or inside an element)
    head, tail = [], []
    for t in tmpls:
        if rng.random() < late:
            tail.append(t)
        else:
            head.append(t)
    items = head + kids
    for t in tail:
        # somewhere among the top-level children, after at least one child
        j = rng.randrange(len(head) + 1, len(items) + 1)
        items.insert(j, t)
    case = {'kids': items}
    if any(isinstance(k, dict) and 'inc' in k for k in items):
        case['auto_reload'] = rng.random() < 0.5
    return case


def case_templates(case):
    """all match declarations of the case in document order"""
    out = []

    def walk(items):
        for it in items:
            if isinstance(it, dict) and 'match' in it:
                out.append(it)
            elif isinstance(it, dict) and 'for' in it:
                walk(it['kids'])
            elif isinstance(it, list):
                walk(it[1])
    walk(case['kids'])
    return out


def canon(case):
    return json.dumps(case, sort_keys=True)


# --------------------------------------------------------------------------
# independent reference: match templates as a declaration-order pipeline of tree rewrites
# (no streams, no matcher state; paths are evaluated as patterns on ancestor chains).
# Windows are sets of templates by declaration number, never list indices.

def pattern_matches(steps, chain):
    """does the pattern (predicate-free steps) match the element whose ancestor-or-self name
    chain is `chain` (outermost first); the first step may sit at any depth (XSLT pattern)"""
    def m(k, pos):
        ax, name, _ = steps[k]
        if pos < 0 or not (name == '*' or name == chain[pos]):
            return False
        if k == 0:
            return True
        if ax == 'child':
            return m(k - 1, pos - 1)
        return any(m(k - 1, p) for p in range(pos))
    return m(len(steps) - 1, len(chain) - 1)


def ref_select(sel, content):
    name, kids = content
    if sel == '.':
        return [content]
    if sel in ('node()', '*|text()'):
        return list(kids)
    if sel == '*':
        return [k for k in kids if isinstance(k, list)]
    if sel == 'text()':
        return [k for k in kids if isinstance(k, str)]
    return [k for k in kids if isinstance(k, list) and k[0] == sel]


def ref_body(body, content):
    out = []
    for b in body:
        if isinstance(b, str):
            out.append(b)
        elif isinstance(b, dict):
            out.extend(ref_select(b['sel'], content))
        else:
            out.append([b[0], ref_body(b[1], content)])
    return out


class Ref(object):
    def __init__(self, root_visible=False):
        self.reg = []          # registered templates in declaration order: dicts with 'seq'
        self.nseq = 0
        self.fired = {}        # seq -> number of elements replaced
        self.root_visible = root_visible
        self.budget = 20000

    def rw(self, items, anc, lo, hi, out):
        """rewrite a forest; window = templates with lo <= seq < hi (hi None = unbounded)"""
        for it in items:
            self.budget -= 1
            if self.budget < 0:
                raise RecursionError('reference budget')
            if isinstance(it, str):
                out.append(it)
            elif isinstance(it, dict) and 'match' in it:
                t = dict(it)
                t['seq'] = self.nseq
                t['steps'] = parse_path(it['match'])
                self.nseq += 1
                self.reg.append(t)
            elif isinstance(it, dict) and 'for' in it:
                for _ in range(it['for']):
                    self.rw(it['kids'], anc, lo, hi, out)
            elif isinstance(it, dict) and 'frag' in it:
                self.rw(it['frag'], anc, lo, hi, out)
            elif isinstance(it, dict) and 'inc' in it:
                self.rw([it['inc']], anc, lo, hi, out)
            else:
                self.element(it, anc, lo, hi, out)

    def element(self, el, anc, lo, hi, out):
        name, kids = el
        chain = anc + [name]
        found = None
        for t in self.reg:
            if t['seq'] < lo or (hi is not None and t['seq'] >= hi):
                continue
            if pattern_matches(t['steps'], chain):
                found = t
                break
        if found is None:
            sub = []
            self.rw(kids, chain, lo, hi, sub)
            out.append([name, sub])
            return
        t = found
        self.fired[t['seq']] = self.fired.get(t['seq'], 0) + 1
        once = t.get('once', False)
        if once:
            self.reg.remove(t)
        inner_hi = t['seq'] + 1
        if once or not t.get('recursive', True):
            inner_hi = t['seq']
        sub = []
        self.rw(kids, chain, lo, inner_hi, sub)
        body_out = ref_body(t['body'], [name, sub])
        # the body's output is rewritten by the templates declared after t, in the place of el
        self.rw(body_out, anc, t['seq'] + 1, hi, out)


def ser(nodes):
    out = []
    for n in nodes:
        if isinstance(n, str):
            out.append(esc(n))
        elif n[1]:
            out.append('<%s>%s</%s>' % (n[0], ser(n[1]), n[0]))
        else:
            out.append('<%s/>' % n[0])
    return ''.join(out)


def reference(case, root_visible=False):
    """-> (['ok', xml text] | ['err', name], fired: {seq: count})"""
    r = Ref(root_visible)
    out = []
    try:
        r.rw(case['kids'], ['root'] if root_visible else [], 0, None, out)
    except RecursionError:
        return ['err', 'budget'], r.fired
    return ['ok', '<root>%s</root>' % ser(out) if out else '<root/>'], r.fired


# --------------------------------------------------------------------------
# wire form of the model input (see lean/Driver/C12.lean)

SEL_WIRE = {'.': ['dot'], 'node()': ['node'], '*': ['elems'], 'text()': ['text'], '*|text()': ['nodeText']}


def wire_spec(path):
    """the tiny-matcher spec of a match path, or None when the path is outside the modelled
    fragment (GenericStrategy paths)"""
    from harness.proto import Atom, N
    st = parse_path(path)
    kind = path_strategy(path)
    if kind == 'single':
        ax, name, pos = st[0]
        return [Atom('one'), N if name == '*' else name, N if pos is None else pos]
    if kind == 'simple':
        frags = [[]]
        for i, (ax, name, pos) in enumerate(st):
            if ax == 'desc' and i > 0:
                frags.append([])
            frags[-1].append(name)
        return [Atom('chain'), frags]
    if any(pos is not None for _, _, pos in st):
        return None      # GenericStrategy with positional predicates: counter packs are not modelled
    # GenericStrategy, predicate-free: the steps as the parser and test(ignore_context=True) build them
    steps = []
    for i, (ax, name, pos) in enumerate(st):
        test = Atom('any') if name == '*' else [Atom('name'), name]
        if ax == 'dos':
            steps.append([Atom('dos'), Atom('node')])
            steps.append([Atom('child'), test])
        else:
            steps.append([Atom('desc' if ax == 'desc' else 'child'), test])
    steps[0][0] = Atom('dos')
    return [Atom('generic'), steps]


def wire_items(case):
    from harness.proto import Atom
    out = []
    for it in flat_items(case):
        k = it[0]
        if k in ('S', 'E', 'T'):
            out.append([Atom(k), it[1]])
        else:
            _, path, body, buf, once, rec = it
            spec = wire_spec(path)
            if spec is None:
                return None
            wb = []
            for b in body:
                if b[0] == 'SEL':
                    w = SEL_WIRE.get(b[1])
                    wb.append([Atom('SEL')] + ([Atom(w[0])] if w else [Atom('named'), b[1]]))
                else:
                    wb.append([Atom(b[0]), b[1]])
            out.append([Atom('REG'), spec, wb, buf, once, rec])
    return out


def real_simple_events(case):
    """real output events reduced to the wire vocabulary of the C12 driver"""
    r = render_real(case, 'events')
    if r[0] != 'ok':
        return r
    out = []
    for e in r[1]:
        k = e[0]
        if k == 'S':
            if e[1][0] or e[2]:
                return ['err', 'unexpected-ns-or-attrs']
            out.append([k, e[1][1]])
        elif k == 'E':
            out.append([k, e[1][1]])
        elif k == 'T':
            out.append([k, e[1]])
        else:
            return ['err', 'unexpected-kind']
    return ['ok', out]


# --------------------------------------------------------------------------
# the documented reading: "a match template defined after another match template is applied to
# the output generated by the first … the match templates basically form a pipeline":
# stage k rewrites the whole output of stage k-1.  Declarations must all precede the content.

def expand_plain(items):
    """content items with py:for unrolled and data fragments spliced (no declarations inside)"""
    out = []
    for it in items:
        if isinstance(it, str):
            out.append(it)
        elif isinstance(it, dict) and 'for' in it:
            for _ in range(it['for']):
                out.extend(expand_plain(it['kids']))
        elif isinstance(it, dict) and 'frag' in it:
            out.extend(expand_plain(it['frag']))
        elif isinstance(it, dict) and 'inc' in it:
            out.extend(expand_plain([it['inc']]))
        elif isinstance(it, dict):
            raise ValueError('declaration inside content')
        else:
            out.append([it[0], expand_plain(it[1])])
    return out


def reference_staged(case):
    """-> (['ok', xml] | ['na', why], fired per template) — pipeline of whole-document stages"""
    kids = case['kids']
    n = 0
    while n < len(kids) and isinstance(kids[n], dict) and 'match' in kids[n]:
        n += 1
    tmpls = [dict(t, steps=parse_path(t['match'])) for t in kids[:n]]
    try:
        forest = expand_plain(kids[n:])
    except ValueError as e:
        return ['na', str(e)], {}
    fired = {}
    budget = [20000]

    def stage(k, t, nodes, anc, live):
        out = []
        for nd in nodes:
            budget[0] -= 1
            if budget[0] < 0:
                raise RecursionError()
            if isinstance(nd, str):
                out.append(nd)
                continue
            name, ks = nd
            chain = anc + [name]
            if live[0] and pattern_matches(t['steps'], chain):
                fired[k] = fired.get(k, 0) + 1
                if t.get('once', False):
                    live[0] = False
                if t.get('recursive', True) and not t.get('once', False):
                    ks = stage(k, t, ks, chain, live)
                out.extend(ref_body(t['body'], [name, ks]))
            else:
                out.append([name, stage(k, t, ks, chain, live)])
        return out

    try:
        for k, t in enumerate(tmpls):
            forest = stage(k, t, forest, [], [True])
    except RecursionError:
        return ['na', 'budget'], fired
    return ['ok', '<root>%s</root>' % ser(forest) if forest else '<root/>'], fired

"""Seeded generators of documents (trees / event streams) and XPath expressions of the
subset genshi documents.  Shared: C05, C17 use it directly; C12 (match templates) and C20
(transformer) import it for their paths and documents.  Keep the public names stable.

Documents are JSON-able trees:
    {"e": [ns, local], "a": [[ns, local, value], ...], "k": [node, ...]}     element
    {"t": text} | {"c": text} | {"p": [target, data]}                        text / comment / PI

Public API (everything takes a `random.Random`):
    rand_doc(rng, size=7, deep=False)          -> tree (one root element)
    all_shapes(n)                              -> every unlabeled ordered tree shape with n nodes
    doc_events(tree, ns_events=False)          -> list of genshi events (positions (None,-1,-1))
    doc_events_spans(tree, ns_events=False)    -> (events, {node path: (first, last) index of its events})
    doc_xml(tree)                              -> XML text of the tree (for messages / findings)
    doc_size(tree), doc_depth(tree)
    rand_path(rng, profile=FULL, steps=None)   -> path text (a union of location paths)
    rand_locpath(rng, profile)                 -> one location path text
    rand_path_for(rng, doc, profile)           -> a path aimed at a random node of `doc` (often non-empty result)
    rand_pred(rng, profile, depth=2)           -> predicate expression text (without brackets)
    rand_outside(rng)                          -> (text, why): XPath 1.0 outside the documented subset
    NSMAP, VARS                                -> the prefix map and variable bindings the paths assume
    SIMPLE, STRUCT, FULL, TYPED                -> profiles (dict of switches, see below)

Nothing here imports genshi at module level.
"""
import re

NAMES = ['a', 'b', 'c']
NSS = ['', '', '', 'urn:x', 'urn:y']
NSMAP = {'x': 'urn:x', 'y': 'urn:y'}
ATTR_NAMES = ['n', 'm', 'id']
NUM_VALUES = ['1', '2', '3', '10', '2.5', '02', ' 2 ', '-1', '0', '+2', '1e1', '.5', '5.', '0.50']
STR_VALUES = ['', 'abc', 'a b', 'b', 'foo bar', ' x  y ', 'A', 'true', 'é']
TEXTS = ['t', 'foo', ' ', '1', 'a b']
VARS = {'s': 'abc', 'n': 2.0, 't': True, 'e': ''}

# profiles: which constructs the path generator may use
SIMPLE = dict(axes=('child', 'descendant', 'descendant-or-self', 'self'), attr_step=True, preds=0.0,
              kinds=('name', 'name', 'name', 'text', 'comment'), union=0.1, positional=False, funcs=False,
              ns=False, maxsteps=4)
STRUCT = dict(axes=('child', 'child', 'descendant', 'descendant-or-self', 'self'), attr_step=True, preds=0.35,
              kinds=('name', 'name', 'name', '*', 'text', 'comment', 'node', 'pi', 'qname', 'q*'), union=0.15,
              positional=True, funcs=False, ns=True, maxsteps=4)
FULL = dict(STRUCT, funcs=True, preds=0.5)
# TYPED: the fragment on which genshi's predicate values are claimed to be XPath's (see Props/C05.lean)
TYPED = dict(FULL, typed=True)


# --------------------------------------------------------------------------
# documents

def _rand_attrs(rng):
    out, used = [], set()
    for _ in range(rng.choice([0, 0, 1, 1, 2, 3])):
        ns = rng.choice(['', '', '', 'urn:x'])
        name = rng.choice(ATTR_NAMES)
        if (ns, name) in used:
            continue
        used.add((ns, name))
        val = rng.choice(NUM_VALUES) if rng.random() < 0.6 else rng.choice(STR_VALUES)
        out.append([ns, name, val])
    return out


def _rand_leaf(rng):
    r = rng.random()
    if r < 0.55:
        return {'t': rng.choice(TEXTS)}
    if r < 0.8:
        return {'c': rng.choice(['c', ' x ', ''])}
    return {'p': [rng.choice(['php', 'py']), rng.choice(['x', 'echo 1', ''])]}


def rand_doc(rng, size=7, deep=False):
    """a random tree with about `size` nodes; `deep` biases towards chains of repeated names"""
    budget = [max(1, size)]
    names = NAMES if not deep else ['a', 'a', 'b']

    def elem(depth):
        budget[0] -= 1
        n = {'e': [rng.choice(NSS) if not deep else '', rng.choice(names)], 'a': _rand_attrs(rng), 'k': []}
        want = rng.choice([0, 1, 1, 2, 3]) if not deep else rng.choice([1, 1, 2])
        prev_text = False
        for _ in range(want):
            if budget[0] <= 0:
                break
            if rng.random() < (0.3 if not deep else 0.1):
                leaf = _rand_leaf(rng)
                if 't' in leaf and prev_text:
                    continue          # the parser never delivers two adjacent text nodes
                prev_text = 't' in leaf
                budget[0] -= 1
                n['k'].append(leaf)
            else:
                prev_text = False
                n['k'].append(elem(depth + 1))
        return n

    root = elem(0)
    return root


def all_shapes(n):
    """all ordered tree shapes with exactly n element nodes, as nested lists of children"""
    if n == 1:
        return [[]]
    out = []

    def forests(m):
        # all ordered forests with m nodes in total
        if m == 0:
            return [[]]
        res = []
        for first in range(1, m + 1):
            for t in all_shapes(first):
                for rest in forests(m - first):
                    res.append([t] + rest)
        return res
    for f in forests(n - 1):
        out.append(f)
    return out


def label_shape(shape, rng):
    """turn a shape (nested lists) into a labelled tree"""
    return {'e': [rng.choice(NSS), rng.choice(NAMES)], 'a': _rand_attrs(rng),
            'k': [label_shape(s, rng) for s in shape]}


def doc_size(t):
    return 1 + sum(doc_size(k) for k in t.get('k', [])) if 'e' in t else 1


def doc_depth(t):
    return 1 + max([doc_depth(k) for k in t.get('k', [])] or [0]) if 'e' in t else 0


def _esc(s, quot=False):
    s = s.replace('&', '&amp;').replace('<', '&lt;').replace('>', '&gt;')
    for ch in '\t\n\r':
        s = s.replace(ch, '&#%d;' % ord(ch))
    return s.replace('"', '&quot;') if quot else s


def doc_xml(t):
    """readable XML for messages (namespaces as explicit xmlns declarations on every element)"""
    if 't' in t:
        return _esc(t['t'])
    if 'c' in t:
        return '<!--%s-->' % t['c']
    if 'p' in t:
        return '<?%s %s?>' % (t['p'][0], t['p'][1])
    ns, name = t['e']
    parts = [name]
    if ns:
        parts.append('xmlns="%s"' % ns)
    pfx = {}
    for ans, an, av in t.get('a', []):
        if ans:
            p = pfx.setdefault(ans, 'p%d' % len(pfx))
            parts.append('xmlns:%s="%s"' % (p, ans))
            parts.append('%s:%s="%s"' % (p, an, _esc(av, True)))
        else:
            parts.append('%s="%s"' % (an, _esc(av, True)))
    kids = ''.join(doc_xml(k) for k in t.get('k', []))
    if kids:
        return '<%s>%s</%s>' % (' '.join(parts), kids, name)
    return '<%s/>' % ' '.join(parts)


def doc_events_spans(t, ns_events=False, prolog=None):
    """(events, spans): the genshi event stream of the tree (what the XML parser would deliver,
    positions blank) and, for every node given by its tuple of child indexes, the slice
    (first, last) of its own events (START..END for an element, without the namespace events
    that wrap it)"""
    from genshi.core import QName, Attrs, START, END, TEXT, COMMENT, PI, START_NS, END_NS
    pos = (None, -1, -1)
    out = []
    spans = {}

    def q(ns, name):
        return QName('{%s}%s' % (ns, name) if ns else name)

    def go(n, inherited, path):
        if 't' in n:
            spans[path] = (len(out), len(out))
            out.append((TEXT, n['t'], pos))
        elif 'c' in n:
            spans[path] = (len(out), len(out))
            out.append((COMMENT, n['c'], pos))
        elif 'p' in n:
            spans[path] = (len(out), len(out))
            out.append((PI, (n['p'][0], n['p'][1]), pos))
        else:
            ns, name = n['e']
            decl = ns_events and ns and ns != inherited
            if decl:
                out.append((START_NS, ('', ns), pos))
            tag = q(ns, name)
            first = len(out)
            out.append((START, (tag, Attrs([(q(a[0], a[1]), a[2]) for a in n.get('a', [])])), pos))
            for i, k in enumerate(n.get('k', [])):
                go(k, ns if decl else inherited, path + (i,))
            spans[path] = (first, len(out))
            out.append((END, tag, pos))
            if decl:
                out.append((END_NS, '', pos))
    for p in prolog or []:
        go(p, '', ('prolog',))
    go(t, '', ())
    return out, spans


def doc_events(t, ns_events=False, prolog=None):
    """the genshi event stream of the tree"""
    return doc_events_spans(t, ns_events, prolog)[0]


# --------------------------------------------------------------------------
# paths

def _lit(rng, s):
    if '"' in s:
        return "'%s'" % s
    if "'" in s:
        return '"%s"' % s
    return rng.choice(['"%s"', "'%s'"]) % s


def _attr_ref(rng, profile):
    r = rng.random()
    if profile.get('ns') and r < 0.1:
        return '@x:%s' % rng.choice(ATTR_NAMES)
    if profile.get('ns') and r < 0.15:
        return '@x:*'
    if r < 0.25 and not profile.get('typed_single'):
        return '@*'
    return '@' + rng.choice(ATTR_NAMES)


def _string_expr(rng, profile, depth, elem_ctx=True):
    """an expression of XPath type string (or a node-set used as one)"""
    r = rng.random()
    if depth <= 0 or r < 0.3:
        return _lit(rng, rng.choice(STR_VALUES + NUM_VALUES + NAMES))
    if r < 0.55:
        return _attr_ref(rng, profile)
    if r < 0.62 and elem_ctx:
        return rng.choice(['name()', 'local-name()', 'namespace-uri()'])
    if r < 0.66:
        return '$s' if rng.random() < 0.7 else '$e'
    if not profile.get('funcs'):
        return _lit(rng, rng.choice(STR_VALUES))
    f = rng.choice(['concat', 'normalize-space', 'substring-before', 'substring-after', 'translate'])
    a = lambda: _string_expr(rng, profile, depth - 1, elem_ctx)
    if f == 'concat':
        return 'concat(%s)' % ', '.join(a() for _ in range(rng.choice([2, 2, 3])))
    if f == 'normalize-space':
        return 'normalize-space(%s)' % a()
    if f == 'translate':
        return 'translate(%s, %s, %s)' % (a(), _lit(rng, rng.choice(['ab', 'abc', 'a', 'ba', ' '])),
                                          _lit(rng, rng.choice(['AB', 'xy', 'A', '', 'x'])))
    return '%s(%s, %s)' % (f, a(), _lit(rng, rng.choice(['a', 'b', ' ', 'oo', '.', ''])))


def _number_expr(rng, profile, depth, elem_ctx=True):
    r = rng.random()
    if depth <= 0 or r < 0.4:
        return rng.choice(['1', '2', '3', '10', '2.5', '.5', '0', '2.0', '1.50'])
    if r < 0.5:
        return '$n'
    if not profile.get('funcs'):
        return rng.choice(['1', '2', '3'])
    f = rng.choice(['number', 'floor', 'ceiling', 'round', 'string-length'])
    if f == 'string-length':
        return 'string-length(%s)' % _string_expr(rng, profile, depth - 1, elem_ctx)
    if f == 'number':
        return 'number(%s)' % rng.choice([_attr_ref(rng, profile), _lit(rng, rng.choice(NUM_VALUES + ['abc', '']))])
    arg = rng.choice([_attr_ref(rng, profile), _lit(rng, rng.choice(['2.5', '3.5', '-0.5', '1.2', '4', 'x'])),
                      rng.choice(['2.5', '0.5', '1.5', '3'])])
    return '%s(%s)' % (f, arg)


def _bool_expr(rng, profile, depth, elem_ctx=True):
    r = rng.random()
    S = lambda: _string_expr(rng, profile, depth - 1, elem_ctx)
    N = lambda: _number_expr(rng, profile, depth - 1, elem_ctx)
    Bx = lambda: _bool_expr(rng, profile, depth - 1, elem_ctx)
    if depth <= 0 or r < 0.22:
        return _attr_ref(rng, profile)
    if r < 0.40:
        op = rng.choice(['=', '=', '!='])
        l, rr = _attr_ref(rng, profile), rng.choice([_lit(rng, rng.choice(STR_VALUES + NUM_VALUES)),
                                                      rng.choice(['1', '2', '2.5', '10', '2.0'])])
        if rng.random() < 0.2:
            l, rr = rr, l
        return '%s%s%s' % (l, rng.choice([op, ' %s ' % op]), rr)
    if r < 0.55:
        op = rng.choice(['<', '<=', '>', '>='])
        l = rng.choice([_attr_ref(rng, profile), N()])
        rr = rng.choice([N(), _attr_ref(rng, profile), _lit(rng, rng.choice(NUM_VALUES + ['abc']))])
        if profile.get('funcs') and rng.random() < 0.15:
            # a boolean operand: only a node set is converted to a boolean, then numbers are compared
            b = rng.choice(['true()', 'false()', 'not(%s)' % _attr_ref(rng, profile), '$t'])
            if rng.random() < 0.5:
                l = b
            else:
                rr = b
        return '%s%s%s' % (l, rng.choice([op, ' %s ' % op]), rr)
    if r < 0.63:
        return '%s %s %s' % (Bx(), rng.choice(['and', 'or']), Bx())
    if r < 0.68:
        return '(%s)' % Bx()
    if r < 0.73:
        return '%s=%s' % (S(), S())
    if r < 0.76:
        return '$t'
    if not profile.get('funcs'):
        return 'not(%s)' % _attr_ref(rng, profile)
    f = rng.choice(['not', 'not', 'boolean', 'true', 'false', 'contains', 'starts-with'])
    if f in ('true', 'false'):
        return f + '()'
    if f in ('contains', 'starts-with'):
        return '%s(%s, %s)' % (f, S(), _lit(rng, rng.choice(['a', 'b', '', '1', ' ', 'ab'])))
    if f == 'boolean':
        return 'boolean(%s)' % rng.choice([S(), Bx(), N()])
    return 'not(%s)' % Bx()


def rand_pred(rng, profile, depth=2, elem_ctx=True):
    """a predicate expression; positional with some probability"""
    if profile.get('positional') and rng.random() < 0.3:
        if profile.get('funcs') and rng.random() < 0.15:
            return _number_expr(rng, profile, 1, elem_ctx)
        return rng.choice(['1', '1', '2', '2', '3', '4'])
    return _bool_expr(rng, profile, depth, elem_ctx)


def _node_test(rng, profile, axis):
    k = rng.choice(profile['kinds'])
    if k == 'name':
        return rng.choice(NAMES), True
    if k == '*':
        return '*', True
    if k == 'qname':
        return '%s:%s' % (rng.choice(['x', 'y']), rng.choice(NAMES)), True
    if k == 'q*':
        return '%s:*' % rng.choice(['x', 'y']), True
    if k == 'pi':
        return rng.choice(['processing-instruction()', 'processing-instruction("php")',
                           "processing-instruction('py')"]), False
    return k + '()', False


def rand_locpath(rng, profile=FULL, steps=None):
    n = steps or rng.choice([1, 1, 2, 2, 3, 4][:max(1, profile.get('maxsteps', 4) + 2)])
    n = min(n, profile.get('maxsteps', 4))
    out = []
    i = 0
    while i < n:
        last = i == n - 1
        if last and profile.get('attr_step') and rng.random() < 0.12:
            r = rng.random()
            name = rng.choice(ATTR_NAMES) if r < 0.7 else ('*' if r < 0.85 or not profile.get('ns') else rng.choice(['x:n', 'x:*']))
            step = rng.choice(['@' + name, 'attribute::' + name])
            sep = rng.choice(['/', '/', '/', '//'])
        else:
            axis = rng.choice(profile['axes'])
            test, is_elem = _node_test(rng, profile, axis)
            sep = '/'
            if axis == 'child':
                step = rng.choice([test, test, 'child::' + test])
            elif axis == 'self' and test == 'node()' and rng.random() < 0.7:
                step = '.'
            elif axis == 'descendant-or-self' and rng.random() < 0.6:
                # abbreviated: //test  ==  descendant-or-self::node()/child::test  (inner)
                #              leading //test is genshi's descendant-or-self::test
                sep, step = '//', test
            else:
                step = '%s::%s' % (axis, test)
            k = 0
            while rng.random() < profile.get('preds', 0) and k < 2:
                step += '[%s]' % rand_pred(rng, profile, 2, is_elem)
                k += 1
        if i == 0:
            out.append(('//' if sep == '//' else rng.choice(['', '', './'] if sep == '/' else [''])) + step)
        else:
            out.append(sep + step)
        i += 1
    text = ''.join(out)
    if rng.random() < 0.05:
        text = ' ' + re.sub(r'(//|/|\[|\])', lambda m: ' %s ' % m.group(1), text) + ' '
    return text


def rand_path(rng, profile=FULL, steps=None):
    t = rand_locpath(rng, profile, steps)
    while rng.random() < profile.get('union', 0):
        t += rng.choice(['|', ' | ']) + rand_locpath(rng, profile, steps)
    return t


def _pred_for(rng, node, profile):
    """a predicate that has a fair chance of holding for `node` (an element)"""
    attrs = node.get('a', [])
    r = rng.random()
    if attrs and r < 0.5:
        ns, name, val = rng.choice(attrs)
        ref = '@%s' % name if not ns else '@x:%s' % name
        if ns and not profile.get('ns'):
            ref = '@*'
        k = rng.random()
        if k < 0.3:
            return ref
        if k < 0.6 and '"' not in val:
            return '%s="%s"' % (ref, val)
        try:
            f = float(val)
            op = rng.choice(['=', '>=', '<=', '<', '>', '!='])
            return '%s%s%s' % (ref, op, rng.choice(['%g' % f, '%g' % (f + 1), '%g' % (f - 1)]).replace('-', '0') )
        except ValueError:
            if profile.get('funcs') and val:
                return rng.choice(['contains(%s, "%s")' % (ref, val[:1]), 'starts-with(%s, "%s")' % (ref, val[:2]),
                                   'string-length(%s)=%d' % (ref, len(val)), 'not(%s="zz")' % ref])
            return ref
    return rand_pred(rng, profile, 2, True)


def rand_locpath_for(rng, doc, profile=FULL):
    """a location path aimed at a random node of `doc` (so that results are often non-empty)"""
    chain = [doc]
    while 'e' in chain[-1] and chain[-1].get('k') and rng.random() < 0.75:
        chain.append(rng.choice(chain[-1]['k']))
    steps = []
    i = 0          # chain[i] is the current context node
    first = True
    guard = 0
    while i < len(chain) - 1 or first:
        guard += 1
        if guard > 8 or len(steps) >= profile.get('maxsteps', 4):
            break
        remaining = len(chain) - 1 - i
        axes = [a for a in profile['axes']]
        axis = rng.choice(axes)
        if remaining == 0:
            axis = rng.choice(['self', 'descendant-or-self'])
        if axis == 'child':
            j = i + 1
        elif axis == 'descendant':
            j = rng.randint(i + 1, len(chain) - 1)
        elif axis == 'descendant-or-self':
            j = rng.randint(i, len(chain) - 1)
        else:
            j = i
        node = chain[j]
        if 'e' in node:
            ns, name = node['e']
            opts = [name, name, '*', 'node()']
            if ns and profile.get('ns'):
                pf = [k for k, v in NSMAP.items() if v == ns]
                if pf:
                    opts += ['%s:%s' % (pf[0], name), '%s:*' % pf[0]]
            test = rng.choice(opts)
        elif 't' in node:
            test = rng.choice(['text()', 'text()', 'node()'])
        elif 'c' in node:
            test = rng.choice(['comment()', 'comment()', 'node()'])
        else:
            test = rng.choice(['processing-instruction()', 'processing-instruction("%s")' % node['p'][0], 'node()'])
        if 'node()' in profile['kinds'] or test != 'node()':
            pass
        allowed = set(profile['kinds'])
        if test == 'node()' and 'node' not in allowed:
            test = node['e'][1] if 'e' in node else 'text()'
        if test == '*' and '*' not in allowed:
            test = node['e'][1]
        if test.startswith('processing') and 'pi' not in allowed:
            break
        sep = '/'
        if axis == 'child':
            step = rng.choice([test, test, 'child::' + test])
        elif axis == 'self' and test == 'node()' and rng.random() < 0.7:
            step = '.'
        elif axis == 'descendant-or-self' and rng.random() < 0.5 and (steps or j > i or True):
            sep, step = '//', test
        else:
            step = '%s::%s' % (axis, test)
        k = 0
        while rng.random() < profile.get('preds', 0) and k < 2:
            if 'e' in node and rng.random() < 0.7:
                step += '[%s]' % _pred_for(rng, node, profile)
            else:
                step += '[%s]' % rand_pred(rng, profile, 2, 'e' in node)
            k += 1
        if first:
            steps.append(('//' if sep == '//' else rng.choice(['', '', './'])) + step)
        else:
            steps.append(sep + step)
        first = False
        if sep == '//' and len(steps) > 1 and j == i:
            pass
        i = j
        if i == len(chain) - 1 and rng.random() < 0.6:
            break
    if not steps:
        return rand_locpath(rng, profile)
    last = chain[i]
    if profile.get('attr_step') and 'e' in last and last.get('a') and rng.random() < 0.15 \
            and len(steps) < profile.get('maxsteps', 4):
        a = rng.choice(last['a'])
        steps.append('/@' + (a[1] if not a[0] else ('x:' + a[1] if profile.get('ns') else '*')))
    return ''.join(steps)


def rand_fragpath(rng, with_tests=False):
    """a path SimplePathStrategy supports with 2-3 fragments over the names of the deep documents
    (`a` twice as likely as `b`, so that fragments overlap themselves: `a/a/b`, and some long enough
    for a border of a border: `a/a/b/a/a/a`), entered through descendant:: / descendant-or-self::,
    sometimes with a `self::` step or a final attribute / text() step"""
    names = ['a', 'a', 'b']
    out = ''
    frs = []
    nfr = rng.choice([2, 2, 3])
    for k in range(nfr):
        tests = [rng.choice(names) for _ in range(rng.choice([1, 2, 2, 3, 3, 5, 6]))]
        steps = []
        for j, t in enumerate(tests):
            steps.append(t)
            if rng.random() < 0.05:
                steps.append('self::' + (t if rng.random() < 0.8 else rng.choice(names)))
        if k == nfr - 1 and rng.random() < 0.12:
            steps.append(rng.choice(['text()', 'comment()']))
            tests = tests + [steps[-1]]
        body = '/'.join(steps)
        if k == 0:
            lead = rng.choice(['', '', '', 'self::', 'descendant::', '//', 'descendant-or-self::'])
            out = lead + body
        else:
            out += '/' + rng.choice(['descendant::', 'descendant::', 'descendant-or-self::']) + body
        frs.append(tests)
    if rng.random() < 0.1:
        out += '/@' + rng.choice(ATTR_NAMES)
    return (out, frs) if with_tests else out


def chain_doc(rng, frs):
    """a document that is (mostly) one chain of nested elements spelled from the fragments themselves:
    for each fragment some junk, a proper prefix of the fragment, then the whole fragment — the text on
    which a KMP matcher has to fall back inside a partial match; a few side branches"""
    seq = []
    for f in frs:
        for _ in range(rng.choice([0, 0, 1, 2])):
            seq.append(rng.choice(['a', 'a', 'b']))
        names = [x for x in f if not x.endswith(')')]
        if len(names) > 1 and rng.random() < 0.8:
            seq.extend(names[:rng.randrange(1, len(names))])
        seq.extend(names)
    leaf = None
    if frs and frs[-1] and frs[-1][-1].endswith(')'):
        leaf = {'t': 'x'} if frs[-1][-1] == 'text()' else {'c': 'x'}
    seq = seq[:24]
    if rng.random() < 0.5:
        seq = [rng.choice(['a', 'b'])] + seq       # the context node
    node = None
    for name in reversed(seq):
        kids = [] if node is None else [node]
        if node is None and leaf is not None:
            kids = [leaf]
        if rng.random() < 0.15:
            kids.append({'e': ['', rng.choice(['a', 'b'])], 'a': _rand_attrs(rng), 'k': []})
        node = {'e': ['', name], 'a': _rand_attrs(rng), 'k': kids}
    return node if node is not None else {'e': ['', 'a'], 'a': [], 'k': []}


def rand_fragcase(rng):
    """(document, path) aimed at SimplePathStrategy's hand-over between fragments and its KMP fall-back"""
    text, frs = rand_fragpath(rng, with_tests=True)
    if rng.random() < 0.5:
        return chain_doc(rng, frs), text
    return rand_doc(rng, rng.choice([9, 12, 16]), deep=True), text


def rand_path_for(rng, doc, profile=FULL):
    t = rand_locpath_for(rng, doc, profile)
    while rng.random() < profile.get('union', 0):
        t += rng.choice(['|', ' | ']) + (rand_locpath_for(rng, doc, profile) if rng.random() < 0.7
                                         else rand_locpath(rng, profile))
    return t


OUTSIDE = [
    ('parent::a', 'axis'), ('a/parent::b', 'axis'), ('ancestor::a', 'axis'), ('a/ancestor-or-self::*', 'axis'),
    ('following-sibling::a', 'axis'), ('preceding-sibling::a', 'axis'), ('following::a', 'axis'),
    ('preceding::a', 'axis'), ('namespace::a', 'axis'), ('..', 'parent'), ('a/..', 'parent'), ('../a', 'parent'),
    ('/a', 'absolute'), ('/', 'absolute'), ('/a/b', 'absolute'),
    ('a[count(@n)]', 'function'), ('a[last()]', 'function'), ('a[position()=1]', 'function'),
    ('a[string(@n)="1"]', 'function'), ('a[sum(@n)]', 'function'), ('a[lang("en")]', 'function'),
    ('a[id("x")]', 'function'), ('a[position()<3]', 'function'),
    ('a[1+1]', 'arithmetic'), ('a[@n - 1]', 'arithmetic'), ('a[@n div 2=1]', 'arithmetic'),
    ('a[@n mod 2=1]', 'arithmetic'), ('a[2 - 1]', 'arithmetic'), ('a[2*3]', 'arithmetic'),
    ('a[b/c]', 'path-in-predicate'), ('a[.="1"]', 'path-in-predicate'), ('a[text()]', 'path-in-predicate'),
    ('a[@n/b]', 'path-in-predicate'), ('a[.//b]', 'path-in-predicate'),
    ('a/@n[.="1"]', 'attribute-predicate'),
]

# XPath 1.0 outside the documented subset that genshi ACCEPTS and evaluates differently
# (finding C05-outside-not-rejected lists the first of each class as witness); used for the
# model-vs-code correspondence only, the oracle does not generate them
OUTSIDE_ACCEPTED = [
    ('a[b]', 'path-in-predicate'), ('a[b="1"]', 'path-in-predicate'), ('a[*]', 'path-in-predicate'),
    ('a[not(b)]', 'path-in-predicate'),
    ('@n/a', 'attribute-not-last'), ('a/@n/b', 'attribute-not-last'),
    ('a[-1]', 'arithmetic'), ('a[@n*2=4]', 'arithmetic'),
]


def rand_outside(rng):
    """an XPath 1.0 expression outside the documented subset, with the reason class"""
    return rng.choice(OUTSIDE)

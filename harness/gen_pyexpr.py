"""Grammar-based generators of Python expressions / statements (as `ast` trees, turned into
source by CPython's own `ast.unparse`), the canonical wire form of `ast` trees shared with the
Lean model (`Genshi.Py`), token streams, and a corpus reader (stdlib + genshi sources).

Everything random derives from the `random.Random` handed in."""
import ast, glob, io, keyword, os, sysconfig, tokenize
from harness.proto import Atom

N = Atom('N')

BINOPS = [(ast.Add, '+'), (ast.Sub, '-'), (ast.Mult, '*'), (ast.Div, '/'), (ast.Mod, '%'), (ast.Pow, '**'),
          (ast.LShift, '<<'), (ast.RShift, '>>'), (ast.BitOr, '|'), (ast.BitXor, '^'), (ast.BitAnd, '&'),
          (ast.FloorDiv, '//'), (ast.MatMult, '@')]
UNOPS = [(ast.Invert, '~'), (ast.Not, 'not'), (ast.UAdd, '+'), (ast.USub, '-')]
CMPOPS = [(ast.Eq, '=='), (ast.NotEq, '!='), (ast.Lt, '<'), (ast.LtE, '<='), (ast.Gt, '>'), (ast.GtE, '>='),
          (ast.Is, 'is'), (ast.IsNot, 'is not'), (ast.In, 'in'), (ast.NotIn, 'not in')]

# --------------------------------------------------------------------------
# wire form of trees (nested lists; Atom = bare word, str = string)


def const_wire(v):
    if v is True:
        return [Atom('Const'), Atom('TRUE'), 'True']
    if v is False:
        return [Atom('Const'), Atom('FALSE'), 'False']
    if v is None:
        return [Atom('Const'), Atom('NONE'), 'None']
    if v is Ellipsis:
        return [Atom('Const'), Atom('ELLIPSIS'), 'Ellipsis']
    kind = {int: 'INT', float: 'FLOAT', complex: 'COMPLEX', str: 'STR', bytes: 'BYTES'}.get(type(v))
    if kind is None:
        return [Atom('Unmodelled'), 'Constant:' + type(v).__name__]
    r = repr(v)
    if any(0xd800 <= ord(c) <= 0xdfff for c in r):
        return [Atom('Unmodelled'), 'Constant:surrogate']
    if kind == 'COMPLEX' and r.startswith('('):
        return [Atom('Unmodelled'), 'Constant:complex with a real part']      # not a literal
    return [Atom('Const'), Atom(kind), r]


def opt(x):
    return N if x is None else to_wire(x)


def param_wire(a, default=None):
    return [Atom('param'), a.arg, opt(a.annotation), opt(default)]


def args_wire(a):
    """`arguments` with every default attached to its parameter (write_args pairs them by index)"""
    pos = list(getattr(a, 'posonlyargs', [])) + list(a.args)
    npo = len(getattr(a, 'posonlyargs', []))
    nd = len(pos) - len(a.defaults)
    if nd < 0 or len(a.kw_defaults) != len(a.kwonlyargs):
        return [Atom('Unmodelled'), 'arguments']
    ps = [param_wire(x, a.defaults[i - nd] if i >= nd else None) for i, x in enumerate(pos)]
    return [Atom('Args'), ps[:npo], ps[npo:], N if a.vararg is None else param_wire(a.vararg),
            [param_wire(x, d) for x, d in zip(a.kwonlyargs, a.kw_defaults)],
            N if a.kwarg is None else param_wire(a.kwarg)]


def comp_wire(c):
    return [Atom('comp'), to_wire(c.target), to_wire(c.iter), [to_wire(x) for x in c.ifs],
            Atom('T') if getattr(c, 'is_async', 0) else Atom('F')]


def kw_wire(k):
    return [Atom('kw'), N if k.arg is None else k.arg, to_wire(k.value)]


def body_wire(b):
    return [to_wire(s) for s in b]


def to_wire(n):
    """ast node (expression or statement) -> wire tree. Raw Python values (which genshi's
    transformer leaves inside Tuple nodes) are treated like ASTCodeGenerator.visit treats them."""
    if n is None:
        return [Atom('Const'), Atom('NONE'), 'None']      # visit_Tuple writes 'None' for a raw None element
    if isinstance(n, (bool, bytes, float, int, str)):
        return const_wire(n)
    if not isinstance(n, ast.AST):
        return [Atom('Unmodelled'), 'raw:' + type(n).__name__]
    t = type(n)
    if t is ast.Name:
        return [Atom('Name'), n.id]
    if t is ast.Constant:
        return const_wire(n.value)
    if t is ast.BoolOp:
        return [Atom('BoolOp'), type(n.op).__name__, [to_wire(v) for v in n.values]]
    if t is ast.BinOp:
        return [Atom('BinOp'), to_wire(n.left), type(n.op).__name__, to_wire(n.right)]
    if t is ast.UnaryOp:
        return [Atom('UnaryOp'), type(n.op).__name__, to_wire(n.operand)]
    if t is ast.Lambda:
        return [Atom('Lambda'), args_wire(n.args), to_wire(n.body)]
    if t is ast.IfExp:
        return [Atom('IfExp'), to_wire(n.test), to_wire(n.body), to_wire(n.orelse)]
    if t is ast.Dict:
        return [Atom('Dict'), [[opt(k), to_wire(v)] for k, v in zip(n.keys, n.values)]]
    if t is ast.ListComp:
        return [Atom('ListComp'), to_wire(n.elt), [comp_wire(c) for c in n.generators]]
    if t is ast.GeneratorExp:
        return [Atom('GeneratorExp'), to_wire(n.elt), [comp_wire(c) for c in n.generators]]
    if t is ast.Yield:
        return [Atom('Yield'), opt(n.value)]
    if t is ast.Compare:
        return [Atom('Compare'), to_wire(n.left), [[type(o).__name__, to_wire(c)] for o, c in zip(n.ops, n.comparators)]]
    if t is ast.Call:
        return [Atom('Call'), to_wire(n.func), [to_wire(a) for a in n.args], [kw_wire(k) for k in n.keywords]]
    if t is ast.Attribute:
        return [Atom('Attribute'), to_wire(n.value), n.attr]
    if t is ast.Subscript:
        return [Atom('Subscript'), to_wire(n.value), to_wire(n.slice)]
    if t is ast.Slice:
        return [Atom('Slice'), opt(n.lower), opt(n.upper), opt(n.step)]
    if t is ast.Starred:
        return [Atom('Starred'), to_wire(n.value)]
    if t is ast.List:
        return [Atom('List'), [to_wire(e) for e in n.elts]]
    if t is ast.Tuple:
        return [Atom('Tuple'), [to_wire(e) for e in n.elts]]
    if isinstance(n, ast.expr):
        return [Atom('Unsupported'), t.__name__]
    # ---- statements
    if t is ast.Expr:
        return [Atom('Expr'), to_wire(n.value)]
    if t is ast.Assign:
        return [Atom('Assign'), [to_wire(x) for x in n.targets], to_wire(n.value)]
    if t is ast.AugAssign:
        return [Atom('AugAssign'), to_wire(n.target), type(n.op).__name__, to_wire(n.value)]
    if t is ast.Return:
        return [Atom('Return'), opt(n.value)]
    if t is ast.Delete:
        return [Atom('Delete'), [to_wire(x) for x in n.targets]]
    if t is ast.Pass:
        return [Atom('Pass')]
    if t is ast.Break:
        return [Atom('Break')]
    if t is ast.Continue:
        return [Atom('Continue')]
    if t is ast.Assert:
        return [Atom('Assert'), to_wire(n.test), opt(n.msg)]
    if t is ast.Raise:
        return [Atom('Raise'), opt(n.exc), opt(n.cause)]
    if t is ast.Global:
        return [Atom('Global'), list(n.names)]
    if t is ast.Import:
        return [Atom('Import'), [[a.name, N if a.asname is None else a.asname] for a in n.names]]
    if t is ast.ImportFrom:
        return [Atom('ImportFrom'), N if n.module is None else n.module,
                [[a.name, N if a.asname is None else a.asname] for a in n.names], Atom(str(n.level or 0))]
    if t is ast.If:
        return [Atom('If'), to_wire(n.test), body_wire(n.body), body_wire(n.orelse)]
    if t is ast.While:
        return [Atom('While'), to_wire(n.test), body_wire(n.body), body_wire(n.orelse)]
    if t is ast.For:
        return [Atom('For'), to_wire(n.target), to_wire(n.iter), body_wire(n.body), body_wire(n.orelse)]
    if t is ast.With:
        return [Atom('With'), [[to_wire(i.context_expr), opt(i.optional_vars)] for i in n.items], body_wire(n.body)]
    if t is ast.Try:
        return [Atom('Try'), body_wire(n.body),
                [[Atom('handler'), opt(h.type), N if h.name is None else h.name, body_wire(h.body)] for h in n.handlers],
                body_wire(n.orelse), body_wire(n.finalbody)]
    if t is ast.FunctionDef:
        return [Atom('FunctionDef'), n.name, args_wire(n.args), body_wire(n.body), [to_wire(d) for d in n.decorator_list],
                opt(n.returns), Atom('T') if getattr(n, 'type_params', None) else Atom('F')]
    if t is ast.ClassDef:
        return [Atom('ClassDef'), n.name, [to_wire(b) for b in n.bases], [kw_wire(k) for k in n.keywords],
                body_wire(n.body), [to_wire(d) for d in n.decorator_list],
                Atom('T') if getattr(n, 'type_params', None) else Atom('F')]
    return [Atom('UnsupportedStmt'), t.__name__]


# --------------------------------------------------------------------------
# token streams

_TK = {tokenize.NAME: 'NAME', tokenize.NUMBER: 'NUM', tokenize.STRING: 'STR', tokenize.OP: 'OP'}


def tokens_of(code):
    """source text -> list of lines, each [indent_depth, [[kind, text], ...]] (tokenize's own view:
    blank lines and comments dropped). Returns None when tokenize rejects the text."""
    lines, cur, depth = [], [], 0
    try:
        for tok in tokenize.generate_tokens(io.StringIO(code).readline):
            tp = tok.type
            if tp in _TK:
                cur.append([Atom(_TK[tp]), tok.string])
            elif tp == tokenize.NEWLINE:
                lines.append([depth, cur])
                cur = []
            elif tp == tokenize.INDENT:
                depth += 1
            elif tp == tokenize.DEDENT:
                depth -= 1
            elif tp in (tokenize.NL, tokenize.COMMENT, tokenize.ENDMARKER):
                pass
            else:
                return None      # FSTRING_START etc.
    except (tokenize.TokenError, IndentationError, SyntaxError):
        return None
    if cur:
        lines.append([depth, cur])
    return lines


def flat_tokens(code):
    ls = tokens_of(code)
    if ls is None:
        return None
    return [t for _, l in ls for t in l]


# --------------------------------------------------------------------------
# random expression trees

NAMES_DATA = ['a', 'b', 'c', 'x', 'y', 'items', 'd', 'obj', 'f', 's', 'n']
NAMES_UNDEF = ['nope', 'zz', 'undefined_name']
NAMES_BUILTIN = ['len', 'abs', 'int', 'str', 'max', 'sorted', 'list', 'sum', 'bool', 'tuple', 'dict']
ATTRS = ['a', 'b', 'real', 'k', 'items', 'missing', 'x', 'upper', 'append', 'val']


class ExprGen(object):
    """random `ast` expression trees.  profile keys:
       unsupported  probability of a node type ASTCodeGenerator has no visitor for
       yield_       allow Yield nodes
       undefined    probability weight of undefined names
       typed        bias towards int-valued sub-expressions (C03: fewer TypeErrors)
    """

    def __init__(self, rng, unsupported=0.0, yield_=False, undefined=0.08, typed=True, maxdepth=4,
                 weird_const=0.04):
        self.rng = rng
        self.p_unsup = unsupported
        self.yield_ = yield_
        self.p_undef = undefined
        self.typed = typed
        self.maxdepth = maxdepth
        self.weird = weird_const
        self.bound = []      # names bound by enclosing lambda / comprehension

    # -- leaves
    def name(self):
        r = self.rng.random()
        if self.bound and r < 0.45:
            return ast.Name(self.rng.choice(self.bound), ast.Load())
        if r < 0.45 + self.p_undef:
            return ast.Name(self.rng.choice(NAMES_UNDEF), ast.Load())
        if r < 0.62:
            return ast.Name(self.rng.choice(NAMES_BUILTIN), ast.Load())
        return ast.Name(self.rng.choice(NAMES_DATA), ast.Load())

    def const(self):
        r = self.rng.random()
        if r < self.weird:
            return ast.Constant(self.rng.choice([1e999, 1e999j, Ellipsis, 10 ** 30, 1e-7, 1.5e300, 2j, 0.1, b'\xff\x00',
                                                 'q\'"\\\n\x00é\U0001F600', 1e16, 123456789012345678901234567890.0]))
        if r < 0.6:
            return ast.Constant(self.rng.choice([0, 1, 2, 3, 5, 7, 10, 255]))
        if r < 0.7:
            return ast.Constant(self.rng.choice([0.5, 1.0, 2.5]))
        if r < 0.85:
            return ast.Constant(self.rng.choice(['', 'a', 'k', 'abc', 'x', 'missing', 'real', 'b']))
        if r < 0.9:
            return ast.Constant(self.rng.choice([b'', b'ab']))
        return ast.Constant(self.rng.choice([True, False, None]))

    def leaf(self):
        return self.name() if self.rng.random() < 0.6 else self.const()

    # -- parameters
    def arguments(self, d, full=True):
        rng = self.rng
        pool = ['p', 'q', 'r', 'u', 'v', 'w', 'a', 'x']
        rng.shuffle(pool)
        npos = rng.choice([0, 0, 0, 1]) if full else 0
        nargs = rng.choice([0, 1, 1, 2])
        nkw = rng.choice([0, 0, 0, 1, 2]) if full else 0
        names = [pool.pop() for _ in range(npos + nargs + nkw + 2)]
        posonly = [ast.arg(names.pop()) for _ in range(npos)]
        args = [ast.arg(names.pop()) for _ in range(nargs)]
        ndef = rng.randrange(0, npos + nargs + 1) if rng.random() < 0.5 else 0
        defaults = [self.expr(d + 1) for _ in range(ndef)]
        vararg = ast.arg(names.pop()) if full and rng.random() < 0.2 else None
        kwonly = [ast.arg(names.pop()) for _ in range(nkw)]
        kw_defaults = [self.expr(d + 1) if rng.random() < 0.6 else None for _ in range(nkw)]
        kwarg = ast.arg(names.pop()) if full and rng.random() < 0.15 else None
        a = ast.arguments(posonlyargs=posonly, args=args, vararg=vararg, kwonlyargs=kwonly,
                          kw_defaults=kw_defaults, kwarg=kwarg, defaults=defaults)
        bound = [x.arg for x in posonly + args + kwonly] + ([vararg.arg] if vararg else []) + ([kwarg.arg] if kwarg else [])
        return a, bound

    def target(self, d):
        """comprehension / for target and the names it binds"""
        rng = self.rng
        r = rng.random()
        pool = ['i', 'j', 'k', 'v', 'x', 'a']
        if r < 0.7:
            nm = rng.choice(pool)
            return ast.Name(nm, ast.Store()), [nm]
        if r < 0.9:
            nms = rng.sample(pool, 2)
            return ast.Tuple([ast.Name(n, ast.Store()) for n in nms], ast.Store()), nms
        if r < 0.95:
            nms = rng.sample(pool, 2)
            return ast.Tuple([ast.Name(nms[0], ast.Store()), ast.Starred(ast.Name(nms[1], ast.Store()), ast.Store())], ast.Store()), nms
        return ast.List([ast.Name('i', ast.Store())], ast.Store()), ['i']

    def comps(self, d):
        rng = self.rng
        gens, saved = [], list(self.bound)
        for gi in range(rng.choice([1, 1, 1, 2])):
            it = self.iterable(d + 1)
            tgt, nms = self.target(d)
            self.bound = self.bound + nms
            ifs = [self.expr(d + 1) for _ in range(rng.choice([0, 0, 1, 2]))]
            gens.append(ast.comprehension(tgt, it, ifs, 0))
        return gens, saved

    def iterable(self, d):
        r = self.rng.random()
        if r < 0.3:
            return ast.Name('items', ast.Load())
        if r < 0.5:
            return ast.Call(ast.Name('range', ast.Load()), [ast.Constant(self.rng.choice([0, 2, 3]))], [])
        if r < 0.65:
            return ast.List([self.expr(d + 1) for _ in range(self.rng.randrange(0, 3))], ast.Load())
        return self.expr(d)

    # -- expressions
    def expr(self, d=0):
        rng = self.rng
        if d >= self.maxdepth or rng.random() < 0.12 + 0.1 * d:
            return self.leaf()
        if rng.random() < self.p_unsup:
            return self.unsupported(d)
        r = rng.random()
        sub = lambda: self.expr(d + 1)
        if r < 0.22:
            op = rng.choice(BINOPS[:12] if rng.random() < 0.98 else BINOPS)[0]()
            return ast.BinOp(sub(), op, sub())
        if r < 0.32:
            return ast.UnaryOp(rng.choice(UNOPS)[0](), sub())
        if r < 0.40:
            return ast.BoolOp(rng.choice([ast.And, ast.Or])(), [sub() for _ in range(rng.choice([2, 2, 3]))])
        if r < 0.49:
            n = rng.choice([1, 1, 2, 3])
            return ast.Compare(sub(), [rng.choice(CMPOPS)[0]() for _ in range(n)], [sub() for _ in range(n)])
        if r < 0.54:
            return ast.IfExp(sub(), sub(), sub())
        if r < 0.60:
            saved = list(self.bound)
            a, nms = self.arguments(d)
            self.bound = self.bound + nms
            body = sub()
            self.bound = saved
            lam = ast.Lambda(a, body)
            if rng.random() < 0.6 and not a.kwonlyargs:
                # call it so that the body is evaluated
                n_need = len(a.posonlyargs) + len(a.args) - len(a.defaults)
                return ast.Call(lam, [sub() for _ in range(max(0, n_need) + (rng.random() < 0.2))], [])
            return lam
        if r < 0.68:
            return self.call(d)
        if r < 0.75:
            return ast.Attribute(sub(), rng.choice(ATTRS), ast.Load())
        if r < 0.83:
            return ast.Subscript(sub(), self.slice_(d), ast.Load())
        if r < 0.87:
            return ast.List(self.elts(d), ast.Load())
        if r < 0.91:
            return ast.Tuple(self.elts(d), ast.Load())
        if r < 0.94:
            n = rng.randrange(0, 3)
            keys = [sub() if rng.random() < 0.9 else None for _ in range(n)]
            return ast.Dict(keys, [sub() for _ in range(n)])
        if r < 0.985 or not self.yield_:
            gens, saved = self.comps(d)
            elt = sub()
            self.bound = saved
            cls = ast.ListComp if rng.random() < 0.6 else ast.GeneratorExp
            node = cls(elt, gens)
            if cls is ast.GeneratorExp and rng.random() < 0.7:
                return ast.Call(ast.Name(rng.choice(['list', 'sum', 'tuple', 'sorted']), ast.Load()), [node], [])
            return node
        return ast.Yield(sub() if rng.random() < 0.7 else None)

    # -- mostly well-typed expressions (C03: values rather than TypeErrors)
    def int_name(self):
        if self.bound and self.rng.random() < 0.4:
            return ast.Name(self.rng.choice(self.bound), ast.Load())
        if self.rng.random() < self.p_undef:
            return ast.Name(self.rng.choice(NAMES_UNDEF), ast.Load())
        return ast.Name(self.rng.choice(['a', 'b', 'c', 'x', 'y', 'n']), ast.Load())

    def int_expr(self, d=0):
        rng = self.rng
        sub = lambda: self.int_expr(d + 1)
        if d >= self.maxdepth or rng.random() < 0.15 + 0.08 * d:
            return self.int_name() if rng.random() < 0.6 else ast.Constant(rng.choice([0, 1, 2, 3, 5, 7, 10]))
        r = rng.random()
        if r < 0.25:
            op = rng.choice([ast.Add, ast.Sub, ast.Mult, ast.FloorDiv, ast.Mod, ast.BitAnd, ast.BitOr, ast.BitXor, ast.Add, ast.Sub, ast.Mult])()
            return ast.BinOp(sub(), op, sub())
        if r < 0.30:
            return ast.BinOp(sub(), rng.choice([ast.Pow, ast.LShift, ast.RShift])(), ast.Constant(rng.choice([0, 1, 2, 3])))
        if r < 0.38:
            return ast.UnaryOp(rng.choice([ast.USub, ast.UAdd, ast.Invert])(), sub())
        if r < 0.46:
            return ast.IfExp(self.cond(d + 1), sub(), sub())
        if r < 0.52:
            return ast.Call(ast.Name(rng.choice(['abs', 'int', 'f', 'max', 'len']), ast.Load()), [sub()], []) \
                if rng.random() < 0.6 else ast.Call(ast.Name('len', ast.Load()), [rng.choice([ast.Name('items', ast.Load()), ast.Name('s', ast.Load())])], [])
        if r < 0.58:
            return ast.Subscript(ast.Name('items', ast.Load()), rng.choice([ast.Constant(0), ast.UnaryOp(ast.USub(), ast.Constant(1)), sub()]), ast.Load())
        if r < 0.64:
            k = rng.choice(['a', 'k', 'b', 'x', 'val'])
            base = ast.Name(rng.choice(['d', 'obj']), ast.Load())
            return ast.Attribute(base, k, ast.Load()) if rng.random() < 0.5 else ast.Subscript(base, ast.Constant(k), ast.Load())
        if r < 0.76:
            saved = list(self.bound)
            rngp = ['p', 'q', 'r', 'u', 'v', 'w']
            rng.shuffle(rngp)
            npos, nargs, nkw = rng.choice([0, 0, 1]), rng.choice([0, 1, 2]), rng.choice([0, 0, 1])
            posonly = [ast.arg(rngp.pop()) for _ in range(npos)]
            args = [ast.arg(rngp.pop()) for _ in range(nargs)]
            kwonly = [ast.arg(rngp.pop()) for _ in range(nkw)]
            ndef = rng.randrange(0, npos + nargs + 1)
            defaults = [sub() for _ in range(ndef)]
            kw_defaults = [sub() if rng.random() < 0.7 else None for _ in range(nkw)]
            a = ast.arguments(posonlyargs=posonly, args=args, vararg=None, kwonlyargs=kwonly, kw_defaults=kw_defaults,
                              kwarg=None, defaults=defaults)
            self.bound = self.bound + [x.arg for x in posonly + args + kwonly]
            body = sub()
            self.bound = saved
            call_args = [sub() for _ in range(npos + nargs - (rng.randrange(0, ndef + 1)))]
            kws = [ast.keyword(x.arg, sub()) for x, dflt in zip(kwonly, kw_defaults) if dflt is None or rng.random() < 0.5]
            return ast.Call(ast.Lambda(a, body), call_args, kws)
        if r < 0.90:
            saved = list(self.bound)
            gens = []
            for gi in range(rng.choice([1, 1, 2])):
                it = rng.choice([ast.Name('items', ast.Load()),
                                 ast.Call(ast.Name('range', ast.Load()), [ast.Constant(rng.choice([0, 2, 3]))], []),
                                 ast.List([sub() for _ in range(rng.randrange(0, 3))], ast.Load())])
                nm = rng.choice(['i', 'j', 'k', 'x', 'a'])
                self.bound = self.bound + [nm]
                ifs = [self.cond(d + 1) for _ in range(rng.choice([0, 0, 1]))]
                gens.append(ast.comprehension(ast.Name(nm, ast.Store()), it, ifs, 0))
            elt = sub()
            self.bound = saved
            if rng.random() < 0.5:
                return ast.Call(ast.Name(rng.choice(['sum', 'len']), ast.Load()), [ast.ListComp(elt, gens)], [])
            return ast.Call(ast.Name('sum', ast.Load()), [ast.GeneratorExp(elt, gens)], [])
        return ast.BoolOp(rng.choice([ast.And, ast.Or])(), [sub(), sub()])

    def cond(self, d):
        rng = self.rng
        r = rng.random()
        if r < 0.5:
            n = rng.choice([1, 1, 2])
            ops = [rng.choice([ast.Eq, ast.NotEq, ast.Lt, ast.LtE, ast.Gt, ast.GtE])() for _ in range(n)]
            return ast.Compare(self.int_expr(d + 1), ops, [self.int_expr(d + 1) for _ in range(n)])
        if r < 0.65:
            return ast.UnaryOp(ast.Not(), self.cond(d + 1) if d < self.maxdepth else self.int_name())
        if r < 0.8:
            return ast.BoolOp(rng.choice([ast.And, ast.Or])(), [self.cond(d + 1) if d < self.maxdepth else self.int_name(),
                                                              self.int_expr(d + 1)])
        if r < 0.9:
            return ast.Compare(self.int_expr(d + 1), [rng.choice([ast.In, ast.NotIn])()], [ast.Name('items', ast.Load())])
        return self.int_expr(d + 1)

    def elts(self, d):
        out = []
        for _ in range(self.rng.randrange(0, 4)):
            e = self.expr(d + 1)
            if self.rng.random() < 0.1:
                e = ast.Starred(e, ast.Load())
            out.append(e)
        return out

    def call(self, d):
        rng = self.rng
        r = rng.random()
        if r < 0.5:
            f = ast.Name(rng.choice(NAMES_BUILTIN + ['f', 'f']), ast.Load())
        else:
            f = self.expr(d + 1)
        args = []
        for _ in range(rng.choice([0, 1, 1, 2])):
            e = self.expr(d + 1)
            if rng.random() < 0.1:
                e = ast.Starred(e, ast.Load())
            args.append(e)
        kws = []
        for _ in range(rng.choice([0, 0, 0, 1, 2])):
            kws.append(ast.keyword(rng.choice(['k', 'key', 'x']) if rng.random() < 0.85 else None, self.expr(d + 1)))
        return ast.Call(f, args, kws)

    def slice_(self, d):
        rng = self.rng
        r = rng.random()
        o = lambda: self.expr(d + 1) if rng.random() < 0.6 else None
        if r < 0.25:
            return ast.Slice(o(), o(), o() if rng.random() < 0.4 else None)
        if r < 0.30:
            return ast.Tuple([self.expr(d + 1), self.expr(d + 1)], ast.Load())
        if r < 0.33:
            return ast.Tuple([ast.Slice(o(), o(), None), self.expr(d + 1)], ast.Load())
        if r < 0.36:
            return ast.Constant(Ellipsis)
        if r < 0.7:
            return self.const()
        return self.expr(d + 1)

    def unsupported(self, d):
        rng = self.rng
        sub = lambda: self.expr(d + 1)
        k = rng.randrange(8)
        if k == 0:
            return ast.Set([sub(), sub()])
        if k == 1:
            gens, saved = self.comps(d)
            e = ast.SetComp(sub(), gens)
            self.bound = saved
            return e
        if k == 2:
            gens, saved = self.comps(d)
            e = ast.DictComp(sub(), sub(), gens)
            self.bound = saved
            return e
        if k == 3:
            return ast.JoinedStr([ast.Constant('s'), ast.FormattedValue(sub(), -1, None)])
        if k == 4:
            return ast.NamedExpr(ast.Name('w', ast.Store()), sub())
        if k == 5:
            return ast.BinOp(sub(), ast.MatMult(), sub())
        if k == 6:
            return ast.Await(sub())
        return ast.YieldFrom(sub())


def unparse_ok(tree, mode='eval'):
    """source text of a generated tree, checked to re-parse to the same tree (generated trees can
    be ill-formed, e.g. a keyword used as a name); None when not"""
    try:
        ast.fix_missing_locations(tree)
        src = ast.unparse(tree)
        back = ast.parse(src, mode=mode)
    except (SyntaxError, ValueError, TypeError, RecursionError, AttributeError):
        return None
    want = tree if mode != 'eval' or isinstance(tree, ast.Expression) else ast.Expression(tree)
    if ast.dump(back) != ast.dump(want):
        return None
    return src


# --------------------------------------------------------------------------
# random statements

class StmtGen(object):
    def __init__(self, rng, eg, unsupported=0.0):
        self.rng = rng
        self.eg = eg
        self.p_unsup = unsupported

    def e(self):
        return self.eg.expr(1)

    def store(self):
        rng = self.rng
        r = rng.random()
        nm = rng.choice(['a', 'b', 't', 'u', 'x'])
        if r < 0.7:
            return ast.Name(nm, ast.Store())
        if r < 0.8:
            return ast.Tuple([ast.Name(nm, ast.Store()), ast.Name('z', ast.Store())], ast.Store())
        if r < 0.9:
            return ast.Attribute(ast.Name('obj', ast.Load()), rng.choice(['a', 'val']), ast.Store())
        return ast.Subscript(ast.Name('d', ast.Load()), self.eg.const(), ast.Store())

    def body(self, d):
        return [self.stmt(d + 1) for _ in range(self.rng.choice([1, 1, 2, 3]))]

    def funcargs(self):
        a, bound = self.eg.arguments(1)
        if self.rng.random() < 0.3:
            for x in a.posonlyargs + a.args + a.kwonlyargs + [y for y in (a.vararg, a.kwarg) if y]:
                if self.rng.random() < 0.5:
                    x.annotation = self.rng.choice([ast.Name('int', ast.Load()), ast.Constant('T'), self.e()])
        return a, bound

    def stmt(self, d=0):
        rng = self.rng
        if rng.random() < self.p_unsup:
            return self.unsupported(d)
        r = rng.random()
        simple = d >= 3
        if r < 0.22 or (simple and r < 0.6):
            return ast.Assign([self.store() for _ in range(rng.choice([1, 1, 1, 2]))], self.e())
        if r < 0.30 or simple:
            k = rng.randrange(12)
            if k == 0:
                return ast.AugAssign(self.store_simple(), rng.choice(BINOPS[:12])[0](), self.e())
            if k == 1:
                return ast.Expr(self.e())
            if k == 2:
                return ast.Pass()
            if k == 3:
                return ast.Assert(self.e(), self.e() if rng.random() < 0.5 else None)
            if k == 4:
                return ast.Delete([self.store_del() for _ in range(rng.choice([1, 2]))])
            if k == 5:
                exc = ast.Call(ast.Name(rng.choice(['ValueError', 'KeyError']), ast.Load()), [self.e()], []) if rng.random() < 0.8 else None
                return ast.Raise(exc, self.e() if exc is not None and rng.random() < 0.3 else None)
            if k == 6:
                return ast.Import([ast.alias(rng.choice(['os', 'os.path', 'sys']), rng.choice([None, 'm']))
                                   for _ in range(rng.choice([1, 2]))])
            if k == 7:
                names = [ast.alias('*', None)] if rng.random() < 0.15 else \
                    [ast.alias(rng.choice(['path', 'sep', 'getcwd']), rng.choice([None, 'q'])) for _ in range(rng.choice([1, 2]))]
                return ast.ImportFrom(rng.choice(['os', 'os.path']) if rng.random() < 0.9 else None, names,
                                      0 if rng.random() < 0.9 else 1)
            if k == 8:
                return ast.Global([rng.choice(['g', 'h']) for _ in range(rng.choice([1, 2]))])
            if k == 9:
                return ast.Return(self.e() if rng.random() < 0.7 else None)
            if k == 10:
                return ast.Expr(ast.Yield(self.e())) if self.eg.yield_ else ast.Pass()
            return rng.choice([ast.Break, ast.Continue])()
        if r < 0.40:
            return ast.If(self.e(), self.body(d), self.body(d) if rng.random() < 0.5 else [])
        if r < 0.48:
            tgt, _ = self.eg.target(1)
            return ast.For(tgt, self.eg.iterable(1), self.body(d), self.body(d) if rng.random() < 0.3 else [])
        if r < 0.53:
            return ast.While(self.e(), self.body(d), self.body(d) if rng.random() < 0.3 else [])
        if r < 0.60:
            items = [ast.withitem(self.e(), self.store() if rng.random() < 0.5 else None) for _ in range(rng.choice([1, 1, 2]))]
            return ast.With(items, self.body(d))
        if r < 0.72:
            handlers = []
            for _ in range(rng.choice([0, 1, 1, 2])):
                tp = rng.choice([None, ast.Name('ValueError', ast.Load()),
                                 ast.Tuple([ast.Name('KeyError', ast.Load()), ast.Name('TypeError', ast.Load())], ast.Load())])
                nm = rng.choice([None, None, 'err']) if tp is not None else None
                handlers.append(ast.ExceptHandler(tp, nm, self.body(d)))
            handlers.sort(key=lambda h: h.type is None)     # bare except last
            seen_bare = False
            hs = []
            for h in handlers:
                if h.type is None:
                    if seen_bare:
                        continue
                    seen_bare = True
                hs.append(h)
            orelse = self.body(d) if hs and rng.random() < 0.3 else []
            final = self.body(d) if (not hs or rng.random() < 0.3) else []
            return ast.Try(self.body(d), hs, orelse, final)
        if r < 0.88:
            a, bound = self.funcargs()
            saved = list(self.eg.bound)
            self.eg.bound = self.eg.bound + bound
            body = self.body(d)
            self.eg.bound = saved
            decos = [self.e() for _ in range(rng.choice([0, 0, 0, 1, 2]))]
            ret = self.e() if rng.random() < 0.15 else None
            kw = dict(type_params=[]) if hasattr(ast, 'TypeVar') else {}
            return ast.FunctionDef(rng.choice(['fn', 'g', 'helper']), a, body, decos, ret, None, **kw)
        bases = [self.e() for _ in range(rng.choice([0, 0, 1, 2]))]
        kws = [ast.keyword(rng.choice(['metaclass', 'flag']) if rng.random() < 0.8 else None, self.e())
               for _ in range(rng.choice([0, 0, 1, 2]))]
        decos = [self.e() for _ in range(rng.choice([0, 0, 1]))]
        kw = dict(type_params=[]) if hasattr(ast, 'TypeVar') else {}
        return ast.ClassDef(rng.choice(['K', 'Cls']), bases, kws, self.body(d), decos, **kw)

    def store_simple(self):
        s = self.store()
        return s if not isinstance(s, ast.Tuple) else ast.Name('a', ast.Store())

    def store_del(self):
        s = self.store_simple()
        s.ctx = ast.Del()
        return s

    def unsupported(self, d):
        rng = self.rng
        k = rng.randrange(6)
        if k == 0:
            return ast.AnnAssign(ast.Name('a', ast.Store()), ast.Name('int', ast.Load()), self.e(), 1)
        if k == 1:
            return ast.Nonlocal(['a'])
        if k == 2:
            kw = dict(type_params=[]) if hasattr(ast, 'TypeVar') else {}
            return ast.AsyncFunctionDef('co', ast.arguments([], [], None, [], [], None, []), [ast.Pass()], [], None, None, **kw)
        if k == 3:
            return ast.AugAssign(ast.Name('a', ast.Store()), ast.MatMult(), self.e())
        if k == 4 and hasattr(ast, 'TryStar'):
            return ast.TryStar([ast.Pass()], [ast.ExceptHandler(ast.Name('ValueError', ast.Load()), None, [ast.Pass()])], [], [])
        return ast.Expr(ast.YieldFrom(self.e()))


# --------------------------------------------------------------------------
# closed, terminating programs for the execution-effect oracle (C13): every loop is bounded, every name
# that is read is defined (mostly), results land in module-level variables

class ProgGen(object):
    """random small programs over the context data names a b c n (ints), items (list), d (dict), obj"""

    def __init__(self, rng):
        self.rng = rng
        self.eg = ExprGen(rng, unsupported=0.0, yield_=False, undefined=0.0, maxdepth=2)
        self.counter = 0
        self.infunc = 0

    def fresh(self, prefix):
        self.counter += 1
        return '%s%d' % (prefix, self.counter)

    @staticmethod
    def values(bound):
        return [x for x in bound if not (x.startswith('fn') or x.startswith('K') or x in ('math', 'operator', 'self'))]

    def e(self, bound):
        self.eg.bound = self.values(bound)
        self.eg.maxdepth = self.rng.choice([1, 2, 2, 3])
        return self.eg.int_expr(0)

    def cond(self, bound):
        self.eg.bound = self.values(bound)
        return self.eg.cond(1)

    def name(self, id_, store=False):
        return ast.Name(id_, ast.Store() if store else ast.Load())

    def block(self, depth, scope, n=None, own=False):
        """scope: names certainly assigned so far (in textual order); a nested block works on a copy, so a
        name assigned only under a condition is not read later"""
        if not own:
            scope = list(scope)
        out = []
        for _ in range(n or self.rng.choice([1, 2, 2, 3])):
            out.extend(self.stmt(depth, scope))
        return out

    def target(self, scope):
        """an assignment target: inside a function mostly a fresh local or one of the function's own locals,
        sometimes a name that is also read as a context variable (then Python makes it local to the whole
        function, also before the assignment and in nested functions)"""
        if self.infunc:
            if self.rng.random() < 0.25:
                return self.rng.choice(['t', 'u', 'a', 'b', 'n', 'acc'])
            mine = [x for x in scope if x.startswith('loc%d_' % self.infunc) and '_c' not in x]
            if mine and self.rng.random() < 0.4:
                return self.rng.choice(mine)
            return self.fresh('loc%d_' % self.infunc)
        return self.rng.choice(['t', 'u', 'v', 'a', 'b', 'n', 'acc'])

    def stmt(self, depth, scope):
        rng = self.rng
        r = rng.random()
        simple = depth >= 2
        # inside a function only names that are never read as context variables are assigned, so that no
        # name is read before it is (textually) bound in the same function: the hypothesis of the known
        # finding C13-local-before-assignment
        if r < 0.30 or (simple and r < 0.7):
            val = self.e(scope)
            nm = self.target(scope)
            scope.append(nm)
            return [ast.Assign([self.name(nm, True)], val)]
        if r < 0.38:
            mine = [x for x in scope if x.startswith('loc%d_' % self.infunc) and '_c' not in x] if self.infunc else \
                [x for x in scope if x in ('t', 'u', 'v', 'a', 'b', 'n', 'acc')] + ['a', 'b', 'n']
            if mine:
                nm = rng.choice(mine)
                return [ast.AugAssign(self.name(nm, True), rng.choice([ast.Add, ast.Sub, ast.Mult])(), self.e(scope))]
            return [ast.Pass()]
        if r < 0.43:
            k = rng.choice(['k', 'a', 'x'])
            tgt = ast.Subscript(self.name('d'), ast.Constant(k), ast.Store()) if rng.random() < 0.5 else \
                ast.Attribute(self.name('obj'), rng.choice(['val', 'a']), ast.Store())
            return [ast.Assign([tgt], self.e(scope))]
        if r < 0.47:
            return [ast.Expr(ast.Call(ast.Attribute(self.name('items'), 'append', ast.Load()), [self.e(scope)], []))]
        if r < 0.56:
            body = self.block(depth + 1, scope)
            orelse = self.block(depth + 1, scope) if rng.random() < 0.5 else []
            return [ast.If(self.cond(scope), body, orelse)]
        if r < 0.66:
            iv = self.fresh('loc%d_' % self.infunc) if self.infunc else rng.choice(['i', 'j'])
            # (a copy of the list: the body may append to `items`)
            it = ast.Call(self.name('range'), [ast.Constant(rng.choice([0, 2, 3]))], []) if rng.random() < 0.6 else \
                ast.Call(self.name('list'), [self.name('items')], [])
            if rng.random() < 0.2:
                wv = self.fresh('loc%d_' % self.infunc) if self.infunc else 'w'
                tgt = ast.Tuple([self.name(iv, True), self.name(wv, True)], ast.Store())
                it = ast.Call(self.name('enumerate'), [ast.Call(self.name('list'), [self.name('items')], [])], [])
                inner_scope = scope + [iv, wv]
            else:
                tgt = self.name(iv, True)
                inner_scope = scope + [iv]
            body = self.block(depth + 1, inner_scope)
            if rng.random() < 0.15:
                body.append(ast.If(self.cond(inner_scope), [rng.choice([ast.Break, ast.Continue])()], []))
            orelse = self.block(depth + 1, scope, 1) if rng.random() < 0.2 else []
            return [ast.For(tgt, it, body, orelse)]
        if r < 0.70:
            cnt = self.fresh('loc%d_c' % self.infunc) if self.infunc else self.fresh('cnt')
            scope.append(cnt)
            body = [ast.AugAssign(self.name(cnt, True), ast.Add(), ast.Constant(1))] + self.block(depth + 1, scope)
            return [ast.Assign([self.name(cnt, True)], ast.Constant(0)),
                    ast.While(ast.Compare(self.name(cnt), [ast.Lt()], [ast.Constant(rng.choice([1, 2, 3]))]), body, [])]
        if r < 0.78:
            body = self.block(depth + 1, scope)
            if rng.random() < 0.6:
                body.append(ast.If(self.cond(scope), [ast.Raise(ast.Call(self.name(rng.choice(['ValueError', 'KeyError'])),
                                                                       [ast.Constant('boom')], []), None)], []))
            handlers = [ast.ExceptHandler(self.name(rng.choice(['ValueError', 'KeyError', 'ZeroDivisionError', 'Exception'])), None,
                                          self.block(depth + 1, scope, 1))] if rng.random() < 0.8 else []
            final = self.block(depth + 1, scope, 1) if (not handlers or rng.random() < 0.4) else []
            orelse = self.block(depth + 1, scope, 1) if handlers and rng.random() < 0.3 else []
            return [ast.Try(body, handlers, orelse, final)]
        if r < 0.82:
            # with ctx(e) [as w]: the header expressions are template code as well
            item = ast.withitem(ast.Call(self.name('ctx'), [self.e(scope)], []), None)
            inner_scope = list(scope)
            if rng.random() < 0.7:
                wn = self.fresh('loc%d_' % self.infunc) if self.infunc else rng.choice(['w', 't'])
                item.optional_vars = self.name(wn, True)
                scope.append(wn)
                inner_scope.append(wn)
            items = [item]
            if rng.random() < 0.2:
                items.append(ast.withitem(ast.Call(self.name('ctx'), [self.e(inner_scope)], []), None))
            return [ast.With(items, self.block(depth + 1, inner_scope))]
        if r < 0.93 and depth < 2:
            return self.funcdef(depth, scope)
        if r < 0.96 and depth < 1:
            return self.classdef(depth, scope)
        if r < 0.97:
            return [ast.Assert(ast.BoolOp(ast.Or(), [self.cond(scope), ast.Constant(rng.choice([1, 1, 1, 0]))]),
                               ast.Constant('msg') if rng.random() < 0.5 else None)]
        if self.infunc:
            return [ast.Pass()]
        mod = rng.choice(['math', 'operator'])
        scope.append(mod)
        return [ast.Import([ast.alias(mod, None)])]

    def funcdef(self, depth, scope):
        rng = self.rng
        fname = self.fresh('fn')
        pnames = rng.sample(['p', 'q', 'r'], rng.choice([0, 1, 2]))
        ndef = rng.randrange(0, len(pnames) + 1)
        kwonly = [ast.arg('kw')] if rng.random() < 0.2 else []
        ann = lambda: self.e(scope) if rng.random() < 0.25 else None
        args = ast.arguments(posonlyargs=[], args=[ast.arg(x, ann()) for x in pnames], vararg=ast.arg('rest') if rng.random() < 0.15 else None,
                             kwonlyargs=kwonly, kw_defaults=[self.e(scope) for _ in kwonly], kwarg=None,
                             defaults=[self.e(scope) for _ in range(ndef)])
        # names visible in the body: parameters, names of the enclosing function scopes assigned *before* the def
        # (the hypothesis of known finding C13-local-before-assignment), and the function itself
        inner = list(scope) + pnames + [x.arg for x in kwonly] + ([args.vararg.arg] if args.vararg else [])
        inner = [x for x in inner if x != 'rest']
        self.infunc += 1
        body = self.block(depth + 1, inner, own=True)
        body.append(ast.Return(self.e(inner)))
        self.infunc -= 1
        kw = dict(type_params=[]) if hasattr(ast, 'TypeVar') else {}
        fd = ast.FunctionDef(fname, args, body, [], ann(), None, **kw)
        res = self.fresh('res')
        call = ast.Call(self.name(fname), [self.e(scope) for _ in range(len(pnames) - rng.randrange(0, ndef + 1))], [])
        scope.extend([fname, res])
        return [fd, ast.Assign([self.name(res, True)], call)]

    def classdef(self, depth, scope):
        rng = self.rng
        cname = self.fresh('K')
        attr = ast.Assign([self.name('attr', True)], self.e(scope))
        inner = list(scope) + ['self', 'p']
        self.infunc += 1
        mbody = self.block(depth + 2, inner, 1, own=True) + [ast.Return(ast.BinOp(ast.Attribute(self.name('self'), 'attr', ast.Load()), ast.Add(), self.e(inner)))]
        self.infunc -= 1
        kw = dict(type_params=[]) if hasattr(ast, 'TypeVar') else {}
        meth = ast.FunctionDef('m', ast.arguments(posonlyargs=[], args=[ast.arg('self'), ast.arg('p')], vararg=None, kwonlyargs=[],
                                                  kw_defaults=[], kwarg=None, defaults=[]), mbody, [], None, None, **kw)
        cd = ast.ClassDef(cname, [], [], [attr, meth], [], **kw)
        res = self.fresh('res')
        call = ast.Call(ast.Attribute(ast.Call(self.name(cname), [], []), 'm', ast.Load()), [self.e(scope)], [])
        scope.extend([cname, res])
        return [cd, ast.Assign([self.name(res, True)], call)]

    def program(self):
        self.counter = 0
        scope = []
        body = self.block(0, scope, self.rng.choice([2, 3, 4, 5]), own=True)
        return ast.Module(body, [])


# --------------------------------------------------------------------------
# corpus: top-level statements and expressions of the stdlib and of genshi

class ScopeGen(object):
    """programs that exercise name binding and resolution: a small pool of names that are bound and loaded in
    module, function, class, lambda and comprehension scopes, by every binding construct the code generator
    accepts (assignment, augmented assignment, for, with-as, del, import with dotted names / aliases, def,
    class, parameters of every kind, defaults / annotations / decorators / bases in the enclosing scope)"""

    POOL = ['a', 'b', 'c', 'os', 'm', 'x', 'y', 'f', 'g', 'K']

    def __init__(self, rng, class_dyn=0.3):
        self.rng = rng
        self.class_dyn = class_dyn       # how often a class body may read a name it binds

    def nm(self):
        return self.rng.choice(self.POOL)

    def load(self):
        return ast.Name(self.nm(), ast.Load())

    def expr(self, d=0):
        rng = self.rng
        r = rng.random()
        if d >= 3 or r < 0.35:
            return self.load()
        if r < 0.45:
            return ast.BinOp(self.expr(d + 1), ast.Add(), self.expr(d + 1))
        if r < 0.55:
            return ast.Call(self.load(), [self.expr(d + 1) for _ in range(rng.choice([0, 1, 2]))], [])
        if r < 0.62:
            return ast.Attribute(self.expr(d + 1), rng.choice(['path', 'a', 'sep']), ast.Load())
        if r < 0.68:
            return ast.Subscript(self.expr(d + 1), self.expr(d + 1), ast.Load())
        if r < 0.80:
            return ast.Lambda(self.arguments(d, annotations=False), self.expr(d + 1))
        if r < 0.95:
            gens = []
            for _ in range(rng.choice([1, 1, 2])):
                gens.append(ast.comprehension(self.target(d, False), self.expr(d + 1),
                                              [self.expr(d + 1) for _ in range(rng.choice([0, 0, 1]))], 0))
            return (ast.ListComp if rng.random() < 0.5 else ast.GeneratorExp)(self.expr(d + 1), gens)
        return ast.Tuple([self.expr(d + 1), self.expr(d + 1)], ast.Load())

    def target(self, d, complex_=True):
        rng = self.rng
        r = rng.random()
        if r < 0.6:
            return ast.Name(self.nm(), ast.Store())
        if r < 0.75:
            return ast.Tuple([ast.Name(self.nm(), ast.Store()), ast.Name(self.nm(), ast.Store())], ast.Store())
        if r < 0.82:
            return ast.List([ast.Name(self.nm(), ast.Store()), ast.Starred(ast.Name(self.nm(), ast.Store()), ast.Store())], ast.Store())
        if not complex_:
            return ast.Name(self.nm(), ast.Store())
        if r < 0.91:
            return ast.Attribute(self.load(), 'a', ast.Store())
        return ast.Subscript(self.load(), self.expr(d + 2), ast.Store())

    def arguments(self, d, annotations=True):
        rng = self.rng
        names = rng.sample(self.POOL, rng.randrange(0, 5))
        def arg(n):
            return ast.arg(n, self.expr(d + 2) if annotations and rng.random() < 0.25 else None)
        k = [rng.randrange(0, 4) for _ in names]
        posonly = [arg(n) for n, q in zip(names, k) if q == 0][:1]
        rest = [n for n in names if n not in [a.arg for a in posonly]]
        args = [arg(n) for n in rest[:2]]
        rest = rest[2:]
        vararg = arg(rest.pop()) if rest and rng.random() < 0.4 else None
        kwonly = [arg(rest.pop())] if rest and rng.random() < 0.5 else []
        kwarg = arg(rest.pop()) if rest and rng.random() < 0.5 else None
        ndef = rng.randrange(0, len(posonly) + len(args) + 1)
        return ast.arguments(posonlyargs=posonly, args=args, vararg=vararg, kwonlyargs=kwonly,
                             kw_defaults=[self.expr(d + 2) if rng.random() < 0.6 else None for _ in kwonly],
                             kwarg=kwarg, defaults=[self.expr(d + 2) for _ in range(ndef)])

    def body(self, d, n=None):
        return [self.stmt(d) for _ in range(n or self.rng.choice([1, 2, 2, 3]))]

    def stmt(self, d):
        rng = self.rng
        r = rng.random()
        tp = dict(type_params=[]) if hasattr(ast, 'TypeVar') else {}
        if d >= 3:
            r = r * 0.5
        if r < 0.14:
            return ast.Assign([self.target(d) for _ in range(rng.choice([1, 1, 2]))], self.expr(1))
        if r < 0.19:
            t = self.target(d)
            if isinstance(t, (ast.Tuple, ast.List)):
                t = ast.Name(self.nm(), ast.Store())
            return ast.AugAssign(t, ast.Add(), self.expr(1))
        if r < 0.27:
            return ast.Expr(self.expr(0))
        if r < 0.31:
            return ast.Return(self.expr(1)) if rng.random() < 0.8 else ast.Pass()
        if r < 0.35:
            t = self.target(d)
            if isinstance(t, ast.List):
                t = ast.Name(self.nm(), ast.Store())
            for n in ast.walk(t):
                if isinstance(getattr(n, 'ctx', None), ast.Store):
                    n.ctx = ast.Del()
            return ast.Delete([t])
        if r < 0.42:
            als = [ast.alias(rng.choice(['os', 'os.path', 'm.x.y', 'a', 'b.c']), rng.choice([None, None, 'm', 'x']))
                   for _ in range(rng.choice([1, 1, 2]))]
            return ast.Import(als)
        if r < 0.46:
            return ast.ImportFrom(rng.choice(['os', 'm.x']), [ast.alias(rng.choice(['path', 'a', 'y']), rng.choice([None, 'b', 'g']))
                                                               for _ in range(rng.choice([1, 2]))], 0)
        if r < 0.50:
            return ast.Assert(self.expr(1), self.expr(1) if rng.random() < 0.3 else None)
        if r < 0.56:
            return ast.If(self.expr(1), self.body(d + 1), self.body(d + 1) if rng.random() < 0.4 else [])
        if r < 0.62:
            return ast.For(self.target(d), self.expr(1), self.body(d + 1), self.body(d + 1) if rng.random() < 0.3 else [])
        if r < 0.66:
            return ast.While(self.expr(1), self.body(d + 1), self.body(d + 1) if rng.random() < 0.3 else [])
        if r < 0.72:
            items = [ast.withitem(self.expr(1), self.target(d) if rng.random() < 0.6 else None) for _ in range(rng.choice([1, 1, 2]))]
            return ast.With(items, self.body(d + 1))
        if r < 0.78:
            hs = [ast.ExceptHandler(self.expr(2) if rng.random() < 0.8 else None, None, self.body(d + 1))
                  for _ in range(rng.choice([0, 1, 1, 2]))]
            hs.sort(key=lambda h: h.type is None)
            while sum(1 for h in hs if h.type is None) > 1:
                hs.pop()
            return ast.Try(self.body(d + 1), hs, self.body(d + 1) if hs and rng.random() < 0.3 else [],
                           self.body(d + 1) if not hs or rng.random() < 0.3 else [])
        if r < 0.90:
            return ast.FunctionDef(self.nm(), self.arguments(d), self.body(d + 1),
                                   [self.expr(2) for _ in range(rng.choice([0, 0, 1]))],
                                   self.expr(2) if rng.random() < 0.15 else None, None, **tp)
        return ast.ClassDef(self.nm(), [self.expr(2) for _ in range(rng.choice([0, 0, 1]))],
                            [ast.keyword('metaclass', self.expr(2))] if rng.random() < 0.15 else [],
                            self.body(d + 1), [self.expr(2) for _ in range(rng.choice([0, 0, 1]))], **tp)

    def program(self):
        return ast.Module(self.body(0, self.rng.choice([1, 2, 3, 4])), [])


def corpus_files(repo):
    stdlib = sysconfig.get_paths()['stdlib']
    out = []
    for f in sorted(glob.glob(os.path.join(stdlib, '**', '*.py'), recursive=True)):
        if 'site-packages' in f or '/test/' in f or '/tests/' in f or '/idlelib/' in f or 'lib2to3' in f:
            continue
        out.append(f)
    out += sorted(glob.glob(os.path.join(repo, 'genshi', '**', '*.py'), recursive=True))
    return out


def read_statements(path):
    """[(source segment, statement node)] of a file; [] when it does not parse"""
    try:
        with open(path, encoding='utf-8') as f:
            src = f.read()
        mod = ast.parse(src)
    except (SyntaxError, UnicodeDecodeError, ValueError, OSError, RecursionError):
        return []
    out = []
    for st in mod.body:
        seg = ast.get_source_segment(src, st)
        if seg is None:
            continue
        if getattr(st, 'decorator_list', None):
            # the segment of a decorated def starts at `def`; take it from the first decorator
            lines = src.splitlines(True)
            first = min(d.lineno for d in st.decorator_list)
            seg = ''.join(lines[first - 1:st.end_lineno])
        out.append(seg)
    return out

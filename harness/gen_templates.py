"""Directive-grammar templates and context data for both template languages (C04; reusable by
C10 `render` and C11 `incl`).

A template is a list of *nodes*; everything is plain JSON so that cases are canonical:

  node  := ["t", text]                              literal text (never empty; no two adjacent)
         | ["e", expr]                              ${expr}
         | ["c", fname, [expr, ...]]                ${fname(expr, ...)}  -- macro call
         | ["el", tag, [[name, value], ...], [[dname, arg], ...], [node, ...]]
                                                    element; static attributes; directives as py: attributes
                                                    in *source order* (the engine sorts them)
         | ["d", dname, arg, [node, ...]]           directive in element form <py:dname ...> (markup) or a
                                                    block {% dname ... %}...{% end %} / #dname ... #end (text)
  arg   := def: [fname, [param, ...]]   for: [var, expr]   if: expr   when: expr|None   otherwise: None
           choose: expr|None   with: [[name, expr], ...]   replace/content: xexpr   attrs: expr   strip: expr|None
  xexpr := expr | ["call", fname, [expr, ...]]
  expr  := ["v", name] | ["n"] | ["b", bool] | ["i", int] | ["s", str] | ["l", [atom, ...]]
         | ["d", [[key, atom], ...]] | ["eq", e, e] | ["not", e] | ["len", e] | ["ix", e, e]
  atom  := ["n"] | ["b", bool] | ["i", int] | ["s", str]
  data  := [[name, value], ...]   value := a literal expr (n b i s l d)

The mini expression language is one both the Lean model (`Genshi.Tmpl.Expr`) and CPython can
evaluate; `expr_src` prints the Python spelling.  Templates are rendered with lookup='lenient'
(an unbound name is an `Undefined` value, not an error).

Public API: expr_src, to_markup, to_newtext, to_oldtext, source, gen_data, gen_template,
gen_expr, canon_nodes, fix_old, data_kwargs, norm_events, render_real, node_w, data_w.
"""
import copy

PYNS = 'http://genshi.edgewall.org/'
VARS = ['x', 'y', 'z', 'xs', 'ys', 'w']          # never a Python builtin
MACROS = ['f', 'g', 'h', 'm1', 'm2', 'm3', 'm4', 'm5']
TAGS = ['a', 'b', 'p', 'q']
ATTRN = ['k', 'j', 'id']
TEXTCH = ['a', 'b', ' ', '<', '&', '1', '.']
STRS = ['', 'a', 'b', 'a<', ' k ', 'ab']
TEXT_DIRS = ['def', 'when', 'otherwise', 'for', 'if', 'choose', 'with']
DOC_ORDER = ['def', 'match', 'when', 'otherwise', 'for', 'if', 'choose', 'with', 'replace', 'content',
             'attrs', 'strip']          # doc/xml-templates.rst "Processing Order"


# --------------------------------------------------------------------------
# printing

def atom_src(a):
    k = a[0]
    if k == 'n':
        return 'None'
    if k == 'b':
        return 'True' if a[1] else 'False'
    if k == 'i':
        return str(a[1]) if a[1] >= 0 else '(%d)' % a[1]
    if k == 's':
        return "'%s'" % a[1]
    raise ValueError(a)


def expr_src(e):
    """Python source of a mini-language expression"""
    k = e[0]
    if k == 'v':
        return e[1]
    if k in 'nbis':
        return atom_src(e)
    if k == 'l':
        return '[%s]' % ', '.join(atom_src(a) for a in e[1])
    if k == 'd':
        return '{%s}' % ', '.join("'%s': %s" % (kk, atom_src(v)) for kk, v in e[1])
    if k == 'eq':
        return '(%s == %s)' % (expr_src(e[1]), expr_src(e[2]))
    if k == 'not':
        return '(not %s)' % expr_src(e[1])
    if k == 'len':
        return 'len(%s)' % expr_src(e[1])
    if k == 'ix':
        return '%s[%s]' % (expr_src(e[1]), expr_src(e[2]))
    if k == 'call':
        # positional arguments, then keyword arguments (optional 4th item: [[name, expr], ...])
        return '%s(%s)' % (e[1], ', '.join([expr_src(a) for a in e[2]] +
                                           ['%s=%s' % (kk, expr_src(a)) for kk, a in call_kwargs(e)]))
    raise ValueError(e)


def call_kwargs(n):
    """keyword arguments of a call node ['c'|'call', name, args(, kwargs)]"""
    return n[3] if len(n) > 3 else []


def call_expr(n):
    """the expression-level form ['call', name, args(, kwargs)] of a call node ['c', ...]"""
    return ['call'] + list(n[1:])


def def_defaults(arg):
    """defaults of the parameters of a macro: arg = [name, params(, [[param, default expr], ...])];
    the parameters with a default are the last ones"""
    return arg[2] if len(arg) > 2 else []


def def_params_src(arg):
    dflt = dict((k, v) for k, v in def_defaults(arg))
    return ['%s=%s' % (pn, expr_src(dflt[pn])) if pn in dflt else pn for pn in arg[1]]


def xml_text(s):
    return s.replace('&', '&amp;').replace('<', '&lt;').replace('>', '&gt;').replace('$', '$$')


def xml_attr(s):
    return s.replace('&', '&amp;').replace('<', '&lt;').replace('>', '&gt;').replace('"', '&quot;')


def dir_value(name, arg):
    """the attribute-form value of a directive"""
    if name == 'def':
        return '%s(%s)' % (arg[0], ', '.join(def_params_src(arg))) if arg[1] else arg[0]
    if name == 'for':
        return '%s in %s' % (arg[0], expr_src(arg[1]))
    if name in ('if', 'replace', 'content', 'attrs'):
        return expr_src(arg)
    if name in ('when', 'choose', 'strip'):
        return '' if arg is None else expr_src(arg)
    if name == 'otherwise':
        return ''
    if name == 'with':
        return '; '.join('%s=%s' % (n, expr_src(x)) for n, x in arg)
    raise ValueError(name)


ELEM_ARG = {'def': 'function', 'for': 'each', 'if': 'test', 'when': 'test', 'choose': 'test', 'with': 'vars',
            'replace': 'value'}


def markup_nodes(nodes):
    out = []
    for n in nodes:
        k = n[0]
        if k == 't':
            out.append(xml_text(n[1]))
        elif k == 'e':
            out.append('${%s}' % xml_text(expr_src(n[1])))
        elif k == 'c':
            out.append('${%s}' % xml_text(expr_src(call_expr(n))))
        elif k == 'el':
            _, tag, attrs, dirs, kids = n
            parts = [tag]
            for a, v in attrs:
                parts.append('%s="%s"' % (a, xml_attr(v).replace('$', '$$')))
            for dn, arg in dirs:
                parts.append('py:%s="%s"' % (dn, xml_attr(dir_value(dn, arg))))
            out.append('<%s>%s</%s>' % (' '.join(parts), markup_nodes(kids), tag))
        elif k == 'd':
            _, dn, arg, kids = n
            if dn == 'otherwise' or (dn in ('when', 'choose') and arg is None):
                head = 'py:' + dn
            else:
                head = 'py:%s %s="%s"' % (dn, ELEM_ARG[dn], xml_attr(dir_value(dn, arg)))
            out.append('<%s>%s</py:%s>' % (head, markup_nodes(kids), dn))
        else:
            raise ValueError(n)
    return ''.join(out)


def to_markup(nodes):
    """the template wrapped in a root element <r> that declares the py: prefix"""
    return '<r xmlns:py="%s">%s</r>' % (PYNS, markup_nodes(nodes))


def to_newtext(nodes):
    out = []
    for n in nodes:
        k = n[0]
        if k == 't':
            out.append(n[1])
        elif k == 'e':
            out.append('${%s}' % expr_src(n[1]))
        elif k == 'c':
            out.append('${%s}' % expr_src(call_expr(n)))
        elif k == 'd':
            _, dn, arg, kids = n
            v = dir_value(dn, arg)
            out.append('{%% %s%s %%}%s{%% end %%}' % (dn, ' ' + v if v else '', to_newtext(kids)))
        else:
            raise ValueError('not a text-template node: %r' % (n,))
    return ''.join(out)


def to_oldtext(nodes):
    """old syntax: a directive occupies a line of its own; the AST must have been passed through
    fix_old so that every directive line starts at a line start"""
    out = []
    for n in nodes:
        k = n[0]
        if k == 't':
            out.append(n[1])
        elif k == 'e':
            out.append('${%s}' % expr_src(n[1]))
        elif k == 'c':
            out.append('${%s}' % expr_src(call_expr(n)))
        elif k == 'd':
            _, dn, arg, kids = n
            v = dir_value(dn, arg)
            out.append('#%s%s\n%s#end\n' % (dn, ' ' + v if v else '', to_oldtext(kids)))
        else:
            raise ValueError('not a text-template node: %r' % (n,))
    return ''.join(out)


def fix_old(nodes, at_line_start=True):
    """insert "\\n" text so that every block (and the #end of the enclosing block) starts a line;
    returns (nodes, at_line_start_after)"""
    out = []
    for n in nodes:
        if n[0] == 'd':
            if not at_line_start:
                out.append(['t', '\n'])
            kids, _ = fix_old(n[3], True)
            # the body must end at a line start for "#end"
            if kids and not _ends_line(kids):
                kids = kids + [['t', '\n']]
            out.append(['d', n[1], n[2], kids])
            at_line_start = True
        else:
            out.append(n)
            at_line_start = n[0] == 't' and n[1].endswith('\n')
    return canon_nodes(out), at_line_start


def _ends_line(nodes):
    last = nodes[-1]
    return last[0] == 'd' or (last[0] == 't' and last[1].endswith('\n'))


def source(lang, nodes):
    if lang == 'markup':
        return to_markup(nodes)
    if lang == 'newtext':
        return to_newtext(nodes)
    if lang == 'oldtext':
        return to_oldtext(nodes)
    raise ValueError(lang)


def canon_nodes(nodes):
    """merge adjacent text nodes, drop empty ones (recursively)"""
    out = []
    for n in nodes:
        if n[0] == 't':
            if not n[1]:
                continue
            if out and out[-1][0] == 't':
                out[-1] = ['t', out[-1][1] + n[1]]
            else:
                out.append(['t', n[1]])
        elif n[0] == 'el':
            out.append(['el', n[1], n[2], n[3], canon_nodes(n[4])])
        elif n[0] == 'd':
            out.append(['d', n[1], n[2], canon_nodes(n[3])])
        else:
            out.append(n)
    return out


# --------------------------------------------------------------------------
# values

def pyval(v):
    k = v[0]
    if k == 'n':
        return None
    if k in 'bis':
        return v[1]
    if k == 'l':
        return [pyval(a) for a in v[1]]
    if k == 'd':
        return dict((kk, pyval(a)) for kk, a in v[1])
    raise ValueError(v)


def data_kwargs(data):
    return dict((n, pyval(v)) for n, v in data)


def gen_atom(rng):
    r = rng.random()
    if r < 0.15:
        return ['n']
    if r < 0.35:
        return ['b', rng.random() < 0.5]
    if r < 0.65:
        return ['i', rng.choice([0, 1, 2, 3, -1])]
    return ['s', rng.choice(STRS)]


def gen_value(rng):
    """falsy/truthy values of every type; empty, singleton and longer iterables"""
    r = rng.random()
    if r < 0.4:
        return gen_atom(rng)
    if r < 0.85:
        n = rng.choice([0, 1, 1, 2, 2, 3])
        return ['l', [gen_atom(rng) for _ in range(n)]]
    n = rng.choice([0, 1, 2])
    keys = rng.sample(ATTRN, n)
    return ['d', [[k, gen_atom(rng)] for k in keys]]


def gen_data(rng, names=None):
    names = VARS if names is None else names
    out = []
    for n in names:
        if rng.random() < 0.9:
            r = rng.random()
            if n in ('xs', 'ys') and r < 0.92:
                v = ['l', [gen_atom(rng) for _ in range(rng.choice([0, 1, 1, 2, 2, 3]))]]
            elif n == 'w' and r < 0.92:
                v = ['d', [[k, gen_atom(rng)] for k in rng.sample(ATTRN, rng.choice([0, 1, 2]))]]
            elif r < 0.85:
                v = gen_atom(rng)
            else:
                v = gen_value(rng)
            out.append([n, v])
    # a data variable that carries the name of a macro (py:def overwrites it)
    if rng.random() < 0.1:
        out.append([rng.choice(MACROS[:3]), gen_value(rng)])
    return out


LISTV = ['xs', 'ys']       # data names that mostly hold lists
DICTV = ['w']              # ... a dict
ATOMV = ['x', 'y', 'z']    # ... an atom


def gen_list_expr(rng, names):
    r = rng.random()
    cands = [n for n in names if n in LISTV]
    if r < 0.6 and cands:
        return ['v', rng.choice(cands)]
    if r < 0.9:
        return ['l', [gen_atom(rng) for _ in range(rng.choice([0, 1, 2, 3]))]]
    return ['s', rng.choice(STRS)]


def gen_expr(rng, names, depth=2):
    """mostly well-typed expressions (errors are wanted, but rarely).  `not` never is an operand of
    `==` or the base of an index: genshi's code generator drops those parentheses (C03 defect, not
    this property's concern)"""
    r = rng.random()
    if depth <= 0 or r < 0.45:
        r = rng.random()
        if r < 0.5 and names:
            return ['v', rng.choice(names)]
        if r < 0.55:
            return ['v', rng.choice(VARS + ['u'])]
        return gen_value(rng)
    r = rng.random()
    if r < 0.35:
        a, b = gen_expr(rng, names, depth - 1), gen_expr(rng, names, depth - 1)
        if a[0] == 'not':
            a = a[1]
        if b[0] == 'not':
            b = b[1]
        while a[0] == 'not':
            a = a[1]
        while b[0] == 'not':
            b = b[1]
        return ['eq', a, b]
    if r < 0.6:
        return ['not', gen_expr(rng, names, depth - 1)]
    if r < 0.8:
        if rng.random() < 0.9:
            return ['len', gen_list_expr(rng, names)]
        return ['len', gen_expr(rng, names, depth - 1)]
    r = rng.random()
    if r < 0.75:
        return ['ix', gen_list_expr(rng, names), rng.choice([['i', 0], ['i', 0], ['i', 1], ['i', -1], ['b', True]])]
    if r < 0.9:
        return ['ix', ['v', rng.choice(DICTV)], ['s', rng.choice(ATTRN)]]
    base = gen_expr(rng, names, depth - 1)
    while base[0] == 'not':
        base = base[1]
    return ['ix', base, gen_expr(rng, names, 0)]


def gen_iter_expr(rng, names):
    """an expression that is mostly an iterable"""
    if rng.random() < 0.92:
        return gen_list_expr(rng, names)
    return gen_expr(rng, names, 1)


def gen_attrs_expr(rng, names):
    r = rng.random()
    if r < 0.5:
        return ['d', [[k, gen_atom(rng)] for k in rng.sample(ATTRN, rng.choice([0, 1, 2]))]]
    if r < 0.9:
        return ['v', 'w']
    return gen_expr(rng, names, 1)


# --------------------------------------------------------------------------
# templates

class GenState(object):
    def __init__(self, rng, lang, opts):
        self.rng = rng
        self.lang = lang
        self.opts = opts
        self.fresh = list(MACROS)      # macro names not yet used (each is defined at most once)
        self.defined = []              # [name, nparams] of completed definitions, in document order
        self.budget = opts.get('size', 14)


def gen_text(rng):
    return ''.join(rng.choice(TEXTCH) for _ in range(rng.randrange(1, 4)))


FALSY = [['n'], ['i', 0], ['s', ''], ['l', []], ['b', False], ['d', []]]


def gen_argval(rng, names, depth):
    """the value of an argument: every falsy value (None first of all) is as likely as a general
    expression — a parameter must be bound to what was passed, whatever it is"""
    r = rng.random()
    if r < 0.2:
        return ['n']
    if r < 0.45:
        return clone(rng.choice(FALSY))
    return gen_expr(rng, names, depth)


def gen_default(rng, names):
    r = rng.random()
    if r < 0.5:
        return clone(rng.choice([['s', 'd'], ['i', 7], ['s', 'Z'], ['b', True], ['l', [['i', 1]]]]))
    if r < 0.6:
        return clone(rng.choice(FALSY))
    return gen_expr(rng, names, 1)


def gen_call(rng, names, macro, tag, depth):
    """a call of a defined macro [name, params, number of defaults]: each parameter is passed by
    position, by keyword, or left out (with or — rarely — without a default: the documented error);
    rarely a surplus positional argument"""
    f, params, nd = macro
    n = len(params)
    r = rng.random()
    if r < 0.3:
        npos = n
    elif r < 0.36:
        npos = n + 1
    else:
        npos = rng.randrange(0, n + 1)
    args = [gen_argval(rng, names, depth) for _ in range(npos)]
    kwargs = []
    rest = list(enumerate(params))[npos:]
    rng.shuffle(rest)                     # keyword arguments in any order
    for i, pn in rest:
        has_default = i >= n - nd
        r = rng.random()
        if r < (0.5 if has_default else 0.93):
            kwargs.append([pn, gen_argval(rng, names, depth)])
    node = [tag, f, args]
    if kwargs:
        node.append(kwargs)
    return node


def gen_dir(st, name, names, in_choose):
    """returns (arg, names bound inside)"""
    rng = st.rng
    if name == 'def':
        fname = st.fresh.pop(0)
        params = rng.sample(['x', 'y', 'p', 'q'], rng.choice([0, 1, 1, 2, 2, 3]))
        # the last nd parameters have defaults (evaluated at each call that leaves them out)
        nd = rng.choice([0, 0, 1, 1, 2, 3])
        nd = min(nd, len(params))
        if nd:
            return [fname, params, [[pn, gen_default(rng, names)] for pn in params[len(params) - nd:]]], list(params)
        return [fname, params], list(params)
    if name == 'for':
        var = rng.choice(['x', 'y', 'it'])
        return [var, gen_iter_expr(rng, names)], [var]
    if name == 'if':
        return gen_expr(rng, names), []
    if name == 'when':
        if rng.random() < 0.1:
            return None, []
        return gen_expr(rng, names, 1), []
    if name == 'otherwise':
        return None, []
    if name == 'choose':
        if rng.random() < 0.5:
            return None, []
        return gen_expr(rng, names, 1), []
    if name == 'with':
        binds = []
        bound = []
        for _ in range(rng.choice([1, 1, 2])):
            v = rng.choice(['x', 'y', 'z', 'w', 'xs'])
            binds.append([v, gen_expr(rng, names + bound, 1)])
            bound.append(v)
        return binds, bound
    if name in ('replace', 'content'):
        if st.defined and rng.random() < 0.15:
            return gen_call(rng, names, rng.choice(st.defined), 'call', 0), []
        return gen_expr(rng, names, 1), []
    if name == 'attrs':
        return gen_attrs_expr(rng, names), []
    if name == 'strip':
        if rng.random() < 0.5:
            return None, []
        return gen_expr(rng, names, 1), []
    raise ValueError(name)


def pick_dirs(st, in_choose, allowed):
    rng = st.rng
    out = []
    p = st.opts.get('pdir', 0.22)
    for d in allowed:
        if d == 'match':
            continue
        q = p
        if d in ('when', 'otherwise'):
            q = 0.5 if in_choose else st.opts.get('pstray', 0.01)
        if d == 'def' and not st.fresh:
            continue
        if d == 'def':
            q = p * 0.6
        if rng.random() < q:
            out.append(d)
    if 'when' in out and 'otherwise' in out:
        out.remove(rng.choice(['when', 'otherwise']))
    if not st.opts.get('replace_mix', True) and 'replace' in out:
        # stay inside the hypothesis "py:replace does not share its element with content/attrs/strip"
        out = [d for d in out if d not in ('content', 'attrs', 'strip')]
    return out


def gen_nodes(st, names, depth, in_choose):
    rng = st.rng
    n = rng.choice([1, 2, 2, 3, 4]) if depth > 0 else rng.choice([1, 2])
    out = []
    for _ in range(n):
        if st.budget <= 0:
            break
        out.append(gen_node(st, names, depth, in_choose))
    return canon_nodes(out)


def gen_node(st, names, depth, in_choose):
    rng = st.rng
    st.budget -= 1
    r = rng.random()
    if depth <= 0 or r < 0.2:
        return ['t', gen_text(rng)]
    if r < 0.4:
        return ['e', gen_expr(rng, names, 2)]
    if r < 0.5:
        if st.defined and rng.random() < 0.97:
            return gen_call(rng, names, rng.choice(st.defined), 'c', 1)
        if rng.random() < 0.04:
            return ['c', rng.choice(['x', 'nf']), []]         # not a macro
        return ['e', gen_expr(rng, names, 2)]
    if st.lang == 'markup' and r < 0.85:
        dirs = pick_dirs(st, in_choose, DOC_ORDER)
        rng.shuffle(dirs)
        return gen_element(st, names, depth, in_choose, dirs)
    # element form / text block
    allowed = TEXT_DIRS if st.lang != 'markup' else TEXT_DIRS + ['replace']
    if in_choose and rng.random() < 0.6:
        dn = rng.choice(['when', 'when', 'otherwise'])
    else:
        dn = rng.choice([d for d in allowed if d not in ('when', 'otherwise')])
        if dn == 'def' and not st.fresh:
            dn = 'if'
    arg, bound = gen_dir(st, dn, names, in_choose)
    kids = gen_nodes(st, names + bound, depth - 1, dn == 'choose' or (in_choose and dn not in ('def',)))
    if dn == 'def':
        st.defined.append([arg[0], list(arg[1]), len(def_defaults(arg))])
    return ['d', dn, arg, kids]


def gen_element(st, names, depth, in_choose, dirnames):
    rng = st.rng
    tag = rng.choice(TAGS)
    attrs = [[a, rng.choice(STRS)] for a in rng.sample(ATTRN, rng.choice([0, 0, 1, 2]))]
    dirs = []
    bound = []
    # arguments are generated in processing order so that inner directives may use names bound by outer ones
    args = {}
    for dn in DOC_ORDER:
        if dn in dirnames:
            arg, b = gen_dir(st, dn, names + bound, in_choose)
            args[dn] = arg
            bound += b
    for dn in dirnames:
        dirs.append([dn, args[dn]])
    inner_choose = ('choose' in dirnames) or (in_choose and 'def' not in dirnames)
    kids = gen_nodes(st, names + bound, depth - 1, inner_choose)
    if 'def' in dirnames:
        st.defined.append([args['def'][0], list(args['def'][1]), len(def_defaults(args['def']))])
    return ['el', tag, attrs, dirs, kids]


def gen_template(rng, lang='markup', **opts):
    """a random template of the given language ('markup', 'newtext', 'oldtext').
    opts: size (node budget), depth, pdir (probability of each directive on an element),
    pstray (py:when/otherwise outside py:choose), replace_mix (allow py:replace together with
    content/attrs/strip on one element)"""
    st = GenState(rng, lang, opts)
    nodes = gen_nodes(st, list(VARS), opts.get('depth', 3), False)
    if lang == 'oldtext':
        nodes, _ = fix_old(nodes)
    return nodes


# --------------------------------------------------------------------------
# running the real engine

# every case is checked for grammar membership (valid_nodes) before it is judged, so a template the
# engine rejects is a failure of the engine, not an invalid input
INVALID = ()


def template_class(lang):
    from genshi.template import MarkupTemplate, NewTextTemplate, OldTextTemplate
    return {'markup': MarkupTemplate, 'newtext': NewTextTemplate, 'oldtext': OldTextTemplate}[lang]


def norm_events(events, root=True):
    """canonical form of an output stream: [S tag [[name value]..]] [E tag] [T serialized-text];
    adjacent text merged (chunking is not observable in the rendered output), text escaped the way
    the XML serializer writes it so that Markup and plain text compare by what is rendered"""
    from genshi.core import START, END, TEXT, Markup, escape
    out = []
    for kind, data, _ in events:
        if kind is START:
            tag, attrs = data
            out.append(['S', str(tag), [[str(k), str(v)] for k, v in attrs]])
        elif kind is END:
            out.append(['E', str(data)])
        elif kind is TEXT:
            s = str(data) if isinstance(data, Markup) else str(escape(data, quotes=False))
            if not s:
                continue
            if out and out[-1][0] == 'T':
                out[-1] = ['T', out[-1][1] + s]
            else:
                out.append(['T', s])
        else:
            out.append(['O', str(kind), str(data)])
    return out


def exact_events(events):
    """the output stream event by event: chunking of text and the Markup flag kept"""
    from genshi.core import START, END, TEXT, Markup
    out = []
    for kind, data, _ in events:
        if kind is START:
            out.append(['S', str(data[0]), [[str(k), str(v)] for k, v in data[1]]])
        elif kind is END:
            out.append(['E', str(data)])
        elif kind is TEXT:
            out.append(['T', str(data), isinstance(data, Markup)])
        else:
            out.append(['O', str(kind)])
    return out


def unroot(ev):
    """drop the events of the root element <r> of to_markup"""
    if len(ev) >= 2 and ev[0][:2] == ['S', 'r'] and ev[-1] == ['E', 'r']:
        return ev[1:-1]
    return ev


def render_real(lang, nodes, data, lookup='lenient', exact=None):
    """['ok', normalised events] | ['err', exception class name] | ['invalid', class name] when the
    template source is rejected at construction"""
    cls = template_class(lang)
    try:
        tmpl = cls(source(lang, nodes), lookup=lookup)
    except Exception as e:   # noqa
        return ['err', type(e).__name__]
    try:
        raw = list(tmpl.generate(**data_kwargs(data)))
        if exact is not None:
            exact.extend(exact_events(raw[1:-1] if lang == 'markup' else raw))
        ev = norm_events(raw)
    except RecursionError:
        return ['err', 'RecursionError']
    except Exception as e:   # noqa
        if type(e).__name__ in INVALID:
            return ['invalid', type(e).__name__]     # directive expressions are parsed on first use
        return ['err', type(e).__name__]
    if lang == 'markup':
        ev = unroot(ev)
    return ['ok', ev]


# --------------------------------------------------------------------------
# wire form for gdrv (see lean/Driver/C04.lean)

def expr_w(e):
    """wire atoms are upper case: a token starting with a lower-case s is a string on the wire"""
    from harness.proto import Atom, B
    k = e[0]
    if k == 'v':
        return [Atom('V'), e[1]]
    if k == 'n':
        return [Atom('N')]
    if k == 'b':
        return [Atom('B'), B(e[1])]
    if k == 'i':
        return [Atom('I'), Atom(str(e[1]))]
    if k == 's':
        return [Atom('S'), e[1]]
    if k == 'l':
        return [Atom('L')] + [expr_w(a) for a in e[1]]
    if k == 'd':
        return [Atom('D')] + [[kk, expr_w(a)] for kk, a in e[1]]
    if k in ('eq', 'ix'):
        return [Atom(k.upper()), expr_w(e[1]), expr_w(e[2])]
    if k in ('not', 'len'):
        return [Atom(k.upper()), expr_w(e[1])]
    if k == 'call':
        # the callee is an expression (a name): it is looked up before the arguments are evaluated
        return [Atom('CALL'), [Atom('V'), e[1]], [expr_w(a) for a in e[2]] +
                [[Atom('KW'), kk, expr_w(a)] for kk, a in call_kwargs(e)]]
    raise ValueError(e)


def opt_w(e):
    from harness.proto import Atom
    return Atom('NONE') if e is None else expr_w(e)


def dir_w(name, arg):
    from harness.proto import Atom
    tag = Atom(name.capitalize())
    if name == 'def':
        dflt = dict((k, v) for k, v in def_defaults(arg))
        return [tag, arg[0], [[Atom('DF'), pn, expr_w(dflt[pn])] if pn in dflt else pn for pn in arg[1]]]
    if name == 'for':
        return [tag, arg[0], expr_w(arg[1])]
    if name in ('if', 'replace', 'content', 'attrs'):
        return [tag, expr_w(arg)]
    if name in ('when', 'choose', 'strip'):
        return [tag, opt_w(arg)]
    if name == 'otherwise':
        return [tag]
    if name == 'with':
        return [tag, [[n, expr_w(x)] for n, x in arg]]
    raise ValueError(name)


def node_w(n):
    from harness.proto import Atom
    k = n[0]
    if k == 't':
        return [Atom('T'), n[1]]
    if k == 'e':
        return [Atom('E'), expr_w(n[1])]
    if k == 'c':
        return [Atom('E'), expr_w(call_expr(n))]
    if k == 'el':
        return [Atom('EL'), n[1], [[a, v] for a, v in n[2]], [dir_w(d, a) for d, a in n[3]],
                [node_w(c) for c in n[4]]]
    if k == 'd':
        return [Atom('DE'), dir_w(n[1], n[2]), [node_w(c) for c in n[3]]]
    raise ValueError(n)


def nodes_w(nodes):
    return [node_w(n) for n in nodes]


def data_w(data):
    return [[n, expr_w(v)] for n, v in data]


def walk(nodes):
    """all nodes, depth first"""
    for n in nodes:
        yield n
        if n[0] == 'el':
            yield from walk(n[4])
        elif n[0] == 'd':
            yield from walk(n[3])


def clone(x):
    return copy.deepcopy(x)


def norm_events_merge(ev):
    """re-normalise a concatenation of normalised streams (merge adjacent text)"""
    out = []
    for e in ev:
        if e[0] == 'T' and out and out[-1][0] == 'T':
            out[-1] = ['T', out[-1][1] + e[1]]
        else:
            out.append(list(e))
    return out


# --------------------------------------------------------------------------
# grammar membership (shrinking a failing case must not leave the grammar)

import re as _re
_NAME = _re.compile(r'^[a-z][a-z0-9]*$')
_KEYWORDS = {'in', 'is', 'if', 'or', 'as', 'and', 'not', 'for', 'def', 'del', 'try', 'len', 'id', 'py', 'r'}
_SAFE = set('ab <&1.kjidXYZvt\n')


def ok_name(n):
    return isinstance(n, str) and bool(_NAME.match(n)) and n not in _KEYWORDS


def ok_key(n):
    return isinstance(n, str) and bool(_NAME.match(n))


def ok_str(s):
    return isinstance(s, str) and set(s) <= _SAFE


def ok_expr(e):
    try:
        k = e[0]
        if k == 'v':
            return ok_name(e[1])
        if k == 'n':
            return len(e) == 1
        if k == 'b':
            return isinstance(e[1], bool)
        if k == 'i':
            return isinstance(e[1], int) and not isinstance(e[1], bool)
        if k == 's':
            return ok_str(e[1])
        if k == 'l':
            return all(a[0] in 'nbis' and ok_expr(a) for a in e[1])
        if k == 'd':
            return all(ok_key(kk) and a[0] in 'nbis' and ok_expr(a) for kk, a in e[1])
        if k in ('eq', 'ix'):
            if k == 'eq' and (e[1][0] == 'not' or e[2][0] == 'not'):
                return False
            if k == 'ix' and e[1][0] == 'not':
                return False
            return ok_expr(e[1]) and ok_expr(e[2])
        if k in ('not', 'len'):
            return ok_expr(e[1])
        if k == 'call':
            return ok_name(e[1]) and all(ok_expr(a) for a in e[2]) and ok_kwargs(e)
    except Exception:
        return False
    return False


def ok_kwargs(n):
    kw = call_kwargs(n)
    return len(n) <= 4 and all(ok_key(k) and ok_expr(a) for k, a in kw) and len(set(k for k, _ in kw)) == len(kw)


def ok_dir(name, arg, elem_form):
    try:
        if name == 'def':
            dflt = def_defaults(arg)
            # the parameters with defaults are the last ones, in order; parameter names are distinct
            return ok_name(arg[0]) and all(ok_name(p) for p in arg[1]) and len(arg) <= 3 and \
                len(set(arg[1])) == len(arg[1]) and \
                [k for k, _ in dflt] == list(arg[1][len(arg[1]) - len(dflt):]) and all(ok_expr(v) for _, v in dflt)
        if name == 'for':
            return ok_name(arg[0]) and ok_expr(arg[1])
        if name in ('if', 'attrs'):
            return ok_expr(arg) and not (elem_form and name == 'attrs')
        if name in ('when', 'choose'):
            return arg is None or ok_expr(arg)
        if name == 'strip':
            return not elem_form and (arg is None or ok_expr(arg))
        if name == 'otherwise':
            return arg is None
        if name == 'with':
            return len(arg) >= 1 and all(ok_name(n) and ok_expr(x) for n, x in arg)
        if name == 'replace':
            return ok_expr(arg)
        if name == 'content':
            return not elem_form and ok_expr(arg)
    except Exception:
        return False
    return False


def valid_nodes(nodes, lang='markup'):
    try:
        for n in nodes:
            k = n[0]
            if k == 't':
                if not ok_str(n[1]) or (lang != 'markup' and set(n[1]) & set('$#{\\')):
                    return False
            elif k == 'e':
                if not ok_expr(n[1]):
                    return False
            elif k == 'c':
                if not (ok_name(n[1]) and all(ok_expr(a) for a in n[2]) and ok_kwargs(n)):
                    return False
            elif k == 'el':
                if lang != 'markup' or not ok_name(n[1]):
                    return False
                if not all(ok_key(a) and ok_str(v) for a, v in n[2]) or len(set(a for a, _ in n[2])) != len(n[2]):
                    return False
                if len(set(d for d, _ in n[3])) != len(n[3]) or not all(ok_dir(d, a, False) for d, a in n[3]):
                    return False
                if not valid_nodes(n[4], lang):
                    return False
            elif k == 'd':
                if n[1] == 'replace' and lang != 'markup':
                    return False
                if not ok_dir(n[1], n[2], True) or not valid_nodes(n[3], lang):
                    return False
            else:
                return False
        return True
    except Exception:
        return False


def valid_data(data):
    try:
        return all(ok_name(n) and v[0] in 'nbisld' and ok_expr(v) for n, v in data) and \
            len(set(n for n, _ in data)) == len(data)
    except Exception:
        return False

"""Generators and source rendering for C14 (code-execution switch).

A *case* is a JSON value

    {"cfg":   {"tmpl": REQ, "loader": REQ, "opt": OPT, "auto_reload": bool},
     "root":  {"kind": "direct", "src": "str"|"bytes"|"file"|"stream", "own_loader": bool[, "pickle": true]}
            | {"kind": "load", "cls": "arg"|"default"}
            | {"kind": "plugin-file"|"plugin-string", "plugin": "markup"|"text"|"newtext"},
     "files": [{"name": str, "syn": "markup"|"newtext"|"oldtext", "items": [ITEM, ...]}, ...],
     "history": [name, ...]}          # optional: loaded and rendered earlier through the same loader

REQ  = "dflt" | "off" | "on"          (the allow_exec keyword: absent / False / True)
OPT  = ["absent"] | ["bool", b] | ["str", s] | ["int", n] | ["none"]     (genshi.allow_exec)
ITEM = ["text", id] | ["expr", id] | ["code", id, place] | ["incl", name, parse, dyn]
place = a key of WRAP (how the code block is wrapped: directive kinds, nesting, xi:fallback)
parse = "same" | "xml" | "text"      dyn = href is an expression (never inlined)

files[0] is the root template.  Code block `id` runs `sentinel.append(id)`.
"""
import itertools

NS = 'xmlns:py="http://genshi.edgewall.org/" xmlns:xi="http://www.w3.org/2001/XInclude"'
EXT = {'markup': '.html', 'newtext': '.txt', 'oldtext': '.old'}
CLASSES = ['markup', 'newtext', 'oldtext']
REQS = ['dflt', 'off', 'on']
# how a code block (or, for the code-free twin, a plain expression) is wrapped: place -> (markup
# fragment, new-style text fragment or None, number of times the block runs).  @K@ = the block,
# @I@ = its id.  The fragments produce no output token (`t<id>;` / `e<id>;`).
def _n(*frags):
    """nest the fragments: each one goes into the @K@ of the one before"""
    out = '@K@'
    for f in frags:
        out = out.replace('@K@', f)
    return out


_INC = '<xi:include href="nofile.html"><xi:fallback>@K@</xi:fallback></xi:include>'
_INCD = '<xi:include href="${\'nofile.html\'}"><xi:fallback>@K@</xi:fallback></xi:include>'
_CH_M = '<py:choose test="1"><py:when test="1">@K@</py:when><py:otherwise>o</py:otherwise></py:choose>'
_OT_M = '<py:choose test="1"><py:when test="2">w</py:when><py:otherwise>@K@</py:otherwise></py:choose>'
_CH_T = '{% choose 1 %}{% when 1 %}@K@{% end %}{% otherwise %}o{% end %}{% end %}'
_OT_T = '{% choose 1 %}{% when 2 %}w{% end %}{% otherwise %}@K@{% end %}{% end %}'
_IF_M, _FOR_M, _WITH_M = ('<py:if test="True">@K@</py:if>', '<py:for each="_ in range(2)">@K@</py:for>',
                          '<py:with vars="v=1">@K@</py:with>')
_IF_T, _FOR_T, _WITH_T = '{% if True %}@K@{% end %}', '{% for _ in range(2) %}@K@{% end %}', '{% with v=1 %}@K@{% end %}'
_DEF_M, _DEF_T = '<py:def function="f@I@()">@K@</py:def>${f@I@()}', '{% def f@I@() %}@K@{% end %}${f@I@()}'
_MATCH_M = '<py:match path="m@I@">@K@</py:match><m@I@/>'
WRAP = {
    # place: (markup, newtext, multiplicity)
    'top': ('@K@', '@K@', 1),
    'if': (_IF_M, _IF_T, 1),
    'ifalse': ('<py:if test="False">@K@</py:if>', '{% if False %}@K@{% end %}', 0),
    'for': (_FOR_M, _FOR_T, 2),
    'def': (_DEF_M, _DEF_T, 1),
    'match': (_MATCH_M, None, 1),
    # wave 4: every directive kind, nesting depth >= 2, xi:fallback
    'with': (_WITH_M, _WITH_T, 1),
    'when': (_CH_M, _CH_T, 1),
    'otherwise': (_OT_M, _OT_T, 1),
    'ifattr': ('<p py:if="True">@K@</p>', None, 1),
    'multiattr': ('<p py:if="True" py:for="_ in range(2)" py:with="v=1">@K@</p>', None, 2),
    'deepelem': ('<a><b><c>@K@</c></b></a>', None, 1),
    'if_for': (_n(_IF_M, _FOR_M), _n(_IF_T, _FOR_T), 2),
    'for_if_with': (_n(_FOR_M, _IF_M, _WITH_M), _n(_FOR_T, _IF_T, _WITH_T), 2),
    'def_if': (_n(_DEF_M, _IF_M), _n(_DEF_T, _IF_T), 1),
    'match_for_if': (_n(_MATCH_M, _FOR_M, _IF_M), None, 2),
    'with_when_if': (_n(_WITH_M, _CH_M, _IF_M), _n(_WITH_T, _CH_T, _IF_T), 1),
    'otherwise_for': (_n(_OT_M, _FOR_M), _n(_OT_T, _FOR_T), 2),
    'if_if_if_if': (_n(_IF_M, _IF_M, _IF_M, _IF_M), _n(_IF_T, _IF_T, _IF_T, _IF_T), 1),
    'fallback': (_INC, None, 1),
    'fallback_dyn': (_INCD, None, 1),
    'if_fallback': (_n(_IF_M, _INC), None, 1),
    'fallback_for_if': (_n(_INC, _FOR_M, _IF_M), None, 2),
    'fallback_fallback': (_n(_INCD, _IF_M, _INC), None, 1),
    # after long content (a guard that only looks at the beginning of the stream)
    'long': ('<i a="1">x ${1}</i>' * 14 + '@K@', 'x ${1} {# c #}\n' * 14 + '@K@', 1),
}
PLACES_OLD = ['top', 'if', 'for', 'def', 'match', 'ifalse']
PLACES_MARKUP = [p for p in WRAP if WRAP[p][0] is not None]
PLACES_TEXT = [p for p in WRAP if WRAP[p][1] is not None]
MULT = dict((p, w[2]) for p, w in WRAP.items())


def wrap(syn, place, inner, i):
    """the fragment that puts `inner` at `place` in a template of class `syn`"""
    frag = WRAP[place][0 if syn == 'markup' else 1]
    if frag is None:
        raise ValueError(place)
    return frag.replace('@I@', str(i)).replace('@K@', inner)


WORDS_ON = ['yes', 'true', 'on', '1']
WORDS_OFF = ['no', 'false', 'off', '0']


def case_variants(word):
    """all letter-case variants of a word"""
    opts = [sorted(set([c.lower(), c.upper()])) for c in word]
    return [''.join(t) for t in itertools.product(*opts)]


def all_spellings():
    """every OPT value the translator probes and the check enumerates"""
    out = [['absent'], ['bool', False], ['bool', True], ['int', 0], ['int', 1], ['none'],
           ['str', ''], ['str', 'bogus'], ['str', 'y'], ['str', 'n'], ['str', 'none'], ['str', ' no'],
           ['str', 'disabled']]
    for w in WORDS_ON + WORDS_OFF:
        for v in case_variants(w):
            out.append(['str', v])
    return out


def deep_spellings():
    return [['absent'], ['bool', False], ['str', 'no'], ['str', 'yes'], ['str', 'FALSE'], ['str', 'bogus']]


def core_spellings():
    return [['absent'], ['bool', False], ['bool', True]] + [['str', w] for w in WORDS_ON + WORDS_OFF] + \
           [['str', 'No'], ['str', 'FALSE'], ['str', 'bogus'], ['int', 0], ['none']]


# --------------------------------------------------------------------------
# items -> template source

def stmt(i):
    return 'sentinel.append(%d)' % i


def src_markup(items, abs_dir=None):
    out = ['<r %s>' % NS]
    for it in items:
        k = it[0]
        if k == 'text':
            out.append('t%d;' % it[1])
        elif k == 'expr':
            out.append("${'e%d;'}" % it[1])
        elif k == 'code':
            i, place = it[1], it[2]
            out.append(wrap('markup', place, '<?python %s ?>' % stmt(i), i))
        elif k == 'incl':
            name, parse, dyn = it[1], it[2], it[3]
            if abs_dir:
                name = abs_dir + '/' + name
            href = "${'%s'}" % name if dyn else name
            p = '' if parse == 'same' else ' parse="%s"' % parse
            out.append('<xi:include href="%s"%s/>' % (href, p))
        else:
            raise ValueError(k)
    out.append('</r>')
    return ''.join(out)


def src_newtext(items, abs_dir=None):
    out = []
    for it in items:
        k = it[0]
        if k == 'text':
            out.append('t%d;' % it[1])
        elif k == 'expr':
            out.append("${'e%d;'}" % it[1])
        elif k == 'code':
            i, place = it[1], it[2]
            out.append(wrap('newtext', place, '{%% python %s %%}' % stmt(i), i))
        elif k == 'incl':
            name, dyn = it[1], it[3]
            if abs_dir:
                name = abs_dir + '/' + name
            out.append('{%% include %s %%}' % ("${'%s'}" % name if dyn else name))
        else:
            raise ValueError(k)
    return ''.join(out)


def src_oldtext(items, abs_dir=None):
    out = []
    for it in items:
        k = it[0]
        if k == 'text':
            out.append('t%d;\n' % it[1])
        elif k == 'expr':
            out.append("${'e%d;'}\n" % it[1])
        elif k == 'code':
            # old-style text templates have no code-block syntax; the only candidate spelling
            # is an unknown directive
            out.append('#python %s\n' % stmt(it[1]))
        elif k == 'incl':
            name = it[1]
            if abs_dir:
                name = abs_dir + '/' + name
            out.append('#include %s\n' % name)
        else:
            raise ValueError(k)
    return ''.join(out)


RENDER = {'markup': src_markup, 'newtext': src_newtext, 'oldtext': src_oldtext}


def source(f, abs_dir=None):
    return RENDER[f['syn']](f['items'], abs_dir)


# --------------------------------------------------------------------------
# structure helpers

def file_map(case):
    return dict((f['name'], f) for f in case['files'])


def includes(f):
    return [it for it in f['items'] if it[0] == 'incl']


def child_syn(syn, parse):
    """the class an include of a template of class `syn` asks for (None: not expressible)"""
    if syn == 'markup':
        return {'same': 'markup', 'xml': 'markup', 'text': 'newtext'}[parse]
    return syn if parse == 'same' else None


def reachable(case):
    """names of the files reachable from the root through includes, in DFS pre-order"""
    fm = file_map(case)
    seen, order = set(), []

    def go(n):
        if n in seen or n not in fm:
            return
        seen.add(n)
        order.append(n)
        for it in includes(fm[n]):
            go(it[1])
    go(case['files'][0]['name'])
    return order


def cyclic(case):
    fm = file_map(case)
    state = {}

    def go(n):
        if n not in fm:
            return False
        if state.get(n) == 1:
            return True
        if state.get(n) == 2:
            return False
        state[n] = 1
        for it in includes(fm[n]):
            if go(it[1]):
                return True
        state[n] = 2
        return False
    return go(case['files'][0]['name'])


def code_items(f):
    return [it for it in f['items'] if it[0] == 'code']


# --------------------------------------------------------------------------
# exhaustive enumeration (the configuration space is finite and small)

def chains(root_syn, maxdepth):
    """every include chain (list of parse modes) of length <= maxdepth from a root of class root_syn"""
    out = [[]]
    frontier = [([], root_syn)]
    for _ in range(maxdepth):
        nxt = []
        for ch, syn in frontier:
            for p in (['same', 'xml', 'text'] if syn == 'markup' else ['same']):
                c = child_syn(syn, p)
                nxt.append((ch + [p], c))
                out.append(ch + [p])
        frontier = nxt
    return out


def chain_files(root_syn, chain, code, place='top', dyn=False, filler=True):
    """a linear tree: file i includes file i+1 with parse mode chain[i]; the code block (if any)
    sits in the last file"""
    files = []
    syn = root_syn
    n = len(chain)
    for i in range(n + 1):
        items = []
        if filler:
            items.append(['text', 10 * i + 1])
        if i < n:
            nxt = child_syn(syn, chain[i])
            items.append(['incl', 'f%d%s' % (i + 1, EXT[nxt]), chain[i], dyn])
        elif code:
            items.append(['code', 10 * i + 5, place])
        if filler:
            items.append(['expr', 10 * i + 2])
        files.append({'name': 'f%d%s' % (i, EXT[syn]), 'syn': syn, 'items': items})
        if i < n:
            syn = nxt
    return files


def root_configs(root_syn, spellings, deep=False):
    """every (root, cfg) pair for a root template of class root_syn (deep: the include chain is
    longer than one step; the source kinds that differ only in how the text is read, and the
    letter-case variants, are then left to the shallow chains)"""
    out = []
    core = core_spellings()
    srcs = ['str'] + ([] if deep else ['bytes', 'file']) + (['stream'] if root_syn == 'markup' else [])
    for src in srcs:
        for t in REQS:
            out.append(({'kind': 'direct', 'src': src, 'own_loader': True},
                        {'tmpl': t, 'loader': 'dflt', 'opt': ['absent'], 'auto_reload': False}))
            for l in REQS:
                for ar in (False, True):
                    out.append(({'kind': 'direct', 'src': src, 'own_loader': False},
                                {'tmpl': t, 'loader': l, 'opt': ['absent'], 'auto_reload': ar}))
    for cls in ('arg', 'default'):
        for l in REQS:
            for ar in (False, True):
                out.append(({'kind': 'load', 'cls': cls},
                            {'tmpl': 'dflt', 'loader': l, 'opt': ['absent'], 'auto_reload': ar}))
    plugin = {'markup': 'markup', 'newtext': 'newtext', 'oldtext': 'text'}[root_syn]
    for kind in ('plugin-file', 'plugin-string'):
        for o in spellings:
            for ar in ((False, True) if o in core else (False,)):
                out.append(({'kind': kind, 'plugin': plugin},
                            {'tmpl': 'dflt', 'loader': 'dflt', 'opt': o, 'auto_reload': ar}))
    return out


def slim_configs(root_syn):
    """a small set of (root, cfg) pairs: every kind of root, flags off / on / mixed, both reload modes"""
    out = []
    ab = ['absent']
    for t in ('off', 'on'):
        out.append(({'kind': 'direct', 'src': 'str', 'own_loader': True},
                    {'tmpl': t, 'loader': 'dflt', 'opt': ab, 'auto_reload': False}))
    for t, l in (('off', 'off'), ('on', 'off'), ('off', 'on')):
        for ar in (False, True):
            out.append(({'kind': 'direct', 'src': 'str', 'own_loader': False},
                        {'tmpl': t, 'loader': l, 'opt': ab, 'auto_reload': ar}))
    for l in ('off', 'on'):
        for ar in (False, True):
            out.append(({'kind': 'load', 'cls': 'arg'}, {'tmpl': 'dflt', 'loader': l, 'opt': ab, 'auto_reload': ar}))
    plugin = {'markup': 'markup', 'newtext': 'newtext', 'oldtext': 'text'}[root_syn]
    for kind in ('plugin-file', 'plugin-string'):
        for o in (['str', 'No'], ['bool', False], ab):
            out.append(({'kind': kind, 'plugin': plugin},
                        {'tmpl': 'dflt', 'loader': 'dflt', 'opt': o, 'auto_reload': o[0] == 'bool'}))
    return out


def enumerate_cases(thorough=False):
    """the finite configuration space: classes x roots x configurations x spellings x include
    chains x (code block in the deepest template | code-free).  Quick: chains of depth <= 3,
    every letter-case variant at depth <= 1; thorough: depth <= 4, every variant and source kind
    at every depth"""
    cases = []
    maxdepth = 4 if thorough else 3
    full, core = all_spellings(), core_spellings()
    for syn in CLASSES:
        for ch in chains(syn, maxdepth):
            for code in (True, False):
                # every letter-case variant with a code block at depth <= 1; the code-free twin
                # (rendered twice, flags as given and forced on) under the core spellings
                spell = full if (len(ch) <= 1 and code) else (core if len(ch) <= 1 else deep_spellings())
                if thorough:
                    spell = full if code else core
                files = chain_files(syn, ch, code)
                for root, cfg in root_configs(syn, spell, deep=(len(ch) > 1 and not thorough)):
                    cases.append({'cfg': cfg, 'root': root, 'files': files})
    # placements of the code block (wrapped in directives, match templates, function bodies) and
    # run-time (dynamic) includes, at depth <= 1, under the core configurations
    for syn in ('markup', 'newtext'):
        places = PLACES_MARKUP if syn == 'markup' else PLACES_TEXT
        for ch in chains(syn, 1):
            last = syn
            for p in ch:
                last = child_syn(last, p)
            for place in (PLACES_MARKUP if last == 'markup' else PLACES_TEXT):
                for dyn in (False, True):
                    if place == 'top' and not dyn:
                        continue
                    if dyn and not ch:
                        continue
                    files = chain_files(syn, ch, True, place, dyn)
                    if place not in PLACES_OLD:
                        # wave 4 placements (every directive kind, nesting, fallbacks): static
                        # includes, a slim set of configurations (thorough: the full set)
                        if dyn:
                            continue
                        if not thorough:
                            for root, cfg in slim_configs(syn):
                                cases.append({'cfg': cfg, 'root': root, 'files': files})
                            continue
                    for root, cfg in root_configs(syn, [['absent'], ['str', 'no'], ['str', 'yes'], ['bool', False]]):
                        if root['kind'] == 'direct' and root['src'] not in ('str', 'stream'):
                            continue
                        cases.append({'cfg': cfg, 'root': root, 'files': files})
    # a directly constructed template that goes through pickle before its first render: what it
    # includes is instantiated by the unpickled loader (its own, or a fresh explicit one)
    for syn in CLASSES:
        for ch in chains(syn, 2):
            if not ch:
                continue
            files = chain_files(syn, ch, True)
            for own in (True, False):
                for t, l in (('off', 'off'), ('on', 'on'), ('off', 'on'), ('on', 'off')):
                    if own and l != t:
                        continue
                    for ar in ((False,) if own else (False, True)):
                        cases.append({'cfg': {'tmpl': t, 'loader': l if not own else 'dflt', 'opt': ['absent'], 'auto_reload': ar},
                                      'root': {'kind': 'direct', 'src': 'str', 'own_loader': own, 'pickle': True},
                                      'files': files})
    return cases


# --------------------------------------------------------------------------
# seeded random include graphs (cycles, diamonds, repeated includes, histories)

def random_case(rng):
    root_syn = rng.choice(['markup', 'markup', 'markup', 'newtext', 'newtext', 'oldtext'])
    nfiles = rng.randrange(1, 6)
    syns = [root_syn]
    for _ in range(nfiles - 1):
        if root_syn == 'markup':
            syns.append(rng.choice(['markup', 'markup', 'newtext']))
        else:
            syns.append(root_syn)
    names = ['f%d%s' % (i, EXT[s]) for i, s in enumerate(syns)]
    p_code = rng.choice([0.0, 0.15, 0.4])
    acyclic = rng.random() < 0.8
    files = []
    nid = [0]

    def fresh():
        nid[0] += 1
        return nid[0]
    for i, syn in enumerate(syns):
        items = []
        for _ in range(rng.randrange(0, 5)):
            r = rng.random()
            if r < 0.3:
                items.append(['text', fresh()])
            elif r < 0.4:
                items.append(['expr', fresh()])
            elif r < 0.4 + p_code:
                places = PLACES_MARKUP if syn == 'markup' else (PLACES_TEXT if syn == 'newtext' else ['top'])
                items.append(['code', fresh(), rng.choice(places)])
            else:
                cands = [j for j in range(nfiles)
                         if (j > i or not acyclic) and (syns[j] == syn or (syn == 'markup' and syns[j] == 'newtext'))]
                if not cands:
                    items.append(['text', fresh()])
                    continue
                j = rng.choice(cands)
                if syn == 'markup':
                    parse = 'text' if syns[j] == 'newtext' else rng.choice(['same', 'xml'])
                else:
                    parse = 'same'
                dyn = syn != 'oldtext' and rng.random() < 0.3
                items.append(['incl', names[j], parse, dyn])
        files.append({'name': names[i], 'syn': syn, 'items': items})
    spell = core_spellings()
    root, cfg = rng.choice(root_configs(root_syn, spell))
    case = {'cfg': cfg, 'root': root, 'files': files}
    if root['kind'] == 'direct' and rng.random() < 0.25:
        case['root'] = dict(root, pickle=True)
        return case
    if root['kind'] in ('load', 'plugin-file') or (root['kind'] == 'direct' and not root['own_loader']):
        if nfiles > 1 and rng.random() < 0.4:
            # loaded (with the class matching the file) and rendered earlier through the same
            # loader; never the root itself
            case['history'] = [names[rng.randrange(1, nfiles)] for _ in range(rng.randrange(1, 3))]
        if rng.random() < 0.5:
            # a small cache bound: templates are evicted and parsed again; with more earlier loads
            case['cache'] = rng.choice([0, 1, 1, 2, 2, 3])
            if nfiles > 1:
                case['history'] = [names[rng.randrange(1, nfiles)]
                                   for _ in range(rng.randrange(1, 7))]
    return case


def random_lru_case(rng):
    """a loader with a small cache bound, several load-and-render calls through it (any file,
    the root's among them, repeated), then the root: templates are evicted and parsed again"""
    case = random_case(rng)
    # acyclic graphs only: every call of a history over a cyclic graph runs into the recursion
    # limit, which costs a second each (cycles are covered by the single-render cases)
    while len(case['files']) < 2 or any(cyclic(dict(case, files=[f] + [g for g in case['files'] if g is not f]))
                                        for f in case['files']):
        case = random_case(rng)
    names = [f['name'] for f in case['files']]
    case['root'] = {'kind': 'load', 'cls': rng.choice(['arg', 'default'])}
    case['cfg'] = {'tmpl': 'dflt', 'loader': rng.choice(['off', 'off', 'off', 'on', 'dflt']), 'opt': ['absent'],
                   'auto_reload': rng.random() < 0.4}
    case['cache'] = rng.choice([0, 1, 1, 2, 2, 3])
    case['history'] = [rng.choice(names) for _ in range(rng.randrange(2, 9))]
    return case


# --------------------------------------------------------------------------
# parse level: random markup documents and text-template segment lists (for the models of
# MarkupTemplate._parse / NewTextTemplate._parse)

TEXTS = ['word ', 'a b', '$name ', "${1+1}", 'x\ny', ' ', 'p & q'.replace('&', 'and'), '$x.y ', '${x', "${'}'}"]
CODES = ['x = 1', 'import os', 'def f():\n  return 1', 'x =', '1 +', 'sentinel.append(1)']


def random_markup_doc(rng, p_code):
    """a well-formed document: elements, text, comments (some starting with '!'), processing
    instructions (python and others)"""
    def node(depth):
        r = rng.random()
        if r < 0.3:
            t = rng.choice(TEXTS)
            return t.replace('<', '').replace('&', '')
        if r < 0.3 + p_code:
            return '<?python %s ?>' % rng.choice(CODES)
        if r < 0.45 + p_code:
            return '<?%s data?>' % rng.choice(['php', 'pythonx', 'xml-stylesheet', 'Python'])
        if r < 0.55 + p_code:
            return '<!--%s-->' % rng.choice(['! hidden', ' shown ', '  ! also hidden', 'x!', ''])
        if depth >= 3:
            return '<e/>'
        kids = ''.join(node(depth + 1) for _ in range(rng.randrange(0, 4)))
        attr = rng.choice(['', ' a="1"', ' b="$x"'])
        return '<n%d%s>%s</n%d>' % (depth, attr, kids, depth)
    return '<r>%s</r>' % ''.join(node(1) for _ in range(rng.randrange(1, 5)))


DIRS = [('if', 'x'), ('for', 'i in xs'), ('def', 'f(a)'), ('with', 'a=1'), ('choose', ''), ('when', 'x'), ('otherwise', '')]


def random_text_segs(rng, p_code):
    """segments of a new-style text template: ['T', text] | ['D', command, value] | ['C']"""
    segs = []
    depth = 0
    for _ in range(rng.randrange(1, 9)):
        r = rng.random()
        if r < 0.3:
            if segs and segs[-1][0] == 'T':
                continue
            segs.append(['T', rng.choice(TEXTS)])
        elif r < 0.3 + p_code:
            segs.append(['D', 'python', rng.choice(CODES).replace('\n  ', ' ').replace('\n', ' ')])
        elif r < 0.4 + p_code:
            segs.append(['C'])
        elif r < 0.5 + p_code:
            segs.append(['D', 'include', rng.choice(['f.txt', '${name}', '$x', '${'])])
        elif r < 0.75 + p_code:
            c, v = rng.choice(DIRS)
            segs.append(['D', c, v])
            depth += 1
        elif r < 0.95 + p_code:
            segs.append(['D', 'end', rng.choice(['', 'if'])])
            depth -= 1
        else:
            segs.append(['D', rng.choice(['frob', 'Python', 'pythons']), 'x'])
    return segs


def text_source(segs):
    out = []
    for s in segs:
        if s[0] == 'T':
            out.append(s[1])
        elif s[0] == 'C':
            out.append('{# c #}')
        else:
            out.append('{%% %s %s %%}' % (s[1], s[2]) if s[2] else '{%% %s %%}' % s[1])
    return ''.join(out)

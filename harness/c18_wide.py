"""C18, wave 4 — the rest of the safe-string / attribute algebra: three-way correspondence
(C class built from the current _speedups.c / pure-Python class from the current core.py /
Lean model `Genshi.MarkupOps` through gdrv, one request per implementation) including the
run-time TYPE of every result, Markup- and str-subclass operands, None and ints, NUL and
non-BMP characters, long strings; Attrs accessors; QName / Namespace; and the laws of the
property evaluated on the real classes (independent of the model)."""
import copy, json, pickle, random, re
from harness import proto, stage
from harness.framework import Result
from harness.proto import Atom, B

ALPHA = ['&', '<', '>', '"', "'", ';', '#', '3', '4', 'a', 'm', 'p', 'l', 't', 'g', 'q', 'u', 'o',
         'é', '\U0001F600', '\x00', '\n', ' ', '%', 's', '(', ')', 'k', '-', '!', 'x', '\\', '\t', '\x7f']
FRAGS = ['&amp;', '&lt;', '&gt;', '&#34;', '&quot;', '&apos;', '&amp;amp;', '&amp;lt;', '&#', '&l', 't;', '&amp',
         '&&', '<<>>', '&hellip;', '&#65;', '&#x41;', '&#X3c', '&foo;', '&#55357;', '&#1114112;', '&nbsp',
         '<b>', '</b>', '<!--', '-->', '<!-- x -->', '<!--\n-->', '<br/>', '<a href=">">', '<!', '--', '&#34',
         '<!--\n>x-->', '<!-- a\nb > c -->', '<!--\n', '\n>', '<!-->', '<!--->', '<!---->']
KEYS = ['k', 'a', 'key', 'é']
SAFE_KINDS = ('m', 'ms', 'h')
STRING_KINDS = ('p', 'ps', 'm', 'ms', 'h')


MAPCONV = re.compile(r'%%|%\([^()]*\)[a-zA-Z]')


def spec_escape(s, q=True):
    """independent statement of the property: exactly & < > (and ") become entities"""
    m = {'&': '&amp;', '<': '&lt;', '>': '&gt;'}
    if q:
        m['"'] = '&#34;'
    return ''.join(m.get(c, c) for c in s)


def rand_text(rng, maxlen=10):
    n = rng.randrange(0, maxlen)
    out = []
    for _ in range(n):
        r = rng.random()
        if r < 0.25:
            out.append(rng.choice(FRAGS))
        elif r < 0.92:
            out.append(rng.choice(ALPHA))
        else:
            out.append(chr(rng.choice([rng.randrange(0x20, 0x7f), rng.randrange(0xa0, 0xd7ff),
                                       rng.randrange(0xe000, 0xffff), rng.randrange(0x10000, 0x10ffff)])))
    return ''.join(out)


def long_text(rng):
    unit = rand_text(rng, 8) or '<'
    return unit * rng.randrange(500, 3000)


class Html(object):
    def __init__(self, s):
        self.s = s

    def __html__(self):
        return self.s


class StrSub(str):
    pass


_IMPLS = None


def impls():
    """{'c': (Markup, MSub, module), 'py': (...)}"""
    global _IMPLS
    if _IMPLS is None:
        import genshi.core
        py = stage.load_py_core()
        out = {}
        for name, mod in (('c', genshi.core), ('py', py)):
            cls = mod.Markup
            sub = type('MSub', (cls,), {'__slots__': ()})
            out[name] = (cls, sub, mod)
        _IMPLS = out
    return _IMPLS


def mk_arg(impl, o):
    cls, sub, _ = impl
    k = o[0]
    if k == 'p':
        return o[1]
    if k == 'ps':
        return StrSub(o[1])
    if k == 'm':
        return cls(o[1])
    if k == 'ms':
        return sub(o[1])
    if k == 'h':
        return Html(o[1])
    if k == 'N':
        return None
    if k == 'i':
        return o[1]
    raise ValueError(k)


def wire_arg(o):
    k = o[0]
    if k == 'N':
        return Atom('N')
    if k == 'i':
        return [Atom('i'), o[1]]
    if k == 'ps':
        return [Atom('p'), o[1]]
    return [Atom(k), o[1]]


def once(o, q=True):
    return o[1] if o[0] in SAFE_KINDS else spec_escape(o[1], q)


def is_stringy(o):
    return o[0] in STRING_KINDS


def tyname(impl, r):
    cls, sub, _ = impl
    t = type(r)
    if t is str:
        return 'str'
    if t is cls:
        return 'Markup'
    if t is sub:
        return 'MSub'
    return t.__name__


def outcome(impl, fn):
    try:
        r = fn()
    except Exception as e:  # noqa
        return ('err', type(e).__name__)
    if isinstance(r, str):
        return ('ok', tyname(impl, r), str.__str__(r))
    return ('ok', type(r).__name__, repr(r))


def rand_arg(rng, nonstring=0.12):
    r = rng.random()
    if r < nonstring:
        return ['N'] if rng.random() < 0.4 else ['i', rng.choice([0, 0, 1, 5, -3, 42, 10 ** 12])]
    return [rng.choice(['p', 'p', 'p', 'ps', 'm', 'ms', 'h']), rand_text(rng, 7)]


def rand_fmt(rng):
    parts, nargs, keys = [], 0, []
    mode = rng.choice(['pos', 'pos', 'map', 'none'])
    for _ in range(rng.randrange(0, 5)):
        r = rng.random()
        if r < 0.35:
            parts.append(rand_text(rng, 4).replace('%', ''))
        elif r < 0.45:
            parts.append('%%')
        elif r < 0.5:
            parts.append(rng.choice(['%5s', '%-3s', '%.1s', '%x', '%', '%(k', '%c', '%i', '%(k)5s', '%((k))s', '%*s']))
        elif mode == 'pos':
            parts.append(rng.choice(['%s', '%s', '%s', '%r', '%d']))
            nargs += 1
        elif mode == 'map':
            k = rng.choice(KEYS)
            keys.append(k)
            parts.append('%%(%s)%s' % (k, rng.choice(['s', 's', 's', 'r', 'd'])))
    return ''.join(parts), mode, nargs, keys


# --------------------------------------------------------------------------
# generation

ATTR_NAMES = ['a', 'b', 'c', 'href', 'x', '{ns}a']


def rand_attrs(rng, dup=0.3):
    out = []
    if rng.random() < dup:
        for _ in range(rng.randrange(0, 5)):
            out.append([rng.choice(ATTR_NAMES), rand_text(rng, 3)])
    else:
        for nme in rng.sample(ATTR_NAMES, rng.randrange(0, 5)):
            out.append([nme, rand_text(rng, 3)])
    return out


def rand_qname_text(rng):
    parts = []
    for _ in range(rng.randrange(0, 5)):
        parts.append(rng.choice(['{', '}', 'a', 'ns', 'http://x/y', 'b', '{{', '}}', 'é', ':', '']))
    return ''.join(parts)


def gen_cases(rng, n):
    cases = []
    for _ in range(n):
        r = rng.random()
        c = {'kind': 'w'}
        if r < 0.10:
            c.update(op='esc2', arg=rand_arg(rng), q=rng.random() < 0.5)
        elif r < 0.17:
            c.update(op=rng.choice(['add2', 'radd2']), self=rand_text(rng, 5), arg=rand_arg(rng))
        elif r < 0.22:
            a = ['i', rng.choice([-2, -1, 0, 1, 2, 3])] if rng.random() < 0.85 else rand_arg(rng, 0.3)
            if a[0] == 'i' and abs(a[1]) > 50:
                a = ['i', 7]     # a repetition count, not a memory test
            c.update(op=rng.choice(['mul2', 'rmul2']), self=rand_text(rng, 5), arg=a)
        elif r < 0.30:
            c.update(op='join2', self=rand_text(rng, 3), q=rng.random() < 0.5,
                     xs=[rand_arg(rng, 0.06) for _ in range(rng.randrange(0, 4))],
                     seq=rng.choice(['list', 'tuple', 'gen']))
        elif r < 0.45:
            fmt, mode, nargs, keys = rand_fmt(rng)
            c.update(op='mod2', self=fmt)
            if mode == 'map' and (keys or rng.random() < 0.5):
                ks = list(dict.fromkeys(keys))
                if rng.random() < 0.1:
                    ks = ks[:-1]
                c.update(mode='map', kv=[[k, rand_arg(rng, 0.06)] for k in ks])
            elif nargs == 1 and rng.random() < 0.6:
                c.update(mode='one', arg=rand_arg(rng, 0.06))
            else:
                n_ = nargs if rng.random() < 0.9 else nargs + rng.choice([-1, 1])
                c.update(mode='tup', xs=[rand_arg(rng, 0.06) for _ in range(max(0, n_))])
        elif r < 0.49:
            c.update(op='repr', s=rand_text(rng, 6))
        elif r < 0.54:
            c.update(op='unescm', s=rand_text(rng, 8), sub=rng.random() < 0.3)
        elif r < 0.57:
            c.update(op='unescfn', arg=[rng.choice(['p', 'ps', 'm', 'ms']), rand_text(rng, 8)])
        elif r < 0.66:
            c.update(op='stripent', s=rand_text(rng, 9), keep=rng.random() < 0.5)
        elif r < 0.74:
            c.update(op='striptags', s=rand_text(rng, 9))
        elif r < 0.79:
            c.update(op='plaintext', s=rand_text(rng, 9), keep=rng.random() < 0.5)
        elif r < 0.91:
            a = rand_attrs(rng)
            op = rng.choice(['has', 'get', 'idx', 'slice', 'substr', 'totuple', 'orsub', 'orget'])
            c.update(op='attrs_' + op, a=a, qn=rng.random() < 0.5)   # qn: the names are QName objects, as in a parsed stream
            if op in ('has', 'get', 'substr'):
                c['n'] = rng.choice(ATTR_NAMES)
            elif op == 'idx':
                c['i'] = rng.randrange(-6, 6)
            elif op == 'slice':
                c['i'] = None if rng.random() < 0.3 else rng.randrange(-6, 6)
                c['j'] = None if rng.random() < 0.3 else rng.randrange(-6, 6)
            elif op in ('orsub', 'orget'):
                c['other'] = [[rng.choice(ATTR_NAMES), None if rng.random() < 0.3 else rand_text(rng, 3)]
                              for _ in range(rng.randrange(0, 5))]
                c['names'] = rng.sample(ATTR_NAMES, rng.randrange(0, 3))
                c['n'] = rng.choice(ATTR_NAMES)
        else:
            op = rng.choice(['qname', 'qname', 'ns_get', 'ns_contains', 'ns_eq'])
            c.update(op=op)
            if op == 'qname':
                c['s'] = rand_qname_text(rng)
            elif op == 'ns_get':
                c.update(uri=rand_qname_text(rng), name=rng.choice(['a', 'b}', '{c', 'é', '']))
            elif op == 'ns_contains':
                u = rand_qname_text(rng)
                c.update(uri=u, s=rng.choice([u + '}a', '{' + u + '}a', rand_qname_text(rng), 'a']))
            else:
                u = rand_qname_text(rng)
                c.update(uri=u, other=rng.choice([u, u, rand_qname_text(rng)]), as_ns=rng.random() < 0.5)
        cases.append(c)
    return cases


def edge_cases():
    """hand-made edge cases (what the self-test mutations and the code reading turned up), run by
    shard 0 on every seed so that their detection does not depend on the seed"""
    W = lambda **kw: dict(kind='w', **kw)
    out = []
    for t in ['<!--\n>x-->y', '<!-- a\nb > c -->', '<<a>b>', '<!---->x', '<!--->x-->y', 'a<', '<', '<>', '<!-->',
              '<!--x--><b>y</b>', '<a href=">">z', '<!-- -- -->k', '<!--\n-->', 'x<!--', '>a<']:
        out.append(W(op='striptags', s=t))
        out.append(W(op='plaintext', s=t, keep=True))
        out.append(W(op='plaintext', s=t + '\n&lt;\n', keep=False))
    for t in ['&apos;', '&quot;&lt;&gt;&amp;', '&#x;', '&#;', '&#xZ;', '&#0;', '&#1114112;', '&#55296;', '&#x110000;',
              '&#99999999999999999999;', '&nbsp;', '&nbsp', '&AMP;', '&#65', '&#x41', '&#X41;', '&;', '&a b;',
              '&é;', '&#٣٤;', '&hellip;&foo;&amp;amp;', '&#34;&#x22;', '&&amp;&', '&#65;&#65']:
        out.append(W(op='stripent', s=t, keep=True))
        out.append(W(op='stripent', s=t, keep=False))
    dup = [['a', ''], ['a', '#'], ['b', 'x']]
    out += [W(op='attrs_get', a=dup, n='a'), W(op='attrs_get', a=dup, n='c'), W(op='attrs_has', a=dup, n='b'),
            W(op='attrs_idx', a=dup, i=-1), W(op='attrs_idx', a=dup, i=3), W(op='attrs_idx', a=[], i=0),
            W(op='attrs_slice', a=dup, i=-1, j=None), W(op='attrs_slice', a=dup, i=None, j=-1),
            W(op='attrs_slice', a=dup, i=5, j=1), W(op='attrs_slice', a=dup, i=-9, j=9),
            W(op='attrs_substr', a=dup, n='a'), W(op='attrs_totuple', a=dup),
            W(op='attrs_orget', a=dup, other=[['a', '1'], ['c', '2'], ['a', None]], names=[], n='a'),
            W(op='attrs_orget', a=[['a', '0']], other=[['a', '1'], ['c', '2'], ['c', '3']], names=[], n='c'),
            W(op='attrs_orsub', a=[['a', '0'], ['b', '1']], other=[['c', '2'], ['c', '3']], names=['a', 'c'], n='a')]
    for t in ['{{', '{', '}', '{}', '{}a', 'a}', '{a}b}c', '{{a}}b', '', 'a{b', '{http://x}y']:
        out.append(W(op='qname', s=t))
    out += [W(op='ns_contains', uri='', s='s}'), W(op='ns_contains', uri='', s='}a'), W(op='ns_contains', uri='', s='a'),
            W(op='ns_contains', uri='u', s='{u}a'), W(op='ns_get', uri='a}b', name='c'), W(op='ns_get', uri='{u', name='c'),
            W(op='ns_get', uri='', name='a'), W(op='ns_eq', uri='', other='', as_ns=True),
            W(op='ns_eq', uri='u', other='u', as_ns=False), W(op='ns_eq', uri='u', other='v', as_ns=True)]
    args = [['ms', '<'], ['ms', ''], ['h', ''], ['h', '<'], ['ps', '<"'], ['p', ''], ['m', '<'], ['N'], ['i', 0], ['i', -5]]
    for a in args:
        out.append(W(op='esc2', arg=a, q=True))
        out.append(W(op='esc2', arg=a, q=False))
        out.append(W(op='add2', self='<b>', arg=a))
        out.append(W(op='radd2', self='<b>', arg=a))
        out.append(W(op='mod2', self='%s|', mode='one', arg=a))
        out.append(W(op='join2', self=',', q=False, xs=[a, ['p', '"'], a], seq='gen'))
    out += [W(op='mod2', self='%r', mode='one', arg=['p', "'"]), W(op='mod2', self='%d', mode='one', arg=['p', '1']),
            W(op='mod2', self='%d', mode='one', arg=['i', 1]), W(op='mod2', self='%(k)s', mode='map', kv=[]),
            W(op='mod2', self='%s%s', mode='tup', xs=[['p', '<']]), W(op='mod2', self='%', mode='one', arg=['p', 'a']),
            W(op='mod2', self='%%', mode='tup', xs=[]), W(op='mod2', self='abc', mode='map', kv=[]),
            W(op='mod2', self='%(k)r%(k)s', mode='map', kv=[['k', ['m', '"\'']]]),
            W(op='mod2', self='%(a)d%(b)s', mode='map', kv=[['a', ['p', '1']]]),
            W(op='mod2', self='%(b)s%(a)d', mode='map', kv=[['a', ['p', '1']]]),
            W(op='mod2', self='abc', mode='one', arg=['p', 'a']), W(op='mod2', self='%s', mode='tup', xs=[['p', 'a'], ['p', 'b']])]
    for a in [['i', -1], ['i', 0], ['i', 3], ['p', '2'], ['N'], ['m', '2']]:
        out.append(W(op='mul2', self='a<', arg=a))
        out.append(W(op='rmul2', self='a<', arg=a))
    for t in ["'", '"', "'\"", '\\', '\n\r\t\x00\x7f', 'é', '', '<&>']:
        out.append(W(op='repr', s=t))
    for t in ['&amp;lt;', '&#34;', '&amp;#34;', '&lt', '', '&lt;&gt;&amp;&#34;', '&amp;amp;']:
        out.append(W(op='unescm', s=t, sub=False))
        out.append(W(op='unescm', s=t, sub=True))
    out += [W(op='unescfn', arg=['ps', '&lt;']), W(op='unescfn', arg=['ms', '&lt;']), W(op='unescfn', arg=['p', '']),
            W(op='unescfn', arg=['m', ''])]
    return out


def long_cases(rng, n):
    out = []
    for _ in range(n):
        s = long_text(rng)
        k = rng.randrange(5)
        if k == 0:
            out.append({'kind': 'w', 'op': 'esc2', 'arg': [rng.choice(['p', 'ps', 'ms']), s], 'q': rng.random() < 0.5})
        elif k == 1:
            out.append({'kind': 'w', 'op': 'add2', 'self': s, 'arg': ['p', long_text(rng)]})
        elif k == 2:
            out.append({'kind': 'w', 'op': 'join2', 'self': ',', 'q': True, 'xs': [['p', s], ['m', s]], 'seq': 'list'})
        elif k == 3:
            out.append({'kind': 'w', 'op': 'unescm', 's': spec_escape(s), 'sub': False})
        else:
            out.append({'kind': 'w', 'op': 'mod2', 'self': '%s|%s', 'mode': 'tup', 'xs': [['p', s], ['m', s]]})
    return out


# --------------------------------------------------------------------------
# the real code, per implementation, in the model's output vocabulary

def run_real(impl, c):
    """('ok', type, text) | ('err', ExcName) | other canonical value"""
    cls, sub, mod = impl
    op = c['op']
    if op == 'esc2':
        return outcome(impl, lambda: cls.escape(mk_arg(impl, c['arg']), quotes=c['q']))
    if op == 'add2':
        return outcome(impl, lambda: cls(c['self']) + mk_arg(impl, c['arg']))
    if op == 'radd2':
        return outcome(impl, lambda: mk_arg(impl, c['arg']) + cls(c['self']))
    if op == 'mul2':
        return outcome(impl, lambda: cls(c['self']) * mk_arg(impl, c['arg']))
    if op == 'rmul2':
        return outcome(impl, lambda: mk_arg(impl, c['arg']) * cls(c['self']))
    if op == 'join2':
        xs = [mk_arg(impl, x) for x in c['xs']]
        seq = {'list': list, 'tuple': tuple, 'gen': iter}[c['seq']](xs)
        return outcome(impl, lambda: cls(c['self']).join(seq, escape_quotes=c['q']))
    if op == 'mod2':
        if c['mode'] == 'one':
            a = mk_arg(impl, c['arg'])
        elif c['mode'] == 'tup':
            a = tuple(mk_arg(impl, x) for x in c['xs'])
        else:
            a = dict((k, mk_arg(impl, v)) for k, v in c['kv'])
        return outcome(impl, lambda: cls(c['self']) % a)
    if op == 'repr':
        return outcome(impl, lambda: repr(cls(c['s'])))
    if op == 'unescm':
        k = sub if c.get('sub') else cls
        return outcome(impl, lambda: k(c['s']).unescape())
    if op == 'unescfn':
        return outcome(impl, lambda: mod.unescape(mk_arg(impl, c['arg'])))
    if op == 'stripent':
        return outcome(impl, lambda: cls(c['s']).stripentities(keepxmlentities=c['keep']))
    if op == 'striptags':
        return outcome(impl, lambda: cls(c['s']).striptags())
    raise ValueError(op)


def util_real(c):
    """the module-level functions of genshi.util (one implementation)"""
    import genshi.util as u
    op = c['op']
    if op == 'stripent':
        return outcome((None, None, None), lambda: u.stripentities(c['s'], keepxmlentities=c['keep']))
    if op == 'striptags':
        return outcome((None, None, None), lambda: u.striptags(c['s']))
    if op == 'plaintext':
        return outcome((None, None, None), lambda: u.plaintext(c['s'], keeplinebreaks=c['keep']))
    raise ValueError(op)


# the model's `str` operand stands for a str or an instance of a str subclass that is no Markup
TYWIRE = {'str': 'U', 'StrSub': 'U', 'Markup': 'M', 'MSub': 'MS'}


def wire_result(o):
    if o[0] == 'ok':
        return [Atom('ok'), Atom(TYWIRE.get(o[1], o[1])), o[2]]
    return [Atom('err'), Atom(o[1])]


PER_IMPL = ('esc2', 'add2', 'radd2', 'join2', 'mod2')


def model_lines(c):
    """[(tag, line)]: tag says which real answer the line is compared with"""
    op = c['op']
    L = lambda *xs: proto.line(Atom('C18'), *xs)
    if op == 'esc2':
        return [(i, L(Atom('esc2'), Atom(i), B(c['q']), wire_arg(c['arg']))) for i in ('c', 'py')] + \
               ([('escc', L(Atom('escc'), B(c['q']), c['arg'][1]))] if c['arg'][0] in ('p', 'ps') else [])
    if op in ('add2', 'radd2'):
        return [(i, L(Atom(op), Atom(i), c['self'], wire_arg(c['arg']))) for i in ('c', 'py')]
    if op in ('mul2', 'rmul2'):
        ln = L(Atom('mul2'), c['self'], wire_arg(c['arg']))
        return [('c', ln), ('py', ln)]
    if op == 'join2':
        return [(i, L(Atom('join2'), Atom(i), c['self'], B(c['q']), [wire_arg(x) for x in c['xs']])) for i in ('c', 'py')]
    if op == 'mod2':
        if c['mode'] == 'one':
            a = [Atom('one'), wire_arg(c['arg'])]
        elif c['mode'] == 'tup':
            a = [Atom('tup')] + [wire_arg(x) for x in c['xs']]
        else:
            a = [Atom('map')] + [[k, wire_arg(v)] for k, v in c['kv']]
        return [(i, L(Atom('mod2'), Atom(i), c['self'], a)) for i in ('c', 'py')]
    if op == 'repr':
        ln = L(Atom('repr'), c['s'])
        return [('c', ln), ('py', ln)]
    if op == 'unescm':
        ln = L(Atom('unescm'), c['s'])
        return [('c', ln), ('py', ln)]
    if op == 'unescfn':
        ln = L(Atom('unescfn'), wire_arg(c['arg']))
        return [('c', ln), ('py', ln)]
    if op == 'stripent':
        ln = L(Atom('ent_strip'), B(c['keep']), c['s'])
        return [('c', ln), ('py', ln), ('util', ln)]
    if op == 'striptags':
        ln = L(Atom('tag_strip'), c['s'])
        return [('c', ln), ('py', ln), ('util', ln)]
    if op == 'plaintext':
        return [('util', L(Atom('plaintext'), B(c['keep']), c['s']))]
    if op.startswith('attrs_'):
        a = [[k, v] for k, v in c['a']]
        if op in ('attrs_has', 'attrs_get', 'attrs_substr'):
            return [('attrs', L(Atom(op), a, c['n']))]
        if op == 'attrs_idx':
            return [('attrs', L(Atom(op), a, c['i']))]
        if op == 'attrs_slice':
            return [('attrs', L(Atom(op), a, c['i'], c['j']))]
        if op == 'attrs_totuple':
            return [('attrs', L(Atom(op), a))]
        return []
    if op == 'qname':
        return [('qn', L(Atom('qname'), c['s'])), ('qnargs', L(Atom('qname_args'), c['s']))]
    if op == 'ns_get':
        return [('ns', L(Atom('ns_get'), c['uri'], c['name']))]
    if op == 'ns_contains':
        return [('ns', L(Atom('ns_contains'), c['uri'], c['s']))]
    if op == 'ns_eq':
        return [('ns', L(Atom('ns_eq'), c['uri'], c['other']))]
    return []


def qn_wire(q):
    return [str.__str__(q), Atom('N') if q.namespace is None else q.namespace, q.localname]


def real_for(tag, c, I):
    """the real code's answer for one model line, in the model's vocabulary"""
    import genshi.core as core
    op = c['op']
    if tag in ('c', 'py'):
        o = run_real(I[tag], c)
        if op == 'repr':
            return o[2] if o[0] == 'ok' else Atom('err')
        if op in ('stripent',):
            # the model answers (ok text) / (err E); the Markup type is demanded by the oracle
            return [Atom('ok'), o[2]] if o[0] == 'ok' else [Atom('err'), Atom(o[1])]
        if op == 'striptags':
            return o[2] if o[0] == 'ok' else Atom('err')
        return wire_result(o)
    if tag == 'escc':
        o = run_real(I['c'], c)
        return o[2] if o[0] == 'ok' else Atom('err')
    if tag == 'util':
        o = util_real(c)
        if op == 'striptags':
            return o[2] if o[0] == 'ok' else Atom('err')
        return [Atom('ok'), o[2]] if o[0] == 'ok' else [Atom('err'), Atom(o[1])]
    if tag == 'attrs':
        A = core.Attrs([(core.QName(k) if c.get('qn') else k, v) for k, v in c['a']])
        if op == 'attrs_has':
            return B(c['n'] in A)
        if op == 'attrs_get':
            r = A.get(c['n'])
            return Atom('N') if r is None else r
        if op == 'attrs_idx':
            try:
                r = A[c['i']]
                return [Atom('ok'), r[0], r[1]]
            except Exception as e:  # noqa
                return [Atom('err'), Atom(type(e).__name__)]
        if op == 'attrs_slice':
            return [[k, v] for k, v in A[c['i']:c['j']]]
        if op == 'attrs_substr':
            return [[k, v] for k, v in A - c['n']]
        if op == 'attrs_totuple':
            return A.totuple()[1]
    if tag == 'qn':
        return qn_wire(core.QName(c['s']))
    if tag == 'qnargs':
        return core.QName(c['s']).__getnewargs__()[0]
    if tag == 'ns':
        ns = core.Namespace(c['uri'])
        if op == 'ns_get':
            return qn_wire(ns[c['name']])
        if op == 'ns_contains':
            return B(core.QName(c['s']) in ns)
        if op == 'ns_eq':
            return B(ns == c['other'])
    raise ValueError((tag, op))


def compare(cases, I, res, stream='markup-wide'):
    lines, idx = [], []
    for i, c in enumerate(cases):
        for tag, ln in model_lines(c):
            lines.append(ln)
            idx.append((i, tag))
    answers = proto.run_lines(lines)
    for (i, tag), ans in zip(idx, answers):
        c = cases[i]
        if ans == 'unmodelled':
            res.count('wide:unmodelled:' + c['op'])
            continue
        real = real_for(tag, c, I)
        try:
            model = proto.dec(ans)
        except Exception:  # noqa
            model = Atom(ans)
        name = '%s:%s' % (stream, c['op'])
        res.streams[name] = res.streams.get(name, 0) + 1
        if isinstance(model, list) and model and model[0] == 'err':
            res.count('wide:model-err:' + str(model[1]))
        if model != real:
            res.disagreements.append({'stream': name, 'case': c, 'model': ('%s %r' % (tag, model))[:400],
                                      'real': ('%s %r' % (tag, real))[:400]})


# --------------------------------------------------------------------------
# the property on the real classes (independent of the model)

def ref_qname(s):
    t = s.lstrip('{')
    if '}' in t:
        ns, _, loc = t.partition('}')
        return '{' + t, ns, loc
    return t, None, t


def oracle(c, I=None):
    if I is None:
        I = impls()
    fails = []

    def bad(what, expected, observed):
        fails.append({'case': c, 'what': what, 'expected': expected, 'observed': observed})

    op = c['op']
    if op in PER_IMPL or op in ('mul2', 'rmul2'):
        operands = []
        if 'arg' in c:
            operands.append(c['arg'])
        operands += c.get('xs', [])
        operands += [v for _, v in c.get('kv', [])]
        stringy = all(is_stringy(o) for o in operands)
        outs = dict((n, run_real(I[n], c)) for n in ('c', 'py'))
        exp = None
        if op == 'esc2' and stringy:
            exp = once(c['arg'], c['q'])
        elif op == 'add2' and stringy:
            exp = c['self'] + once(c['arg'])
        elif op == 'radd2' and stringy:
            exp = once(c['arg']) + c['self']
        elif op in ('mul2', 'rmul2') and c['arg'][0] == 'i':
            exp = c['self'] * c['arg'][1]
        elif op == 'join2' and stringy:
            exp = c['self'].join(once(x, c['q']) for x in c['xs'])
        elif op == 'mod2' and stringy and '%r' not in c['self'] and ')r' not in c['self'] and not (
                c.get('mode') not in ('one', 'tup') and '%' in MAPCONV.sub('', c['self'])):
            # (a mapping formatted by a positional conversion prints the dict: not an operand-wise law)
            try:
                if c['mode'] == 'one':
                    exp = c['self'] % (once(c['arg']),)
                elif c['mode'] == 'tup':
                    exp = c['self'] % tuple(once(x) for x in c['xs'])
                else:
                    exp = c['self'] % dict((k, once(v)) for k, v in c['kv'])
            except Exception:  # noqa
                exp = None
        if exp is not None:
            for n, o in outs.items():
                if o[0] != 'ok' or o[2] != exp or o[1] not in ('Markup', 'MSub'):
                    bad('%s[%s]: a safe string in which every operand that was not safe is escaped exactly once' % (op, n),
                        ('ok', 'Markup', exp), o)
        if (stringy or op in ('mul2', 'rmul2')) and outs['c'][0] == 'ok' and outs['py'][0] == 'ok':
            a, b = outs['c'], outs['py']
            if a[2] != b[2] or (a[1] == 'str') != (b[1] == 'str'):
                bad('C and Python agree on %s' % op, b, a)
        elif stringy and outs['c'][0] != outs['py'][0]:
            bad('C and Python agree on %s' % op, outs['py'], outs['c'])
    elif op == 'repr':
        outs = dict((n, run_real(I[n], c)) for n in ('c', 'py'))
        exp = ('ok', 'str', '<Markup %s>' % str.__repr__(c['s']))
        for n, o in outs.items():
            if o != exp:
                bad('repr[%s] shows the class and the text' % n, exp, o)
    elif op == 'unescm':
        outs = dict((n, run_real(I[n], c)) for n in ('c', 'py'))
        if outs['c'] != outs['py']:
            bad('C and Python unescape agree', outs['py'], outs['c'])
        for n, o in outs.items():
            if o[0] != 'ok' or o[1] != 'str':
                bad('unescape[%s] returns a plain str' % n, 'str', o)
        for n in ('c', 'py'):
            cls = I[n][0]
            for q in (True, False):
                o = outcome(I[n], lambda: cls(spec_escape(c['s'], q)).unescape())
                if o != ('ok', 'str', c['s']):
                    bad('unescape[%s] inverts escape' % n, ('ok', 'str', c['s']), o)
    elif op == 'unescfn':
        outs = dict((n, run_real(I[n], c)) for n in ('c', 'py'))
        if outs['c'] != outs['py']:
            bad('C and Python unescape() agree', outs['py'], outs['c'])
        if c['arg'][0] in ('p', 'ps'):
            for n, o in outs.items():
                if o[0] != 'ok' or o[2] != c['arg'][1]:
                    bad('unescape()[%s] leaves a str that is no Markup unchanged' % n, c['arg'][1], o)
        else:
            for n, o in outs.items():
                if o[0] != 'ok' or o[1] != 'str':
                    bad('unescape()[%s] of a Markup returns a plain str' % n, 'str', o)
    elif op in ('stripent', 'striptags'):
        outs = dict((n, run_real(I[n], c)) for n in ('c', 'py'))
        u = util_real(c)
        for n, o in outs.items():
            if o[0] != 'ok' or o[1] != 'Markup':
                bad('%s[%s] returns a Markup' % (op, n), 'Markup', o)
            elif u[0] != 'ok' or o[2] != u[2]:
                bad('%s[%s] is the function of genshi.util' % (op, n), u, o)
        # laws on escaped text: entities written by escape are read back; no tag in escaped text
        s = c['s']
        for n in ('c', 'py'):
            cls = I[n][0]
            if op == 'stripent':
                o = outcome(I[n], lambda: cls.escape(s).stripentities())
                if o != ('ok', 'Markup', s):
                    bad('stripentities[%s] of escaped text is the text' % n, ('ok', 'Markup', s), o)
                o = outcome(I[n], lambda: cls.escape(s).stripentities(keepxmlentities=True))
                if o != ('ok', 'Markup', spec_escape(s, False)):
                    bad('stripentities[%s](keepxmlentities) keeps the XML entities' % n, ('ok', 'Markup', spec_escape(s, False)), o)
                # the documented five: &amp; &apos; &gt; &lt; &quot; are left intact
                e0 = spec_escape(s, False)
                for ent in ('&amp;', '&apos;', '&gt;', '&lt;', '&quot;'):
                    o = outcome(I[n], lambda: cls(e0 + ent + e0).stripentities(keepxmlentities=True))
                    if o != ('ok', 'Markup', e0 + ent + e0):
                        bad('stripentities[%s](keepxmlentities) leaves %s intact' % (n, ent), ('ok', 'Markup', e0 + ent + e0), o)
            else:
                o = outcome(I[n], lambda: cls.escape(s).striptags())
                if o != ('ok', 'Markup', spec_escape(s)):
                    bad('striptags[%s] leaves escaped text unchanged' % n, ('ok', 'Markup', spec_escape(s)), o)
                o = outcome(I[n], lambda: cls(s).striptags())
                if o[0] == 'ok' and '<' in o[2] and '>' in o[2][o[2].index('<'):]:
                    bad('striptags[%s] leaves no tag' % n, 'no < followed by >', o)
    elif op == 'plaintext':
        import genshi.util as u
        s = c['s']
        for n in ('c', 'py'):
            cls = I[n][0]
            o = outcome(I[n], lambda: u.plaintext(cls.escape(s)))
            if o != ('ok', 'str', s):
                bad('plaintext of escaped text is the text [%s]' % n, ('ok', 'str', s), o)
        o = outcome(I['c'], lambda: u.plaintext(s, keeplinebreaks=False))
        if o[0] != 'ok' or '\n' in o[2]:
            bad('plaintext(keeplinebreaks=False) leaves no line feed', 'no LF', o)
    elif op.startswith('attrs_'):
        import genshi.core as core
        pairs = [(k, v) for k, v in c['a']]
        A = core.Attrs([(core.QName(k) if c.get('qn') else k, v) for k, v in pairs])
        if op == 'attrs_has':
            if (c['n'] in A) != (c['n'] in [k for k, _ in pairs]):
                bad('name in Attrs', c['n'] in [k for k, _ in pairs], c['n'] in A)
        elif op == 'attrs_get':
            exp = next((v for k, v in pairs if k == c['n']), None)
            if A.get(c['n']) != exp or A.get(c['n'], 'dflt') != (exp if exp is not None else 'dflt'):
                bad('Attrs.get returns the value of the first pair with the name, else the default', exp, A.get(c['n']))
        elif op == 'attrs_idx':
            try:
                exp = ('ok', pairs[c['i']])
            except IndexError:
                exp = ('err', 'IndexError')
            try:
                got = ('ok', A[c['i']])
            except Exception as e:  # noqa
                got = ('err', type(e).__name__)
            if got != exp:
                bad('Attrs[i] is the pair at that position', exp, got)
        elif op == 'attrs_slice':
            r = A[c['i']:c['j']]
            if type(r) is not core.Attrs or list(r) != pairs[c['i']:c['j']]:
                bad('a slice of an Attrs is an Attrs with the pairs of that range in order', pairs[c['i']:c['j']],
                    [type(r).__name__, list(r)])
            r2 = A[c['i']:c['j']:2]
            if type(r2) is not core.Attrs or list(r2) != pairs[c['i']:c['j']:2]:
                bad('an extended slice of an Attrs is an Attrs', pairs[c['i']:c['j']:2], [type(r2).__name__, list(r2)])
        elif op == 'attrs_substr':
            r = A - c['n']
            exp = [p for p in pairs if p[0] != c['n']]
            if type(r) is not core.Attrs or list(r) != exp:
                bad('Attrs - name removes exactly the pairs with that name', exp, [type(r).__name__, list(r)])
        elif op == 'attrs_totuple':
            exp = (core.TEXT, ''.join(v for _, v in pairs), (None, -1, -1))
            if A.totuple() != exp:
                bad('Attrs.totuple is a TEXT event of the joined values', list(exp), list(A.totuple()))
        elif op in ('attrs_orsub', 'attrs_orget'):
            other = [(k, v) for k, v in c['other']]
            r = A | other
            names = [k for k, _ in r]
            if type(r) is not core.Attrs:
                bad('Attrs | … is an Attrs', 'Attrs', type(r).__name__)
            nodup_in = len(set(k for k, _ in pairs)) == len(pairs)
            if nodup_in and len(set(names)) != len(names):
                bad('Attrs | never holds duplicates', 'distinct names', names)
            if op == 'attrs_orsub':
                d = r - c['names']
                if [k for k, _ in d] != [k for k in names if k not in c['names']] or type(d) is not core.Attrs:
                    bad('(a | b) - names keeps the other names in order', [k for k in names if k not in c['names']], list(d))
            else:
                n = c['n']
                removed = any(k == n and v is None for k, v in other)
                vals = [v for k, v in other if k == n and v is not None]
                exp = None if removed else (vals[-1] if vals else A.get(n))
                if r.get(n) != exp:
                    bad('get after |: None removes, the last value given replaces, else the old value', exp, r.get(n))
    elif op == 'qname':
        import genshi.core as core
        q = core.QName(c['s'])
        text, ns, loc = ref_qname(c['s'])
        got = [str.__str__(q), q.namespace, q.localname]
        if got != [text, ns, loc] or type(q) is not core.QName:
            bad('QName parses {ns}local', [text, ns, loc], got)
        if not (q == text) or hash(q) != hash(text) or (q != text):
            bad('QName equals and hashes like its text', text, got)
        if core.QName(q) is not q:
            bad('QName(QName) is the same object', 'same', 'copy')
        for p in range(2, pickle.HIGHEST_PROTOCOL + 1):   # a str subclass with __slots__ has no protocol 0/1 pickle
            try:
                r = pickle.loads(pickle.dumps(q, p))
                g2 = [type(r).__name__, str.__str__(r), r.namespace, r.localname]
            except Exception as e:  # noqa
                g2 = ['err', type(e).__name__]
            if g2 != ['QName', text, ns, loc]:
                bad('QName survives pickling (protocol %d)' % p, ['QName', text, ns, loc], g2)
        r = copy.deepcopy(q)
        if [str.__str__(r), r.namespace, r.localname] != [text, ns, loc]:
            bad('QName survives deepcopy', [text, ns, loc], [str.__str__(r), r.namespace, r.localname])
    elif op in ('ns_get', 'ns_contains', 'ns_eq'):
        import genshi.core as core
        ns = core.Namespace(c['uri'])
        if op == 'ns_get':
            q = ns[c['name']]
            clean = '}' not in c['uri'] and not c['uri'].startswith('{')
            if clean:
                if q.namespace != c['uri'] or q.localname != c['name'] or q not in ns:
                    bad('Namespace[name] is the QName of that namespace and local name',
                        [c['uri'], c['name']], [q.namespace, q.localname, q in ns])
            if c['name'].isidentifier() and not c['name'].startswith('__'):
                if getattr(ns, c['name']) != q:
                    bad('Namespace.name is Namespace[name]', str(q), str(getattr(ns, c['name'])))
        elif op == 'ns_contains':
            q = core.QName(c['s'])
            if (q in ns) != (ref_qname(c['s'])[1] == c['uri']):
                bad('qname in Namespace compares the namespace of the name', ref_qname(c['s'])[1] == c['uri'], q in ns)
        else:
            o = core.Namespace(c['other']) if c.get('as_ns') else c['other']
            e = c['uri'] == c['other']
            if (ns == o) != e or (ns != o) == e or (e and hash(ns) != hash(o)):
                bad('Namespace equals and hashes like its URI', e, [ns == o, ns != o])
            for p in range(0, pickle.HIGHEST_PROTOCOL + 1):
                r = pickle.loads(pickle.dumps(ns, p))
                if type(r) is not core.Namespace or r.uri != c['uri'] or r != ns:
                    bad('Namespace survives pickling (protocol %d)' % p, c['uri'], getattr(r, 'uri', None))
    else:
        raise ValueError(op)
    return fails[0] if fails else None


def nontrivial_key(c):
    txt = json.dumps(c, sort_keys=True)
    if c['op'].startswith(('attrs_', 'qname', 'ns_')):
        return txt
    if any(ch in txt for ch in '&<>') or '\\"' in txt:
        return txt
    return None


def shard(arg):
    seed, idx, n, nlong = arg
    rng = random.Random('%s/%s/C18wide' % (seed, idx))
    I = impls()
    res = Result()
    cases = (edge_cases() if idx == 0 else []) + gen_cases(rng, n) + long_cases(rng, nlong)
    for c in cases:
        res.evaluations += 1
        res.count('wide:' + c['op'] + (':' + c['mode'] if 'mode' in c else ''))
        for o in ([c['arg']] if 'arg' in c else []) + c.get('xs', []) + [v for _, v in c.get('kv', [])]:
            res.count('wide:operand:' + o[0])
        key = nontrivial_key(c)
        if key and len(key) < 400:
            res.nontrivial.add(key)
        f = oracle(c, I)
        if f:
            res.failures.append(f)
    compare(cases, I, res)
    res.samples = cases[:2]
    return res


TAGCRIT = ['<', '>', '!', '-', '\n', 'a']
ENTCRIT = ['&', '#', ';', 'x', '3', 'a', 'l', 't']


def exhaustive_shard(arg):
    """every string of length <= Lt over TAGCRIT through striptags / plaintext and of length <= Le
    over ENTCRIT through stripentities (both keepxmlentities settings): laws + model"""
    import itertools
    idx, nshards, Lt, Le = arg
    I = impls()
    res = Result()
    cases = []
    i = 0
    for n in range(Lt + 1):
        for tup in itertools.product(TAGCRIT, repeat=n):
            if i % nshards == idx:
                t = ''.join(tup)
                cases.append({'kind': 'w', 'op': 'striptags', 's': t})
                cases.append({'kind': 'w', 'op': 'plaintext', 's': t, 'keep': bool(i & 16)})
            i += 1
    for n in range(Le + 1):
        for tup in itertools.product(ENTCRIT, repeat=n):
            if i % nshards == idx:
                t = ''.join(tup)
                cases.append({'kind': 'w', 'op': 'stripent', 's': t, 'keep': True})
                cases.append({'kind': 'w', 'op': 'stripent', 's': t, 'keep': False})
            i += 1
    for c in cases:
        res.evaluations += 1
        f = oracle(c, I)
        if f:
            res.failures.append(f)
        if len(c['s']) <= 4:       # keys of the short ones only: the merged set stays small in the thorough tier
            res.nontrivial.add(json.dumps(c, sort_keys=True))
    compare(cases, I, res, stream='exhaustive-wide')
    res.count('exhaustive-wide-strings', len(cases))
    return res

"""Translator part for C07 (parsers): the tables genshi's parser layer is driven by that are
not already in Gen/Output.lean — the entity table genshi.input looks names up in, and the
code points Python's str.split()/str.strip() treat as white space (handle_pi)."""
from harness.extract_tables import HEADER, chars


def gen_parse():
    from genshi import input as ginput
    import sys
    ents = sorted(ginput.entities.name2codepoint.items())
    rows = ',\n  '.join('(%s, %d)' % (chars(n), cp) for n, cp in ents)
    space = [cp for cp in range(sys.maxunicode + 1) if not (0xd800 <= cp <= 0xdfff) and chr(cp).isspace()]
    parts = [HEADER, 'namespace Genshi.Gen.Parse\n',
             '/-- from genshi/input.py: `entities.name2codepoint` (six.moves.html_entities) -/\n'
             'def entities : List (List Char × Nat) := [\n  %s]\n' % rows,
             '/-- code points c of the running interpreter with `chr(c).isspace()` (what `str.split(None)` and `str.strip()` remove) -/\n'
             'def pySpace : List Nat := [%s]\n' % ', '.join(str(c) for c in space),
             'end Genshi.Gen.Parse\n']
    return 'Parse.lean', '\n'.join(parts)


GENERATORS = [gen_parse]

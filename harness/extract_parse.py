"""Translator part for C07 (parsers): the tables genshi's parser layer is driven by that are
not already in Gen/Output.lean — the entity table genshi.input looks names up in, and the
code points Python's str.split()/str.strip() treat as white space (handle_pi)."""
from harness.extract_tables import HEADER, chars


def lower_runs(pairs):
    """[(cp, lower cp)] sorted -> [(first, last, step, target of first)] with constant offset inside a run"""
    runs = []
    for cp, t in pairs:
        if runs:
            f, l, st, tf = runs[-1]
            if t - cp == tf - f and (st == 0 and cp - l in (1, 2) or st != 0 and cp - l == st):
                runs[-1] = (f, cp, cp - l, tf)
                continue
        runs.append((cp, cp, 0, t))
    return [(f, l, st or 1, tf) for f, l, st, tf in runs]


def gen_parse():
    from genshi import input as ginput
    import sys
    ents = sorted(ginput.entities.name2codepoint.items())
    rows = ',\n  '.join('(%s, %d)' % (chars(n), cp) for n, cp in ents)
    space = [cp for cp in range(sys.maxunicode + 1) if not (0xd800 <= cp <= 0xdfff) and chr(cp).isspace()]
    # Python's str.lower (HTMLParser.handle_endtag compares `open_tag.lower() == tag.lower()`): the per-character
    # mapping, and the two character classes of its only context rule (a capital sigma becomes a final sigma when
    # a cased letter precedes it and none follows, case-ignorable characters skipped), read off str.lower itself
    low, ign, cased = [], [], []
    for cp in range(sys.maxunicode + 1):
        if 0xd800 <= cp <= 0xdfff:
            continue
        c = chr(cp)
        after_cased = ('a' + c + '\u03a3').lower()[-1] == '\u03c2'      # c is case-ignorable or cased
        after_start = (c + '\u03a3').lower()[-1] == '\u03c2'            # c is cased and not case-ignorable
        if after_cased and not after_start:
            ign.append(cp)
        if after_start:
            cased.append(cp)
        l = c.lower()
        if l != c:
            low.append((cp, [ord(x) for x in l]))

    def ranges(cps):
        out = []
        for x in cps:
            if out and out[-1][1] == x - 1:
                out[-1][1] = x
            else:
                out.append([x, x])
        return ', '.join('(%d, %d)' % (a, b) for a, b in out)
    parts = [HEADER, 'namespace Genshi.Gen.Parse\n',
             '/-- from genshi/input.py: `entities.name2codepoint` (six.moves.html_entities) -/\n'
             'def entities : List (List Char × Nat) := [\n  %s]\n' % rows,
             '/-- code points c of the running interpreter with `chr(c).isspace()` (what `str.split(None)` and `str.strip()` remove) -/\n'
             'def pySpace : List Nat := [%s]\n' % ', '.join(str(c) for c in space),
             '/-- the code points c of the running interpreter with `chr(c).lower() != chr(c)` and a one-character result, as runs\n'
             '    `(first, last, step, target of first)`: c = first + k*step <= last lowers to target + k*step -/\n'
             'def lowerRuns : List (Nat × Nat × Nat × Nat) := [\n  %s]\n' % ',\n  '.join('(%d, %d, %d, %d)' % r for r in lower_runs([(cp, l[0]) for cp, l in low if len(l) == 1])),
             '/-- … and those with a longer result, with the code points of `chr(c).lower()` -/\n'
             'def lowerMulti : List (Nat × List Nat) := [%s]\n' % ', '.join('(%d, [%s])' % (cp, ', '.join(map(str, l))) for cp, l in low if len(l) != 1),
             '/-- inclusive ranges of the code points `str.lower` skips when it looks for the cased letter around a capital sigma (Case_Ignorable) -/\n'
             'def caseIgnorable : List (Nat × Nat) := [%s]\n' % ranges(ign),
             '/-- inclusive ranges of the code points that are cased and not case-ignorable for `str.lower` -/\n'
             'def casedNotIgnorable : List (Nat × Nat) := [%s]\n' % ranges(cased),
             'end Genshi.Gen.Parse\n']
    return 'Parse.lean', '\n'.join(parts)


GENERATORS = [gen_parse]

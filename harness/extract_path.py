"""Translator part for genshi/path.py -> lean/Genshi/Gen/Path.lean.

Values, not source text: the tables are read from the imported module; what is a constant
inside a method (the token tuples of `_equality_expr/_relational_expr`, `supports`) is
obtained by probing the real parser / strategy classes on a fixed basis.

    tokens          PathParser._TOKENS in order (the tokenizer alternation)
    operatorMap     _operator_map: token -> operator class name
    functionMap     _function_map: XPath name -> (class name, min arity, max arity or 99)
    nodetestMap     _nodetest_map: node type name -> class name
    axisNames       the Axis constants
    cmpProbe        for each comparison token T: class of the predicate of `a[1 T 2]` (or the error class)
    precProbe       shape of `a[1 T1 2 T2 3]` for pairs of comparison tokens: "L" = (1 T1 2) T2 3, "R" = 1 T1 (2 T2 3)
    strategies      Path.STRATEGIES class names in order
    supportsProbe   for a basis of paths: the three `supports` verdicts
    dotSlash*       the two constant steps the strategies prepend
"""
import inspect

from harness.extract_tables import HEADER, chars

CMP_TOKENS = ['=', '!=', '<', '<=', '>', '>=']

SUPPORT_BASIS = [
    'a', '*', 'text()', 'node()', 'comment()', 'processing-instruction()', 'x:a', 'x:*', '@a', '@*', '.',
    'a[1]', 'a[@b]', 'self::a', 'descendant::a', 'descendant-or-self::a', '//a',
    'a/b', 'a/b/c', 'a/@b', 'a/text()', 'a/comment()', 'a/*', 'a/node()', 'a/x:b', 'a/@x:b', 'a//b', './/a',
    'self::a/b', 'descendant::a/b', 'descendant::a/descendant::b', 'a/self::a', 'a/self::b', './a', 'a/.',
    'a[1]/b', 'a/b[@c]', '@a/b', 'node()/@a', 'a/processing-instruction()', '//a/b', '//@a', 'a/descendant-or-self::b',
]


# wave 4: (a) the shapes behind genshi fixes e131362 / ef611bc (an attribute step before the last step, an
# attribute step with a node-type test), (b) a systematic basis: every single step (7 axis spellings x 10 node
# tests x with/without a predicate), every pair and every triple of steps over a reduced alphabet.
SUPPORT_BASIS += [
    'a/@b/c', 'a/@b/@c', 'a/@b/text()', 'a/@b/self::b', 'a/@b/.', '@a/@b', 'a/b/@c', 'a/b/@c/d', 'self::a/@b',
    'descendant::a/@b', '//a/@b', 'a/attribute::text()', 'a/attribute::comment()', 'a/attribute::node()', 'a/@*',
    'a/@x:b', 'a/attribute::b/c', 'a/descendant::b/@c', 'a/descendant::b/@c/d', 'a/self::a/@b',
]
_AXES1 = ['', '@', 'child::', 'attribute::', 'self::', 'descendant::', 'descendant-or-self::']
_TESTS1 = ['a', '*', 'text()', 'node()', 'comment()', 'processing-instruction()', "processing-instruction('x')",
           'x:a', 'x:*', 'b']
_AXES2 = ['', '@', 'self::', 'descendant::', 'descendant-or-self::']
_STEPS2 = [ax + 'a' for ax in _AXES2] + ['text()', '@text()', 'self::text()', 'a[1]', '.', 'node()', '*', 'comment()']
_STEPS3 = [ax + 'a' for ax in _AXES2] + ['text()']


def systematic_basis():
    out = [ax + t + pr for ax in _AXES1 for t in _TESTS1 for pr in ('', '[1]')]
    out += ['%s/%s' % (s1, s2) for s1 in _STEPS2 for s2 in _STEPS2]
    out += ['%s/%s/%s' % (s1, s2, s3) for s1 in _STEPS3 for s2 in _STEPS3 for s3 in _STEPS3]
    seen, res = set(SUPPORT_BASIS), []
    for t in out:
        if t not in seen:
            seen.add(t)
            res.append(t)
    return res


def lstr(s):
    return chars(s)


def gen_path():
    from genshi import path as P
    parts = [HEADER, 'namespace Genshi.Gen.Path\n']

    parts.append('/-- from genshi/path.py:PathParser._TOKENS (order of the tokenizer alternation) -/')
    parts.append('def tokens : List (List Char) := [\n  %s]\n' % ',\n  '.join(lstr(t) for t in P.PathParser._TOKENS))

    parts.append('/-- from genshi/path.py:_operator_map (token, operator class) -/')
    parts.append('def operatorMap : List (List Char × List Char) := [\n  %s]\n' % ',\n  '.join(
        '(%s, %s)' % (lstr(k), lstr(v.__name__)) for k, v in sorted(P._operator_map.items())))

    rows = []
    for k, cls in sorted(P._function_map.items()):
        init = cls.__dict__.get('__init__')
        lo = hi = 0
        if init is not None:
            sig = inspect.signature(init)
            ps = list(sig.parameters.values())[1:]
            if any(p.kind == p.VAR_POSITIONAL for p in ps):
                lo, hi = 0, 99
            else:
                hi = len(ps)
                lo = len([p for p in ps if p.default is p.empty])
        rows.append('(%s, %s, %d, %d)' % (lstr(k), lstr(cls.__name__), lo, hi))
    parts.append('/-- from genshi/path.py:_function_map (XPath name, class, min arity, max arity) -/')
    parts.append('def functionMap : List (List Char × List Char × Nat × Nat) := [\n  %s]\n' % ',\n  '.join(rows))

    parts.append('/-- from genshi/path.py:_nodetest_map (node type, class) -/')
    parts.append('def nodetestMap : List (List Char × List Char) := [\n  %s]\n' % ',\n  '.join(
        '(%s, %s)' % (lstr(k), lstr(v.__name__)) for k, v in sorted(P._nodetest_map.items())))

    axes = sorted(v for k, v in vars(P.Axis).items() if k.isupper() and isinstance(v, str))
    parts.append('/-- from genshi/path.py:Axis -/')
    parts.append('def axisNames : List (List Char) := [\n  %s]\n' % ',\n  '.join(lstr(a) for a in axes))

    def pred_class(text):
        try:
            p = P.PathParser(text).parse()
            return type(p[0][0][2][0]).__name__, p[0][0][2][0]
        except Exception as e:
            return type(e).__name__, None

    rows = []
    for t in CMP_TOKENS:
        rows.append('(%s, %s)' % (lstr(t), lstr(pred_class('a[1 %s 2]' % t)[0])))
    parts.append('/-- probe: class of the predicate of `a[1 T 2]` for each comparison token T -/')
    parts.append('def cmpProbe : List (List Char × List Char) := [\n  %s]\n' % ',\n  '.join(rows))

    rows = []
    for t1 in CMP_TOKENS:
        for t2 in CMP_TOKENS:
            name, node = pred_class('a[1 %s 2 %s 3]' % (t1, t2))
            shape = name
            if node is not None and hasattr(node, 'lval'):
                l, r = type(node.lval).__name__, type(node.rval).__name__
                shape = 'L' if l != 'NumberLiteral' else ('R' if r != 'NumberLiteral' else '?')
                shape += ':' + name
            rows.append('(%s, %s, %s)' % (lstr(t1), lstr(t2), lstr(shape)))
    parts.append('/-- probe: grouping and root class of `a[1 T1 2 T2 3]` -/')
    parts.append('def precProbe : List (List Char × List Char × List Char) := [\n  %s]\n' % ',\n  '.join(rows))

    parts.append('/-- from genshi/path.py:Path.STRATEGIES -/')
    parts.append('def strategies : List (List Char) := [\n  %s]\n' % ',\n  '.join(lstr(c.__name__) for c in P.Path.STRATEGIES))

    def probe_rows(texts):
        rows = []
        for text in texts:
            try:
                path = P.PathParser(text).parse()[0]
            except Exception:  # noqa  (a shape the parser rejects is no path shape)
                continue
            v = [bool(c.supports(path)) for c in (P.SingleStepStrategy, P.SimplePathStrategy, P.GenericStrategy)]
            rows.append('(%s, %s)' % (lstr(text), '[%s]' % ', '.join('true' if x else 'false' for x in v)))
        return rows
    rows = probe_rows(SUPPORT_BASIS)
    parts.append('/-- probe: `supports` of SingleStepStrategy, SimplePathStrategy, GenericStrategy on a basis of paths -/')
    parts.append('def supportsProbe : List (List Char × List Bool) := [\n  %s]\n' % ',\n  '.join(rows))
    rows = probe_rows(systematic_basis())
    names = []
    for k in range(0, len(rows), 48):
        names.append('supportsProbeSys%d' % (k // 48))
        parts.append('def %s : List (List Char × List Bool) := [\n  %s]\n' % (names[-1], ',\n  '.join(rows[k:k + 48])))
    parts.append('/-- probe: the same on a systematic basis (every single step, every pair and triple of steps over a '
                 'reduced alphabet), in chunks -/')
    parts.append('def supportsProbeSys : List (List (List Char × List Bool)) := [%s]\n' % ', '.join(names))

    def const_step(st):
        axis, test, preds = st
        return '(%s, %s, %s, %d)' % (lstr(axis), lstr(type(test).__name__),
                                     lstr(str(getattr(test, 'principal_type', None))), len(preds))
    parts.append('/-- from genshi/path.py:_DOTSLASH, _DOTSLASHSLASH (axis, test class, principal type, number of predicates) -/')
    parts.append('def dotSlash : List Char × List Char × List Char × Nat := %s' % const_step(P._DOTSLASH))
    parts.append('def dotSlashSlash : List Char × List Char × List Char × Nat := %s\n' % const_step(P._DOTSLASHSLASH))

    parts.append('end Genshi.Gen.Path\n')
    return 'Path.lean', '\n'.join(parts)


GENERATORS = [gen_path]

"""Generators for the NamespaceFlattener's START/EMPTY cache (property C09, work package flatcache).

An *item stream* is what reaches `NamespaceFlattener.__call__` (behind `EmptyTagFilter`), in JSON form:

    ["TAG", empty, [ns, local], [[[ns, local], value, is_markup], ...]]   START (empty false) / EMPTY (true);
                                                                         is_markup: the value is a Markup instance
    ["E", [ns, local]]   ["NS", prefix, uri|None]   ["ENS", prefix]
    ["T", text, safe]    ["C", text]                                      (passed through by the filter)

The streams are built so that the *identical* start tag (same qualified name, same attributes, same value
text) recurs across namespace scope changes, which is when a stale cache entry would show:

    decl-scope      a START_NS declaration enters / leaves scope between two occurrences
    rebind          the same prefix is bound to another URI in an inner scope (and the URI to another prefix)
    made-up         builder style, no START_NS at all: the filter makes up xmlns="…", xmlns:nsN="…" and the
                    undeclaration xmlns="" itself; the twin recurs inside and outside such a made-up scope
    redundant       START_NS requests that need no declaration (already in scope) — the output IS cached
    empty-decl      EMPTY elements that declare (bindings restored without clearing the cache)
    stray           END_NS before any start tag took the declaration; END without open element
    typed           the twin once with a Markup value, once with the equal plain string

Every random choice comes from the `random.Random` passed in.
"""
import json

XML_NS = 'http://www.w3.org/XML/1998/namespace'
XHTML = 'http://www.w3.org/1999/xhtml'
URIS = ['u1', 'u2', XHTML]
LOCALS = ['a', 'b', 'c']
PREFIXES = ['', 'p', 'q', 'ns1']
ATTR_NAMES = [['', 'x'], ['', 'y'], ['u1', 'k'], ['u2', 'k'], [XML_NS, 'lang'], [XHTML, 'h']]
VALUES = ['v', 'x&y', '', 'a<b']
PREFS = [None, None, None, {'u1': 'p'}, {'u2': 'ns1'}, {'u1': ''}, {XHTML: 'html', 'u1': 'html'}, {'u1': 'xml'}]
SHAPES = ['decl-scope', 'rebind', 'made-up', 'made-up', 'redundant', 'empty-decl', 'stray', 'typed', 'typed', 'free']


def _tag(rng, ns_pool):
    ns = rng.choice(ns_pool)
    attrs = []
    for _ in range(rng.choice([0, 0, 1, 1, 2])):
        a = rng.choice(ATTR_NAMES)
        if a not in [x[0] for x in attrs]:
            attrs.append([list(a), rng.choice(VALUES), False])
    return [ns, rng.choice(LOCALS)], attrs


class Gen(object):
    def __init__(self, rng, shape=None):
        self.rng = rng
        self.shape = shape or rng.choice(SHAPES)
        s = self.shape
        self.ns_events = 0.0 if s == 'made-up' else (0.2 if s == 'typed' else 0.6)
        ns_pool = ['', 'u1', 'u2'] if s != 'redundant' else ['u1', 'u1', '']
        if rng.random() < 0.3:
            ns_pool = ns_pool + [XHTML]
        self.pool = [_tag(rng, ns_pool) for _ in range(rng.choice([2, 2, 3]))]
        self.ns_pool = ns_pool
        self.budget = rng.randint(4, 10)
        self.twin = self.pool[0]

    def tag(self):
        r = self.rng
        if r.random() < 0.55:
            t = self.twin
        elif r.random() < 0.8:
            t = r.choice(self.pool)
        else:
            t = _tag(r, self.ns_pool)
        return json.loads(json.dumps(t))

    def decls(self):
        """START_NS requests in front of a start tag"""
        r = self.rng
        out = []
        if r.random() >= self.ns_events:
            return out
        k = r.choice([1, 1, 2, 3])
        for _ in range(k):
            p = r.choice(PREFIXES if self.shape != 'stray' else PREFIXES + ['xml'])
            if self.shape == 'redundant' and r.random() < 0.7:
                u = 'u1'
            else:
                u = r.choice(URIS + ['u1', 'u2'] + ([''] if p == '' or r.random() < 0.1 else []) +
                             ([None] if p == '' and r.random() < 0.08 else []))
            out.append([p, u])
        return out

    def node(self, depth, out):
        r = self.rng
        self.budget -= 1
        (name, attrs) = self.tag()
        ds = self.decls()
        for p, u in ds:
            out.append(['NS', p, u])
        if self.shape == 'stray' and ds and r.random() < 0.3:
            # the declaration is withdrawn before any start tag took it
            out.append(['ENS', ds[r.randrange(len(ds))][0]])
        leaf = depth >= 4 or self.budget <= 0 or r.random() < (0.55 if self.shape == 'empty-decl' else 0.3)
        out.append(['TAG', leaf, name, attrs])
        if not leaf:
            for _ in range(r.choice([1, 2, 2, 3])):
                if self.budget <= 0:
                    break
                if r.random() < 0.15:
                    out.append(r.choice([['T', 'x<y', False], ['T', '<b/>', True], ['C', 'c']]))
                self.node(depth + 1, out)
            out.append(['E', name])
        if r.random() < 0.9:
            for p, _ in reversed(ds):
                out.append(['ENS', p])

    def stream(self):
        r = self.rng
        out = []
        while self.budget > 0:
            self.node(0, out)
            if self.shape == 'stray' and r.random() < 0.3:
                out.append(['E', self.tag()[0]])
        # typed: the twin's occurrences get a Markup value here and there
        slots = [(i, j) for i, it in enumerate(out) if it[0] == 'TAG' for j in range(len(it[3]))]
        prob = 0.45 if self.shape == 'typed' else 0.06
        for i, j in slots:
            if r.random() < prob:
                out[i][3][j][2] = True
        pref = r.choice(PREFS)
        return out, pref


def gen_items(rng, shape=None):
    """(items, preferred prefixes or None, shape)"""
    g = Gen(rng, shape)
    items, pref = g.stream()
    return items, pref, g.shape


# --------------------------------------------------------------------------
# conversions

def _q(n):
    from genshi.core import QName
    return QName('%s}%s' % (n[0], n[1]) if n[0] else n[1])


def to_events(items, pos=(None, -1, -1), expand_empty=False):
    """items -> genshi events as the flattener receives them (EMPTY kind), or, with `expand_empty`, as the
    serializer receives them (EMPTY written as START, END: `EmptyTagFilter` merges them again)"""
    from genshi.core import START, END, TEXT, COMMENT, START_NS, END_NS, Markup, Attrs
    from genshi.output import EMPTY
    out = []
    for it in items:
        k = it[0]
        if k == 'TAG':
            data = (_q(it[2]), Attrs([(_q(a), Markup(v) if f else v) for a, v, f in it[3]]))
            if it[1] and expand_empty:
                out.append((START, data, pos))
                out.append((END, data[0], pos))
            else:
                out.append((EMPTY if it[1] else START, data, pos))
        elif k == 'E':
            out.append((END, _q(it[1]), pos))
        elif k == 'NS':
            out.append((START_NS, (it[1], it[2]), pos))
        elif k == 'ENS':
            out.append((END_NS, it[1], pos))
        elif k == 'T':
            out.append((TEXT, Markup(it[1]) if it[2] else it[1], pos))
        elif k == 'C':
            out.append((COMMENT, it[1], pos))
        else:
            raise ValueError(it)
    return out


NONE_URI = '\x00'


def out_json(events):
    """what the flattener yielded -> comparable JSON (the type of every attribute value is kept)"""
    from genshi.core import START, END, TEXT, COMMENT, Markup
    from genshi.output import EMPTY
    out = []
    for kind, data, _ in events:
        if kind is START or kind is EMPTY:
            out.append(['TAG', kind is EMPTY, str(data[0]),
                        [[str(a), NONE_URI if v is None else str(v), isinstance(v, Markup)] for a, v in data[1]]])
        elif kind is END:
            out.append(['E', str(data)])
        elif kind is TEXT:
            out.append(['T', str(data), isinstance(data, Markup)])
        elif kind is COMMENT:
            out.append(['C', str(data)])
        else:
            out.append(['OTHER', str(kind)])
    return out


def real_flatten(items, pref, cache):
    from genshi.output import NamespaceFlattener
    try:
        return out_json(NamespaceFlattener(prefixes=pref, cache=cache)(iter(to_events(items))))
    except Exception as e:  # noqa
        return ['raise', type(e).__name__]


def to_wire(items):
    from harness.proto import Atom, B
    out = []
    for it in items:
        k = it[0]
        if k == 'TAG':
            out.append([Atom('TAG'), B(it[1]), list(it[2]), [[list(a), v, B(f)] for a, v, f in it[3]]])
        elif k == 'E':
            out.append([Atom('E'), list(it[1])])
        elif k == 'NS':
            out.append([Atom('NS'), it[1], NONE_URI if it[2] is None else it[2]])
        elif k == 'ENS':
            out.append([Atom('ENS'), it[1]])
        elif k == 'T':
            out.append([Atom('T'), it[1], B(it[2])])
        elif k == 'C':
            out.append([Atom('C'), it[1]])
        else:
            raise ValueError(it)
    return out


def model_line(items, pref, cache):
    from harness import proto
    from harness.proto import Atom, B
    d = {XML_NS: 'xml'}
    d.update(pref or {})
    return proto.line(Atom('C09'), Atom('cflat'), B(cache), sorted([u, p] for u, p in d.items()), to_wire(items))


def model_json(ans):
    """decoded answer of `gdrv C09 cflat` -> the JSON of `out_json`"""
    out = []
    for e in ans:
        if isinstance(e, list) and e and e[0] == 'TAG':
            out.append(['TAG', e[1] == 'T', e[2], [[a, v, f == 'T'] for a, v, f in e[3]]])
        elif isinstance(e, list) and e and e[0] == 'E':
            out.append(['E', e[1]])
        elif isinstance(e, list) and e and e[0] == 'T':
            out.append(['T', e[1], e[2] == 'T'])
        elif isinstance(e, list) and e and e[0] == 'C':
            out.append(['C', e[1]])
        else:
            out.append(['OTHER', repr(e)])
    return out


def valid_items(items):
    def qn(x):
        return isinstance(x, list) and len(x) == 2 and all(isinstance(s, str) for s in x) and x[1] != '' \
            and '}' not in x[0] and not x[1].startswith('{')
    if not isinstance(items, list):
        return False
    for it in items:
        if not (isinstance(it, list) and it and isinstance(it[0], str)):
            return False
        k = it[0]
        if k == 'TAG':
            if not (len(it) == 4 and isinstance(it[1], bool) and qn(it[2]) and isinstance(it[3], list)):
                return False
            for a in it[3]:
                if not (isinstance(a, list) and len(a) == 3 and qn(a[0]) and isinstance(a[1], str)
                        and isinstance(a[2], bool)):
                    return False
        elif k == 'E':
            if not (len(it) == 2 and qn(it[1])):
                return False
        elif k == 'NS':
            if not (len(it) == 3 and isinstance(it[1], str) and (it[2] is None or isinstance(it[2], str))):
                return False
        elif k == 'ENS':
            if not (len(it) == 2 and isinstance(it[1], str)):
                return False
        elif k == 'T':
            if not (len(it) == 3 and isinstance(it[1], str) and isinstance(it[2], bool)):
                return False
        elif k == 'C':
            if not (len(it) == 2 and isinstance(it[1], str)):
                return False
        else:
            return False
    return True


def features(items, real_on):
    """what the stream exercised, read off the items and the REAL output with the cache on:
    keys counted in res.dist"""
    f = set()
    seen = {}
    for it, o in zip([i for i in items if i[0] == 'TAG'], [o for o in real_on if o and o[0] == 'TAG']):
        key = json.dumps([it[1], it[2], [[a, v] for a, v, _ in it[3]]])
        outk = json.dumps(o[2:])
        decl = any(a[0] == 'xmlns' or a[0].startswith('xmlns:') for a in o[3])
        if decl:
            f.add('tag-declares')
            if it[1]:
                f.add('empty-declares')
            if any(a[0] == 'xmlns' and a[1] == '' for a in o[3]):
                f.add('made-up-undeclaration')
            if any(a[0].startswith('xmlns:ns') for a in o[3]):
                f.add('generated-prefix')
        if key in seen:
            f.add('repeated-start-tag')
            if outk not in seen[key]:
                f.add('same-tag-flattened-differently')
            if any(x[2] for x in it[3]) != seen[key + '/m']:
                f.add('same-tag-markup-and-plain')
        seen.setdefault(key, set()).add(outk)
        seen.setdefault(key + '/m', any(x[2] for x in it[3]))
    if any(i[0] == 'NS' for i in items):
        f.add('start-ns')
    else:
        f.add('builder-no-start-ns')
    return f

"""Translator part for C06 (sanitizer): regenerates from the *running* interpreter and the genshi
modules of the repository under test

  Gen/Entities.lean   html.entities.name2codepoint (the table genshi.util.stripentities indexes)
  Gen/SanClass.lean   the character classes and constants the sanitizer's code is driven by:
                      str.isalnum / str.isspace / str.lower, `\\w` `\\s` `\\d` of `re`, int()'s digit
                      limit, and the character classes / flags of the compiled regular expressions
                      of HTMLSanitizer and stripentities (read from the compiled pattern objects,
                      whose *shape* is checked against the skeleton the Lean model implements)

A changed class or flag changes the generated table, so the theorems over it are re-checked; a
changed regex shape makes the translator fail (reported as a broken tie).
"""
import re, sys

try:
    from re import _parser as sre_parse, _constants as sre_c
except ImportError:  # pragma: no cover  (older interpreters)
    import sre_parse, sre_constants as sre_c

from harness.extract_tables import HEADER, chars

MAXCP = 0x110000


def _scalars():
    return [cp for cp in range(MAXCP) if not 0xD800 <= cp <= 0xDFFF]


def _ranges(cps):
    out = []
    start = prev = None
    for cp in cps:
        if start is None:
            start = prev = cp
        elif cp == prev + 1:
            prev = cp
        else:
            out.append((start, prev))
            start = prev = cp
    if start is not None:
        out.append((start, prev))
    return out


def _rangelist(name, rs, comment):
    body = ',\n  '.join(', '.join('(%d, %d)' % r for r in rs[i:i + 8]) for i in range(0, len(rs), 8))
    return '/-- %s -/\ndef %s : List (Nat × Nat) := [\n  %s]\n' % (comment, name, body)


def _natlist(name, xs, comment):
    return '/-- %s -/\ndef %s : List Nat := [%s]\n' % (comment, name, ', '.join(str(x) for x in xs))


# ---------------------------------------------------------------------------------------
# regular expressions: shape + classes

def _class_members(items):
    """members of an IN node -> (negated, sorted code points, categories)"""
    neg = False
    cps = set()
    cats = []
    for op, av in items:
        if op is sre_c.NEGATE:
            neg = True
        elif op is sre_c.LITERAL:
            cps.add(av)
        elif op is sre_c.RANGE:
            cps.update(range(av[0], av[1] + 1))
        elif op is sre_c.CATEGORY:
            cats.append(str(av))
        else:
            raise ValueError('unexpected class member %r' % (op,))
    return neg, sorted(cps), cats


def _shape(parsed, classes):
    """render a parsed pattern with every character class replaced by a numbered placeholder"""
    out = []
    for op, av in parsed:
        if op is sre_c.IN:
            neg, cps, cats = _class_members(av)
            classes.append((neg, cps, cats))
            out.append('IN%d' % (len(classes) - 1))
        elif op is sre_c.LITERAL:
            out.append('LIT%d' % av)
        elif op is sre_c.NOT_LITERAL:
            out.append('NOTLIT%d' % av)
        elif op is sre_c.ANY:
            out.append('ANY')
        elif op in (sre_c.MAX_REPEAT, sre_c.MIN_REPEAT):
            lo, hi, sub = av
            hi = 'INF' if hi == sre_c.MAXREPEAT else hi
            out.append('%s{%s,%s}(%s)' % ('MAX' if op is sre_c.MAX_REPEAT else 'MIN', lo, hi, _shape(sub, classes)))
        elif op is sre_c.SUBPATTERN:
            group, _add, _del, sub = av
            out.append('G%s(%s)' % (group, _shape(sub, classes)))
        elif op is sre_c.BRANCH:
            out.append('ALT(%s)' % '|'.join(_shape(b, classes) for b in av[1]))
        else:
            raise ValueError('unexpected regex node %r' % (op,))
    return ' '.join(out)


def _pattern_of(bound):
    """compiled pattern behind a bound method such as re.compile(...).sub"""
    return bound.__self__ if hasattr(bound, '__self__') else bound


def _parse(pat):
    classes = []
    shape = _shape(sre_parse.parse(pat.pattern, pat.flags), classes)
    return shape, classes


def _expect(name, shape, expected):
    if shape != expected:
        raise ValueError('regular expression %s changed shape: %s (the model implements %s)' % (name, shape, expected))


def regex_tables():
    from genshi.filters.html import HTMLSanitizer as S
    from genshi import util
    out = {}
    # _EXPRESSION_SEARCH: ten classes in a row (the {2} expanded)
    shape, cl = _parse(_pattern_of(S._EXPRESSION_SEARCH))
    toks = shape.split(' ')
    seq = []
    for t in toks:
        m = re.fullmatch(r'IN(\d+)', t)
        m2 = re.fullmatch(r'MAX\{(\d+),(\d+)\}\(IN(\d+)\)', t)
        if m:
            seq.append(int(m.group(1)))
        elif m2 and m2.group(1) == m2.group(2):
            seq.extend([int(m2.group(3))] * int(m2.group(1)))
        else:
            raise ValueError('regular expression _EXPRESSION_SEARCH changed shape: %s' % shape)
    for i in seq:
        if cl[i][0] or cl[i][2]:
            raise ValueError('_EXPRESSION_SEARCH uses a negated class or a category')
    out['expression'] = [cl[i][1] for i in seq]
    # _URL_FINDITER
    shape, cl = _parse(_pattern_of(S._URL_FINDITER))
    _expect('_URL_FINDITER', shape, 'IN0 IN1 IN2 MAX{0,INF}(IN3) LIT40 G1(MAX{1,INF}(NOTLIT41))')
    if any(c[0] or c[2] for c in cl[:3]) or cl[3] != (False, [], ['CATEGORY_SPACE']):
        raise ValueError('_URL_FINDITER classes changed kind: %r' % (cl,))
    out['url'] = [c[1] for c in cl[:3]]
    # _UNICODE_ESCAPE
    pat = _pattern_of(S._UNICODE_ESCAPE)
    shape, cl = _parse(pat)
    _expect('_UNICODE_ESCAPE', shape, 'LIT92 ALT(G1(MAX{1,6}(IN0)) MAX{0,1}(IN1)|G2(IN2))')
    if cl[0][0] or cl[0][2] or cl[1] != (False, [], ['CATEGORY_SPACE']) or not cl[2][0] or cl[2][2]:
        raise ValueError('_UNICODE_ESCAPE classes changed kind: %r' % (cl,))
    if not pat.flags & re.UNICODE:
        raise ValueError('_UNICODE_ESCAPE is not a Unicode pattern')
    out['escape_hex'] = cl[0][1]
    out['escape_excluded'] = cl[2][1]
    # _CSS_COMMENTS
    pat = _pattern_of(S._CSS_COMMENTS)
    shape, cl = _parse(pat)
    _expect('_CSS_COMMENTS', shape, 'LIT47 LIT42 MIN{0,INF}(ANY) LIT42 LIT47')
    out['comments_dotall'] = bool(pat.flags & re.DOTALL)
    # _NORMALIZE_NEWLINES
    shape, cl = _parse(_pattern_of(S._NORMALIZE_NEWLINES))
    _expect('_NORMALIZE_NEWLINES', shape, 'LIT13 LIT10')
    # stripentities
    shape, cl = _parse(util._STRIPENTITIES_RE)
    _expect('_STRIPENTITIES_RE', shape,
            'LIT38 ALT(LIT35 G1(ALT(MAX{1,INF}(IN0)|IN1 MAX{1,INF}(IN2))) MAX{0,1}(LIT59)|G2(MAX{1,INF}(IN3)) LIT59)')
    if cl[0] != (False, [], ['CATEGORY_DIGIT']) or cl[1][0] or cl[1][2] or cl[2][0] or cl[2][2] \
            or cl[3] != (False, [], ['CATEGORY_WORD']):
        raise ValueError('_STRIPENTITIES_RE classes changed kind: %r' % (cl,))
    out['ent_x'] = cl[1][1]
    out['ent_hex'] = cl[2][1]
    return out


# ---------------------------------------------------------------------------------------

def gen_entities():
    from html import entities
    rows = sorted(entities.name2codepoint.items())
    body = ',\n  '.join('(%s, %d)' % (chars(k), v) for k, v in rows)
    text = '\n'.join([HEADER, 'namespace Genshi.Gen.Entities\n',
                      '/-- html.entities.name2codepoint of the running interpreter (%d rows) -/' % len(rows),
                      'def name2codepoint : List (List Char × Nat) := [\n  %s]\n' % body,
                      'end Genshi.Gen.Entities\n'])
    return 'Entities.lean', text


def gen_sanclass():
    cps = _scalars()
    text_all = ''.join(map(chr, cps))
    parts = [HEADER, 'namespace Genshi.Gen.SanClass\n']
    parts.append(_rangelist('alnumRanges', _ranges([cp for cp in cps if chr(cp).isalnum()]),
                            'code points c with str.isalnum (is_safe_uri keeps exactly these before the first colon)'))
    parts.append(_rangelist('spaceRanges', _ranges([cp for cp in cps if chr(cp).isspace()]),
                            'code points c with str.isspace (removed by str.strip())'))
    parts.append(_rangelist('reSpaceRanges', _ranges([ord(m.group()) for m in re.finditer(r'\s', text_all)]),
                            'code points matched by \\s of `re` (str patterns)'))
    parts.append(_rangelist('reWordRanges', _ranges([ord(m.group()) for m in re.finditer(r'\w', text_all)]),
                            'code points matched by \\w of `re` (str patterns)'))
    digits = [m.group() for m in re.finditer(r'\d', text_all)]
    zeros = [ord(c) for c in digits if int(c) == 0]
    dset = set(map(ord, digits))
    for z in zeros:
        for i in range(10):
            if z + i not in dset or int(chr(z + i)) != i:
                raise ValueError('\\d digits are not runs of ten from a zero: U+%04X' % z)
    if len(digits) != 10 * len(zeros):
        raise ValueError('\\d digits are not runs of ten from a zero')
    parts.append(_natlist('digitZeros', zeros, 'the zero of every run of ten decimal digits matched by \\d; int() reads c as c - zero'))
    low = [(cp, [ord(x) for x in chr(cp).lower()]) for cp in cps if chr(cp).lower() != chr(cp)]
    lo = [(a, b) for a, b in low if a < 128]
    hi = [(a, b) for a, b in low if a >= 128]

    def lowtab(name, rows, comment):
        body = ',\n  '.join(', '.join('(%d, [%s])' % (a, ', '.join(map(str, b))) for a, b in rows[i:i + 6])
                             for i in range(0, len(rows), 6))
        return '/-- %s -/\ndef %s : List (Nat × List Nat) := [\n  %s]\n' % (comment, name, body)
    parts.append(lowtab('lowerAscii', lo, 'str.lower per character, code points < 128 that change'))
    # code points >= 128: runs (lo, hi, step, image of lo): c in [lo, hi] with (c - lo) % step = 0 maps to image + (c - lo)
    single = [(a, b[0]) for a, b in hi if len(b) == 1]
    multi = [(a, b) for a, b in hi if len(b) != 1]
    runs = []
    i = 0
    while i < len(single):
        a, t = single[i]
        best = (a, a, 1, t)
        for step in (1, 2):
            j = i
            while j + 1 < len(single) and single[j + 1][0] == single[j][0] + step and single[j + 1][1] - single[j + 1][0] == t - a:
                j += 1
            if j > i and (single[j][0] - a) // step > (best[1] - best[0]) // best[2]:
                best = (a, single[j][0], step, t)
        runs.append(best)
        i += (best[1] - best[0]) // best[2] + 1
    # self-check of the run encoding against str.lower
    enc = {}
    for lo_, hi_, st, t in runs:
        for c in range(lo_, hi_ + 1, st):
            enc[c] = [t + (c - lo_)]
    for a, b in multi:
        enc[a] = b
    if enc != dict(hi):
        raise ValueError('run encoding of str.lower is wrong')
    body = ',\n  '.join(', '.join('(%d, %d, %d, %d)' % r for r in runs[i:i + 6]) for i in range(0, len(runs), 6))
    parts.append('/-- str.lower per character for code points >= 128 that change to ONE character: runs '
                 '(lo, hi, step, image of lo); c in [lo, hi] with (c - lo) %% step = 0 maps to image + (c - lo). '
                 'U+03A3 maps to U+03C3 (the final-sigma context is not modelled) -/\n'
                 'def lowerRuns : List (Nat × Nat × Nat × Nat) := [\n  %s]\n' % body)
    parts.append(lowtab('lowerMulti', multi, 'str.lower per character, code points whose image has several characters'))
    lim = sys.get_int_max_str_digits() if hasattr(sys, 'get_int_max_str_digits') else 0
    parts.append('/-- sys.get_int_max_str_digits(): int(s, 10) raises ValueError for more digits (0 = no limit) -/\n'
                 'def intMaxStrDigits : Nat := %d\n' % lim)
    rx = regex_tables()
    body = ',\n  '.join('[%s]' % ', '.join(map(str, c)) for c in rx['expression'])
    parts.append('/-- the ten character classes of HTMLSanitizer._EXPRESSION_SEARCH as compiled (re.VERBOSE does not '
                 'strip blanks and comments inside a class, so they are members) -/\n'
                 'def expressionClasses : List (List Nat) := [\n  %s]\n' % body)
    body = ',\n  '.join('[%s]' % ', '.join(map(str, c)) for c in rx['url'])
    parts.append('/-- the three leading classes of HTMLSanitizer._URL_FINDITER -/\n'
                 'def urlClasses : List (List Nat) := [\n  %s]\n' % body)
    parts.append(_natlist('escapeHex', rx['escape_hex'], 'hex digit class of HTMLSanitizer._UNICODE_ESCAPE'))
    parts.append(_natlist('escapeExcluded', rx['escape_excluded'],
                          'characters that the second alternative of _UNICODE_ESCAPE does not accept after a backslash'))
    parts.append('/-- re.DOTALL flag of HTMLSanitizer._CSS_COMMENTS -/\ndef commentsDotall : Bool := %s\n'
                 % ('true' if rx['comments_dotall'] else 'false'))
    parts.append(_natlist('entX', rx['ent_x'], 'the [xX] class of _STRIPENTITIES_RE'))
    parts.append(_natlist('entHex', rx['ent_hex'], 'the hex digit class of _STRIPENTITIES_RE'))
    parts.append('end Genshi.Gen.SanClass\n')
    return 'SanClass.lean', '\n'.join(parts)


GENERATORS = [gen_entities, gen_sanclass]

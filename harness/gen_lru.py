"""Shared by C15/C16: reading the linked structure of a real genshi.util.LRUCache, the
independent bounded-LRU reference (an OrderedDict), the structural invariant, and the wire form
of operation sequences for `gdrv C15 lru`."""
import collections
from harness import proto
from harness.proto import Atom, B, N

READS = [['C', 0], ['C', 1], ['C', 2], ['L'], ['I']]


class Spec(object):
    """bounded LRU map, stated independently of the code: an ordered map, oldest first"""

    def __init__(self, cap):
        self.cap = cap
        self.od = collections.OrderedDict()

    def apply(self, op):
        k = op[0]
        od = self.od
        if k == 'G':
            if op[1] not in od:
                return 'KE'
            od.move_to_end(op[1])
            return ('v', od[op[1]])
        if k == 'P':
            od[op[1]] = op[2]
            od.move_to_end(op[1])
            while len(od) > self.cap:
                od.popitem(last=False)
            return 'U'
        if k == 'C':
            return op[1] in od
        if k == 'L':
            return ('n', len(od))
        if k == 'I':
            return ('k',) + tuple(reversed(od.keys()))
        raise ValueError(op)

    def items(self):
        return list(reversed(self.od.items()))


def apply_real(cache, op):
    """one operation of the overridden interface on the real object; exceptions other than
    KeyError from __getitem__ propagate (they are crashes)"""
    k = op[0]
    if k == 'G':
        try:
            return ('v', cache[op[1]])
        except KeyError:
            return 'KE'
    if k == 'P':
        cache[op[1]] = op[2]
        return 'U'
    if k == 'C':
        return op[1] in cache
    if k == 'L':
        return ('n', len(cache))
    if k == 'I':
        out = []
        bound = len(cache._dict) + 2
        for key in cache:
            out.append(key)
            if len(out) > bound:
                return ('k', 'loop')
        return ('k',) + tuple(out)
    raise ValueError(op)


class Numbering(object):
    """node identities -> the numbers the model gives them: the n-th `_Item` ever created is n.
    An item is created exactly when a key that is not in `_dict` is stored."""

    def __init__(self):
        self.created = 0
        self.num = {}      # id(node) -> number
        self.keep = []     # keep nodes alive so that id() stays unique

    def before_put(self, cache, key):
        return key not in cache._dict

    def after_put(self, cache, key, was_new):
        if was_new:
            n = self.created
            self.created += 1
            node = cache._dict.get(key)
            if node is not None and id(node) not in self.num:
                self.num[id(node)] = n
                self.keep.append(node)

    def of(self, node):
        if node is None:
            return None
        n = self.num.get(id(node))
        if n is None:
            # a node the bookkeeping never saw (cannot happen with the clean code)
            n = 1000 + len(self.num)
            self.num[id(node)] = n
            self.keep.append(node)
        return n


def walk(start, attr, bound):
    out = []
    cur = start
    while cur is not None:
        out.append(cur)
        if len(out) > bound:
            return None
        cur = getattr(cur, attr)
    return out


def dump(cache, numbering, nkeys):
    """the linked structure in the vocabulary of Driver/C15.lean dumpS (without the verdict)"""
    size = len(cache._dict)
    fwd = walk(cache.head, 'nxt', size + 2)     # same bound as the model's dump
    bwd = walk(cache.tail, 'prv', size + 2)
    o = numbering.of
    nodes = 'loop' if fwd is None else [[o(n), o(n.prv), o(n.nxt), n.key, n.value] for n in fwd]
    back = 'loop' if bwd is None else [o(n) for n in bwd]
    d = [[k, o(cache._dict[k])] for k in range(nkeys) if k in cache._dict]
    return [o(cache.head), o(cache.tail), size, nodes, back, d]


def structure_ok(cache):
    """the invariant of the property (C16 statement): every cached key reachable exactly once from
    head to tail, backwards likewise, `_dict` = the reachable nodes, size within the bound.
    Returns None or a description of what is broken."""
    size = len(cache._dict)
    fwd = walk(cache.head, 'nxt', size + 1)
    if fwd is None:
        return 'forward walk from head does not end within len(_dict)+1 nodes'
    bwd = walk(cache.tail, 'prv', size + 1)
    if bwd is None:
        return 'backward walk from tail does not end'
    if [id(n) for n in fwd] != [id(n) for n in reversed(bwd)]:
        return 'forward walk %r is not the reverse of the backward walk %r' % (
            [n.key for n in fwd], [n.key for n in bwd])
    if len(fwd) != size:
        return 'len(_dict)=%d but %d nodes are linked' % (size, len(fwd))
    keys = [n.key for n in fwd]
    if len(set(keys)) != len(keys):
        return 'a key is linked twice: %r' % (keys,)
    for n in fwd:
        if cache._dict.get(n.key) is not n:
            return '_dict[%r] is not the linked node' % (n.key,)
    if size > cache.capacity:
        return 'size %d exceeds capacity %d' % (size, cache.capacity)
    if fwd and (fwd[0].prv is not None or fwd[-1].nxt is not None):
        return 'head.prv / tail.nxt is not None'
    return None


def fe(x):
    """fast wire encoder for values made of ints, None, bools, atoms and lists (no strings)"""
    t = type(x)
    if t is list or t is tuple:
        return '( ' + ' '.join([fe(y) for y in x]) + ' )' if x else '( )'
    if t is int:
        return str(x)
    if x is None:
        return 'N'
    if t is bool:
        return 'T' if x else 'F'
    return str(x)


def wire_ops(ops):
    return [Atom(op[0]) if len(op) == 1 else [Atom(op[0])] + list(op[1:]) for op in ops]


def wire_out(o):
    if o == 'KE' or o == 'U':
        return o
    if o is True or o is False:
        return o
    return list(o)


def model_line(cap, nkeys, ops):
    return 'C15 lru %d %d %s' % (cap, nkeys, fe([op[0] if len(op) == 1 else op for op in ops]))


def run_real(LRUCache, cap, ops, nkeys):
    """run ops on a fresh real cache. Returns (cache, numbering, outs, error) where error is the
    exception class name if an operation crashed"""
    cache = LRUCache(cap)
    num = Numbering()
    outs = []
    for op in ops:
        try:
            if op[0] == 'P':
                new = num.before_put(cache, op[1])
                outs.append(apply_real(cache, op))
                num.after_put(cache, op[1], new)
            else:
                outs.append(apply_real(cache, op))
        except Exception as e:  # noqa: a crash of the container
            return cache, num, outs, type(e).__name__
    return cache, num, outs, None


def expected_answer(outs, dmp, items):
    """the answer line gdrv gives when the real run agrees with both models"""
    w = fe([wire_out(o) for o in outs])
    return '( ( %s %s ) ( %s %s ) )' % (w, fe(dmp + [True]), w, fe([[k, v] for k, v in items]))

"""Stage the code under test: import genshi from /repo's working tree, with the C
extension rebuilt from genshi/_speedups.c (impl='c') or blocked (impl='py').

Nothing is read from an installed copy; the stale .so that may sit in
/repo/genshi is never loaded.
"""
import hashlib, importlib, importlib.machinery, importlib.util, os, subprocess, sys, sysconfig

HERE = os.path.dirname(os.path.abspath(__file__))
ROOT = os.path.dirname(HERE)
def _repo_path():
    """the repository under test: $GENSHI_REPO, else the path in <verif>/.repo_path (scratch
    worktrees used while developing a check), else /repo"""
    if os.environ.get('GENSHI_REPO'):
        return os.environ['GENSHI_REPO']
    f = os.path.join(ROOT, '.repo_path')
    if os.path.exists(f):
        with open(f) as fh:
            p = fh.read().strip()
        if p:
            return p
    return '/repo'


REPO = _repo_path()
BUILD = os.path.join(ROOT, '.build')
GUARD = 'GENSHI_VERIF'


class StageError(Exception):
    pass


def build_speedups():
    """compile /repo/genshi/_speedups.c; returns the path of the shared object"""
    src = os.path.join(REPO, 'genshi', '_speedups.c')
    with open(src, 'rb') as f:
        data = f.read()
    tag = hashlib.sha1(data + sys.version.encode()).hexdigest()[:16]
    outdir = os.path.join(BUILD, 'speedups')
    os.makedirs(outdir, exist_ok=True)
    so = os.path.join(outdir, '_speedups_%s%s' % (tag, sysconfig.get_config_var('EXT_SUFFIX')))
    if os.path.exists(so):
        return so
    inc = sysconfig.get_paths()['include']
    tmp = so + '.tmp%d' % os.getpid()
    cmd = ['gcc', '-shared', '-fPIC', '-O2', '-w', '-I', inc, src, '-o', tmp]
    p = subprocess.run(cmd, stdout=subprocess.PIPE, stderr=subprocess.STDOUT)
    if p.returncode != 0:
        raise StageError('cannot compile _speedups.c:\n' + p.stdout.decode()[-2000:])
    os.replace(tmp, so)
    # drop older builds
    for f in os.listdir(outdir):
        fp = os.path.join(outdir, f)
        if fp != so and f.startswith('_speedups_') and '.tmp' not in f:
            try:
                os.remove(fp)
            except OSError:
                pass
    return so


class _SpeedupsFinder(object):
    """meta path finder: `genshi._speedups` is the shared object built from the tree under test"""

    def __init__(self, so):
        self.so = so

    def find_spec(self, fullname, path=None, target=None):
        if fullname != 'genshi._speedups':
            return None
        loader = importlib.machinery.ExtensionFileLoader(fullname, self.so)
        return importlib.util.spec_from_file_location(fullname, self.so, loader=loader)


def stage(impl='c'):
    """make `import genshi` resolve to REPO with the chosen Markup implementation.
    Must be called before genshi is imported in this process."""
    os.environ[GUARD] = '1'
    if 'genshi' in sys.modules:
        raise StageError('genshi already imported')
    sys.path.insert(0, REPO)
    so = None
    if impl == 'c':
        # The extension's init function imports genshi itself (genshi.util), which imports genshi.core,
        # which imports genshi._speedups: creating the module by hand before `import genshi` makes that
        # inner import miss sys.modules and fall through to whatever finder knows a genshi._speedups
        # (the editable install of /repo: its stale .so) -- genshi.core.Markup was then NOT built from the
        # current _speedups.c.  Resolve the name through a finder instead and import genshi normally.
        so = build_speedups()
        sys.meta_path.insert(0, _SpeedupsFinder(so))
    elif impl == 'py':
        sys.modules['genshi._speedups'] = None   # `from genshi._speedups import Markup` -> ImportError
    else:
        raise ValueError(impl)
    import genshi
    import genshi.core
    if not os.path.abspath(genshi.__file__).startswith(os.path.abspath(REPO)):
        raise StageError('genshi imported from %s, not from %s' % (genshi.__file__, REPO))
    is_c = genshi.core.Markup.__module__ == 'genshi._speedups'
    if (impl == 'c') != is_c:
        raise StageError('wanted Markup impl %s, got module %s' % (impl, genshi.core.Markup.__module__))
    if impl == 'c':
        ext = sys.modules.get('genshi._speedups')
        if ext is None or os.path.abspath(getattr(ext, '__file__', '')) != os.path.abspath(so) \
                or genshi.core.Markup is not ext.Markup:
            raise StageError('genshi.core.Markup does not come from the extension built from %s/genshi/_speedups.c (loaded: %s)'
                             % (REPO, getattr(ext, '__file__', None)))
    return genshi


def load_py_core():
    """a second copy of genshi/core.py with the C extension blocked -> pure-Python Markup.
    Returns the module object (not registered as genshi.core)."""
    import genshi  # noqa: ensure package exists
    path = os.path.join(REPO, 'genshi', 'core.py')
    saved = sys.modules.get('genshi._speedups', 'absent')
    sys.modules['genshi._speedups'] = None
    try:
        spec = importlib.util.spec_from_file_location('genshi_core_purepy', path)
        mod = importlib.util.module_from_spec(spec)
        sys.modules['genshi_core_purepy'] = mod
        spec.loader.exec_module(mod)
    finally:
        if saved == 'absent':
            del sys.modules['genshi._speedups']
        else:
            sys.modules['genshi._speedups'] = saved
    assert mod.Markup.__module__ == 'genshi_core_purepy', mod.Markup.__module__
    return mod

"""C01 — a generated case on the wire for the Lean model (lean/Driver/C01.lean), and the
comparison of the model's answers with the real code."""
from harness import proto
from harness import gen_c01 as G
from harness.proto import Atom, B, N

A = Atom


class Unmodelled(Exception):
    pass


def scalar(v):
    k = v['k']
    if k == 'n':
        return N
    if k == 's':
        return [A('pstr'), v['s']]
    if k == 'm':
        return [A('mk'), v['s']]
    if k in ('i', 'f', 'b'):
        return [A('num'), G.item_str(v)]          # the text CPython prints for the number
    if k in ('isub', 'fsub'):
        return [A('num'), v['str']]
    if k == 'o':
        return [A('obj'), v['str'], v['html']['s'] if v.get('html') else N]
    raise Unmodelled('scalar ' + k)


def val(v):
    if v['k'] in ('l', 'g'):
        return [A('many')] + [scalar(x) for x in v['items']]
    return [A('one'), scalar(v)]


class Wire(object):
    def __init__(self, case):
        self.case = case
        self.data = case['data']
        self.defs = {}

    def atom(self, name, bound):
        if name in bound:
            return [A('var'), bound.index(name)]
        v = self.data[name]
        if v['k'] in ('l', 'g', 'pairs', 'fmtstr'):
            raise Unmodelled('atom of kind ' + v['k'])
        return [A('lit'), scalar(v)]

    def vexpr(self, e, bound):
        k = e['k']
        if k == 'var':
            if e['n'] in bound:
                return [A('var'), bound.index(e['n'])]
            return [A('val'), val(self.data[e['n']])]
        if k in ('list', 'gen'):
            return [A('list')] + [self.atom(n, bound) for n in e['items']]
        raise Unmodelled('vexpr ' + k)

    def bkid(self, kid, bound):
        if 'el' in kid:
            return self.bnode(kid['el'], bound)
        if 'lst' in kid:
            return [A('arg'), [A('list')] + [self.atom(n, bound) for n in kid['lst']]]
        return [A('arg'), self.vexpr({'k': 'var', 'n': kid['v']}, bound)]

    def bnode(self, b, bound):
        return [A('el'), b['name'], [[G.KWATTRS[kw], self.atom(n, bound)] for kw, n in b['attrs']],
                [self.bkid(x, bound) for x in b['kids']]]

    def site(self, e, bound):
        """a text site as a Node"""
        k = e['k']
        if k in ('var', 'list', 'gen'):
            return [A('expr'), [A('v'), self.vexpr(e, bound)]]
        if k == 'call':
            d = self.defs[e['f']]
            # the body sees the argument as its innermost variable; nothing else of the caller's scope
            return [A('bind'), self.atom(e['arg'], bound), self.nodes(d['kids'], [d['param']] + bound)]
        if k == 'fmt':
            f = self.data[e['m']]['s']
            args = [self.atom(n, bound) for n in e['args']]
            if e['tuple'] or len(args) != 1:
                # positional operands: the model writes the format string from the pieces itself
                return [A('expr'), [A('fmtp'), wire_pieces(e['pieces'])] + args]
            return [A('expr'), [A('fmt'), f, [A('one'), args[0]]]]
        if k == 'fmtmap':
            f = self.data[e['m']]['s']
            return [A('expr'), [A('fmt'), f, [A('map')] + [[kk, self.atom(n, bound)] for kk, n in e['keys']]]]
        if k in ('add', 'radd'):
            return [A('expr'), [A(k), self.data[e['m']]['s'], self.atom(e['arg'], bound)]]
        if k == 'join':
            return [A('expr'), [A('join'), self.data[e['m']]['s']] + [self.atom(n, bound) for n in e['items']]]
        if k == 'esc':
            return [A('expr'), [A('esc'), self.atom(e['arg'], bound), B(e['q'])]]
        if k == 'tag':
            return [A('expr'), [A('build'), self.bnode(e['el'], bound)]]
        if k == 'frag':
            return [A('expr'), [A('frag')] + [self.bkid(x, bound) for x in e['kids']]]
        raise Unmodelled('site ' + k)

    def attrspec(self, a, bound):
        parts = a['parts']
        if all('lit' in p for p in parts):
            return [A('fixed'), ''.join(p['lit'] for p in parts)]
        out = [A('interp')]
        for p in parts:
            if 'lit' in p:
                if p['lit']:
                    out.append([A('lit'), p['lit']])
            else:
                out.append([A('e'), self.vexpr(p['e'], bound)])
        return out

    def nodes(self, ns, bound):
        out = []
        for n in ns:
            out.extend(self.node(n, bound))
        return out

    def node(self, n, bound):
        t = n['t']
        if t == 'lit':
            return [[A('lit'), n['s']]] if n['s'] else []
        if t == 'site':
            return [self.site(n['e'], bound)]
        if t == 'el':
            if 'for' in n:
                inner = dict(n)
                del inner['for']
                return [[A('loop'), self.vexpr(n['for']['e'], bound), self.node(inner, [n['for']['var']] + bound)]]
            attrs = [[a['name'], self.attrspec(a, bound)] for a in n['attrs']]
            pa = N
            if n.get('pyattrs'):
                pa = [[name, self.atom(src, bound)] for name, src in n['pyattrs']['items']]
            if n.get('content') is not None:
                kids = [self.site(n['content'], bound)]
            else:
                kids = self.nodes(n['kids'], bound)
            return [[A('el'), n['name'], attrs, pa, kids]]
        if t == 'for':
            return [[A('loop'), self.vexpr(n['e'], bound), self.nodes(n['kids'], [n['var']] + bound)]]
        if t == 'with':
            return [[A('bind'), self.atom(n['e']['n'], bound), self.nodes(n['kids'], [n['var']] + bound)]]
        if t == 'if':
            return [[A('cond'), B(n['cond']), self.nodes(n['kids'], bound)]]
        if t == 'choose':
            if n['pick'] in (0, 1):
                return [[A('cond'), B(True), self.nodes(n['kids'][n['pick']], bound)]]
            return []
        if t == 'def':
            self.defs[n['name']] = n
            return []
        raise Unmodelled('node ' + t)

    def forest(self):
        c = self.case
        if c['mode'] == 'builder':
            return [self.site(c['expr'], [])]
        return [[A('el'), 'root', [], N, self.nodes(c['tmpl'], [])]]


def request_lines(case):
    """(run line, events line) or None when the case has no model counterpart"""
    try:
        forest = Wire(case).forest()
    except Unmodelled:
        return None
    return [proto.line(A('C01'), A('run'), A(case['method']), B(case['strip']), forest),
            proto.line(A('C01'), A('events'), forest),
            None,    # slot 2: the reader on the real output (added by compare)
            proto.line(A('C01'), A('expect'), A(case['method']), B(case['strip']), forest)]


def reader_tokens(ans):
    """the Lean reader's events in the vocabulary of the oracle's tokens"""
    out = []
    for e in ans:
        if e[0] == 'S':
            d = dict((k, v) for k, v in e[2])
            if len(d) != len(e[2]):
                out.append(['DUPATTR', e[1]])
            out.append(['S', e[1], d])
        elif e[0] == 'E':
            out.append(['E', e[1]])
        else:
            out.append(['T', e[1]])
    return out


def real_events(case):
    """the START/END/TEXT events of Template.generate / Element.generate, in the model's vocabulary"""
    from genshi.core import Markup, escape, START, END, TEXT
    from genshi.builder import tag
    from genshi.template import MarkupTemplate
    data = G.materialise_data(case['data'], Markup)
    data.update({'Markup': Markup, 'tag': tag, 'escape': escape})
    if case['mode'] == 'builder':
        stream = eval(G.expr_src(case['expr']), {'__builtins__': {}}, data).generate()
    else:
        stream = MarkupTemplate(G.template_src(case)).generate(**data)
    out = []
    for kind, d, _ in stream:
        if kind is START:
            out.append([A('S'), str(d[0]), [[str(k), str(v)] for k, v in d[1]]])
        elif kind is END:
            out.append([A('E'), str(d)])
        elif kind is TEXT:
            out.append([A('T'), str(d), B(isinstance(d, Markup))])
        else:
            out.append([A('OTHER'), str(kind)])
    return out


def wire_pieces(pieces):
    out = []
    for p in pieces:
        if p[0] == 'T':
            out.append([A('T'), p[1]])
        elif p[0] == 'H':
            out.append(A('H'))
        elif p[0] == 'S':
            out.append([A('S'), p[1], [[an, A('hole') if av[0] == 'hole' else [A('lit'), av[1]]] for an, av in p[2]]])
        else:
            out.append([A('E'), p[1]])
    return out


def fmt_sites(x, data, acc):
    """positional `Markup(fmt) % (plain strings)` sites of a case: (pieces, format string, operand strings)"""
    if isinstance(x, dict):
        if x.get('k') == 'fmt' and x.get('tuple') and all(n in data and data[n]['k'] == 's' for n in x['args']):
            acc.append((x['pieces'], data[x['m']]['s'], [data[n]['s'] for n in x['args']]))
        for v in x.values():
            fmt_sites(v, data, acc)
    elif isinstance(x, list):
        for v in x:
            fmt_sites(v, data, acc)


def compare_fmt_sites(cases, res):
    """stream markup-format-site: the theorem's vocabulary (pieces -> format string, operator result, what
    re-reading gives) against the real Markup operator and the generator's own skeleton of the pieces"""
    from genshi.core import Markup
    sites = []
    for c in cases:
        acc = []
        fmt_sites(c.get('tmpl') if c['mode'] == 'template' else c.get('expr'), c['data'], acc)
        for s in acc:
            sites.append((c, s))
    if not sites:
        return
    lines = [proto.line(A('C01'), A('fmtsite'), wire_pieces(p), list(args)) for _, (p, f, args) in sites]
    for (c, (p, f, args)), ans in zip(sites, proto.run_lines(lines)):
        res.streams['markup-format-site'] = res.streams.get('markup-format-site', 0) + 1
        try:
            real_res = str(Markup(f) % tuple(args))
        except Exception as e:
            real_res = Atom('raises')
        nostrip = dict(c, strip=False)
        exp = G.coalesce(G.Spec(nostrip).pieces_toks(p, [{'k': 's', 's': a} for a in args]))
        model = proto.dec(ans)
        mf, mres, mevs = model[0], model[1], model[2]
        mtoks = reader_tokens(mevs) if isinstance(mevs, list) else mevs
        real = [f, real_res, exp]
        if [mf, mres, mtoks] != real:
            res.disagreements.append({'stream': 'markup-format-site', 'case': c, 'model': repr([mf, mres, mtoks])[:700],
                                      'real': repr(real)[:700]})


def _has_raw(x):
    if isinstance(x, dict):
        if x.get('t') == 'el' and x.get('name') in G.RAW:
            return True
        return any(_has_raw(v) for v in x.values())
    if isinstance(x, list):
        return any(_has_raw(v) for v in x)
    return False


def compare(cases, outs, res, reparse, streams=(0, 1, 2, 3)):
    lines, idx = [], []
    revs = {}
    for i, c in enumerate(cases):
        if outs[i] is None:
            res.count('model:skipped-oracle-failure')
            continue
        ls = request_lines(c)
        if ls is None:
            res.count('model:no-counterpart')
            continue
        ls[2] = proto.line(A('C01'), A('read'), A(c['method']), outs[i])
        etago = G.raw_etago(c)
        if etago:
            # raw text holding `</`: where it ends is read differently by an HTML 4 reader (the Lean one: at `</`) and by
            # html.parser (at `</script`); the case is outside the property
            res.count('reader:skipped:etago-in-raw-text')
        for j, l in enumerate(ls):
            if j in streams and not (j == 2 and etago):
                lines.append(l)
                idx.append((i, j))
        has_raw = c['mode'] == 'template' and _has_raw(c['tmpl'])
        if has_raw and not c['strip'] and 3 in streams:
            # stream lean-rawspec-vs-generator-spec: `structure_preserved_rawtext_partial`'s specification
            lines.append(proto.line(A('C01'), A('expectr'), A(c['method']), Wire(c).forest()))
            idx.append((i, 5))
        if 1 in streams:
            # stream serializer-cache-flag: the REAL event stream of the template through the three Lean
            # serializers (loop with cache + flag, loop without cache, escaping by enclosing elements)
            try:
                revs[i] = real_events(c)
            except Exception as e:
                revs[i] = Atom('raised:' + type(e).__name__)
            if isinstance(revs[i], list) and all(e[0] != 'OTHER' for e in revs[i]):
                lines.append(proto.line(A('C01'), A('emit3'), A(c['method']), B(c['strip']), revs[i]))
                idx.append((i, 4))
                if has_raw and not c['strip'] and c['method'] == 'html' and not etago:
                    # stream rawtext-reread-real-events: `reread_rawtext_nostrip` instantiated on the REAL event stream
                    lines.append(proto.line(A('C01'), A('rawreread'), A(c['method']), revs[i]))
                    idx.append((i, 6))
    if 0 in streams:
        compare_fmt_sites([c for i, c in enumerate(cases) if outs[i] is not None], res)
    answers = proto.run_lines(lines)
    for (i, j), ans in zip(idx, answers):
        stream = ['render-text', 'template-events', 'reader-vs-independent-parser', 'lean-spec-vs-generator-spec',
                  'serializer-cache-flag', 'lean-rawspec-vs-generator-spec', 'rawtext-reread-real-events'][j]
        if j == 5:
            if ans == 'outside' or ans == 'unmodelled':
                res.count('structure_preserved_rawtext:case-outside-hypotheses' + (':etago' if G.raw_etago(cases[i]) else ''))
                continue
            res.count('structure_preserved_rawtext:case-inside-hypotheses:' + cases[i]['method'])
            exp = G.Spec(cases[i]).expected()
            if any(t[0] == 'ALT' for t in exp):
                res.count('structure_preserved_rawtext:inside-but-generator-spec-has-alternatives')
                continue
            model = reader_tokens(proto.dec(ans))
            real = G.coalesce(exp)
            res.streams[stream] = res.streams.get(stream, 0) + 1
            if model != real:
                res.disagreements.append({'stream': stream, 'case': cases[i], 'model': repr(model)[:600], 'real': repr(real)[:600]})
            continue
        if j == 6:
            if ans == 'outside':
                res.count('reread_rawtext:real-stream-outside-hypotheses')
                continue
            res.count('reread_rawtext:real-stream-inside-hypotheses')
            dec = proto.dec(ans)
            model = reader_tokens(dec[0])
            real = G.coalesce(reparse(outs[i], cases[i]['method']))
            res.streams[stream] = res.streams.get(stream, 0) + 1
            for seg in dec[1]:
                res.count('reread_rawtext:raw-segment:' + ('empty' if not seg else 'hostile' if any(ch in seg for ch in '<&') else 'benign'))
            if model != real:
                res.disagreements.append({'stream': stream, 'case': cases[i], 'model': repr(model)[:600], 'real': repr(real)[:600]})
            continue
        if j == 4:
            model = proto.dec(ans)
            res.streams[stream] = res.streams.get(stream, 0) + 1
            if isinstance(model[2], Atom):
                res.count('serializer-cache-flag:stream-outside-rawLeaf')
                model = model[:2]
            real = [outs[i]] * len(model)
            if model != real:
                res.disagreements.append({'stream': stream, 'case': cases[i], 'model': repr(model)[:900], 'real': repr(outs[i])[:300]})
            continue
        if ans == 'unmodelled':
            res.count('model:unmodelled')
            continue
        if j == 3:
            if ans == 'outside':
                res.count('structure_preserved:case-outside-hypotheses')
                continue
            res.count('structure_preserved:case-inside-hypotheses')
            exp = G.Spec(cases[i]).expected()
            if any(t[0] == 'ALT' for t in exp):
                res.count('structure_preserved:inside-but-generator-spec-has-alternatives')
                continue
            model = reader_tokens(proto.dec(ans))
            # the Lean specification is exact about which runs strip_whitespace normalises (it follows the
            # generated preserve table); the generator's skeleton leaves that open, as the oracle does
            real = G.coalesce(exp)
            res.streams[stream] = res.streams.get(stream, 0) + 1
            if not G.same_tokens(real, model, cases[i]['strip']):
                res.disagreements.append({'stream': stream, 'case': cases[i], 'model': repr(model)[:600], 'real': repr(real)[:600]})
            continue
        try:
            model = proto.dec(ans)
        except Exception:
            model = Atom(ans)
        if j == 0:
            real = outs[i]
        elif j == 2:
            real = G.coalesce(reparse(outs[i], cases[i]['method']))
            model = reader_tokens(model) if isinstance(model, list) else model
        else:
            real = revs[i]
        res.streams[stream] = res.streams.get(stream, 0) + 1
        if model != real:
            res.disagreements.append({'stream': stream, 'case': cases[i], 'model': repr(model)[:600], 'real': repr(real)[:600]})

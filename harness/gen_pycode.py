"""Random Python expressions and statement suites (source text) for the `pycode` stream of C19:
the inputs of `genshi.filters.i18n.extract_from_code`.

Every string literal of a generated source is distinct (`m<k>…`), so a value recorded while the
source is evaluated identifies the literal it came from.  The generator only emits text; what the
calls in it are is measured afterwards on CPython's own `ast` (`literal_sites`, `site_stats`).
"""
import ast

NON_GETTEXT = ('len', 'str', 'dict', 'sorted', 'pgettext', 'tr', 'N_')
VARS = ('x', 'y', 'n', 'items', 'd', 'obj', 'num', 'name')
SPICE = ('', '', '', ' item', ' items', ' %s', ' %(num)s', u' \xe9t\xe9', u' \u4e16', ' "q"', " it's", '\n', '\t', ' {0}',
         u' \U0001f600', '\\', '')


class PyGen(object):
    def __init__(self, rng, gf, undecodable=False):
        self.rng = rng
        self.gf = list(gf)
        self.k = 0
        self.undecodable = undecodable     # may emit a bytes literal that is no utf-8

    # ---- literals
    def text(self):
        self.k += 1
        return 'm%d%s' % (self.k, self.rng.choice(SPICE))

    def strlit(self):
        s = self.text()
        q = self.rng.random()
        if q < 0.70:
            return repr(s)
        if q < 0.78:
            return 'u' + repr(s)
        if q < 0.86 and '\\' not in s and '"' not in s and '\n' not in s and '\t' not in s:
            return '"""%s"""' % s
        if q < 0.93 and len(s) > 2:
            i = self.rng.randrange(1, len(s))
            return '%s %s' % (repr(s[:i]), repr(s[i:]))       # implicit concatenation: one constant
        return repr(s)

    def byteslit(self):
        if self.undecodable and self.rng.random() < 0.5:
            self.k += 1
            return repr(('m%d' % self.k).encode('ascii') + self.rng.choice([b'\xff', b'\xc3', b'\xe9t']))
        return repr(self.text().encode('utf-8'))

    def atom(self):
        q = self.rng.random()
        if q < 0.30:
            return self.strlit()
        if q < 0.36:
            return self.byteslit()
        if q < 0.48:
            return str(self.rng.randrange(0, 10))
        if q < 0.54:
            return self.rng.choice(['None', 'True', 'False', '...'])
        return self.rng.choice(VARS)

    # ---- calls
    def call_args(self, depth, gettext):
        rng = self.rng
        args = []
        npos = rng.choice([0, 1, 1, 1, 1, 2, 2, 3, 3, 4]) if gettext else rng.choice([0, 1, 1, 2])
        for _ in range(npos):
            q = rng.random()
            if gettext and q < 0.55:
                args.append(self.strlit())
            elif gettext and q < 0.62:
                args.append(self.byteslit())
            elif q < 0.72:
                args.append(rng.choice(VARS))
            else:
                args.append(self.expr(depth - 1))
        if rng.random() < 0.10:
            args.insert(rng.randrange(len(args) + 1), '*' + rng.choice(['a', 'items', self.paren(self.expr(depth - 1))]))
        if rng.random() < 0.15:
            for i in range(rng.choice([1, 1, 2])):
                args.append('%s=%s' % (rng.choice(['k', 'num', 'default', 'sep'])+ str(i or ''), self.expr(depth - 1)))
        if rng.random() < 0.07:
            args.append('**' + rng.choice(['kw', 'd', self.paren(self.expr(depth - 1))]))
        return ', '.join(args)

    def gettext_call(self, depth):
        f = self.rng.choice(self.gf)
        return '%s(%s)' % (f, self.call_args(depth, True))

    def paren(self, s):
        return '(' + s + ')'

    def expr(self, depth):
        rng = self.rng
        if depth <= 0:
            return self.atom() if rng.random() < 0.6 else self.gettext_call(0)
        q = rng.random()
        d = depth - 1
        if q < 0.30:
            return self.gettext_call(depth)
        if q < 0.42:
            return self.atom()
        if q < 0.50:
            return '%s(%s)' % (rng.choice(NON_GETTEXT), self.call_args(depth, False))
        if q < 0.56:     # method / attribute calls: no call of a plain name, whatever the attribute is called
            base = self.expr(d)
            return '%s.%s(%s)' % (self.paren(base) if rng.random() < 0.4 and not base.isdigit() else rng.choice(VARS),
                                  rng.choice(['format', '_', 'gettext', 'ngettext', 'join', 'get']), self.call_args(depth, rng.random() < 0.5))
        if q < 0.60:
            return '%s %s %s' % (self.paren(self.expr(d)), rng.choice(['+', '%', '-', '==', '<', 'in', 'is not', '|']), self.paren(self.expr(d)))
        if q < 0.64:
            return '%s %s %s' % (self.paren(self.expr(d)), rng.choice(['and', 'or']), self.paren(self.expr(d)))
        if q < 0.68:
            return '%s if %s else %s' % (self.paren(self.expr(d)), self.paren(self.expr(d)), self.paren(self.expr(d)))
        if q < 0.72:
            return self.lambda_(d)
        if q < 0.76:
            form = rng.choice(['[%s for %s in %s]', '[%s for %s in %s if %s]', 'list(%s for %s in %s)', 'sorted(%s for %s in %s if %s)'] * 4 +
                              ['{%s for %s in %s}', '{%s: %s for %s in %s}'])     # the last two: unknown to genshi's transformer
            v = rng.choice(['i', 'it', '_x'])
            elt = rng.choice([lambda: self.expr(d), lambda: '%s(%s)' % (rng.choice(self.gf), v),
                              lambda: '%s(%s, %s)' % (rng.choice(self.gf), self.strlit(), v)])
            parts = [elt(), v, rng.choice(['items', self.paren(self.expr(d))])]
            if form.count('%s') == 4:
                if form.startswith('{%s:'):
                    parts = [v] + parts
                else:
                    parts.append(self.paren(self.expr(d)))
            return form % tuple(parts)
        if q < 0.80:
            return rng.choice(['[%s]', '(%s,)', '[%s]', '(%s,)', '[*a, %s]', '[*a, %s]', '{%s}']) % ', '.join(self.expr(d) for _ in range(rng.choice([1, 2, 3])))
        if q < 0.83:
            return '{%s}' % ', '.join('%s: %s' % (self.expr(d), self.expr(d)) for _ in range(rng.choice([1, 2])))
        if q < 0.87:
            return '%s[%s]' % (rng.choice(['items', 'd', self.paren(self.expr(d))]),
                               rng.choice([lambda: self.expr(d), lambda: '%s:%s' % (self.expr(d), self.expr(d)), lambda: '::2', lambda: '0']) ())
        if q < 0.90:
            base = self.expr(d)
            return '%s.%s' % ('obj' if base.isdigit() or rng.random() < 0.5 else self.paren(base), rng.choice(['name', 'title', '_', 'gettext']))
        if q < 0.93:
            return rng.choice(['not %s', '-%s']) % self.paren(self.expr(d))
        if q < 0.945:     # forms genshi's transformer may not know: skipped and counted when it does not
            return rng.choice(['(w := %s)', 'f"{%s}"', '{**d, "k": %s}', 'x @ %s', 'x[::2, %s]']) % self.paren(self.expr(min(d, 1)))
        if q < 0.97:     # the result of a call is called: the inner call is the call of a name
            return '%s(%s)' % (self.gettext_call(d), self.call_args(d, False))
        return self.paren(self.lambda_(d)) + '(%s)' % self.strlit()

    def lambda_(self, d):
        rng = self.rng
        params = rng.choice(['', 'a', 'a, b=%s' % self.expr(d), '*, a', '*, a=%s' % self.expr(d), 'a, /, b=%s, *r, k=%s, **kw' % (self.expr(d), self.expr(d)),
                             '*r, **kw', '_'])
        return 'lambda %s: %s' % (params, self.expr(d))

    # ---- statements
    def block(self, depth, indent, in_def):
        n = self.rng.choice([1, 1, 2, 3])
        return ''.join(self.stmt(depth, indent, in_def) for _ in range(n))

    def stmt(self, depth, indent, in_def):
        rng = self.rng
        pad = '    ' * indent
        q = rng.random()
        d = depth - 1
        if depth <= 0 or q < 0.30:
            e = self.expr(max(depth, 1))
            form = rng.choice(['y = @', 'z = @', 'title = @', 'a, b = @', '@', 'z += @', 'out(@)', 'd[#] = @', 'obj.title = @', 'assert @',
                               'del z', 'del d[@]'])
            if '#' in form:
                form = form.replace('#', self.expr(0), 1)
            return pad + (form if '@' not in form else form[:form.rfind('@')] + e + form[form.rfind('@') + 1:]) + '\n'
        if q < 0.45:
            name = rng.choice(['f', 'g', 'helper'])
            params = rng.choice(['', 'a', 'a, b=%s' % self.expr(d), 'a, *, k=%s' % self.expr(d), 'a=%s, *r, k, **kw' % self.expr(d), '*, a, b=%s' % self.expr(d)])
            deco = pad + '@%s\n' % rng.choice(['deco', 'deco2(%s)' % self.expr(d)]) if rng.random() < 0.15 else ''
            doc = pad + '    ' + self.strlit() + '\n' if rng.random() < 0.15 else ''
            return '%s%sdef %s(%s):\n%s%s' % (deco, pad, name, params, doc, self.block(d, indent + 1, True))
        if q < 0.57:
            s = '%sfor %s in %s:\n%s' % (pad, rng.choice(['i', 'it', 'k, v']), self.expr(d), self.block(d, indent + 1, in_def))
            if rng.random() < 0.2:
                s += '%selse:\n%s' % (pad, self.block(d, indent + 1, in_def))
            return s
        if q < 0.72:
            s = '%sif %s:\n%s' % (pad, self.expr(d), self.block(d, indent + 1, in_def))
            if rng.random() < 0.3:
                s += '%selif %s:\n%s' % (pad, self.expr(d), self.block(d, indent + 1, in_def))
            if rng.random() < 0.4:
                s += '%selse:\n%s' % (pad, self.block(d, indent + 1, in_def))
            return s
        if q < 0.80 and in_def:
            return pad + rng.choice(['return %s', 'return', 'yield %s']) .replace('%s', self.expr(depth)) + '\n'
        if q < 0.86:
            return '%stry:\n%s%sexcept %s:\n%s' % (pad, self.block(d, indent + 1, in_def), pad, rng.choice(['Exception', 'KeyError', 'Exception', '(KeyError, ValueError)', 'KeyError as e']),
                                                 self.block(d, indent + 1, in_def)) + \
                ('%sfinally:\n%s' % (pad, self.block(d, indent + 1, in_def)) if rng.random() < 0.3 else '')
        if q < 0.91:
            return '%sclass C(%s):\n%s    label = %s\n%s' % (pad, rng.choice(['', 'object']), pad, self.expr(d), self.block(d, indent + 1, False))
        if q < 0.95:
            return pad + '%s(%s)\n' % (rng.choice(['f', 'g', 'helper']), self.call_args(depth, False))
        if q < 0.97:
            return '%swith %s as h:\n%s' % (pad, self.expr(d), self.block(d, indent + 1, in_def))
        return pad + rng.choice(['pass', 'pass', 'import os', 'import os', 'global z', 'while False:\n%s    pass' % pad, 'raise ValueError(%s)' % self.expr(d)]) + '\n'

    def suite(self, depth):
        return ''.join(self.stmt(depth, 0, False) for _ in range(self.rng.choice([1, 2, 2, 3, 4])))


# ---------------------------------------------------------------------------
# measurements on CPython's own syntax tree of the SOURCE (independent of genshi and of the model)

def _name_call(node):
    return isinstance(node, ast.Call) and isinstance(node.func, ast.Name)


# Defect found by the pycode oracle and repaired in genshi (`fix: the expression transformer no longer
# edits a starred argument in place`): `TemplateASTTransformer.visit_Starred` rewrote the operand of a
# `*` in place, so the tree `extract_from_code` walks (`code.ast`) held `_lookup_name(__data__, '_')(...)`
# there instead of `_(...)` and `f(*[_("Hello")])` reported nothing.  The switch stays for bisecting:
# True = the oracle does not demand the calls written under a `*`.
EXCLUDE_UNDER_STAR = False


def literal_sites(tree, gf, exclude_under_star=None):
    """{(function name, first positional argument)} of the calls `f('literal', ...)` of a plain
    name among `gf` whose first argument is a string literal in the source; second component of
    the result: the number of such sites left out because they stand under a `*`"""
    if exclude_under_star is None:
        exclude_under_star = EXCLUDE_UNDER_STAR
    out = set()
    skipped = [0]

    def walk(node, star):
        if _name_call(node) and node.func.id in gf and node.args:
            a = node.args[0]
            if isinstance(a, ast.Constant) and isinstance(a.value, str):
                if star and exclude_under_star:
                    skipped[0] += 1
                else:
                    out.add((node.func.id, a.value))
        for c in ast.iter_child_nodes(node):
            walk(c, star or isinstance(node, ast.Starred))
    walk(tree, False)
    return out, skipped[0]


def site_stats(tree, gf):
    """counters about the gettext call sites of the source"""
    st = {'sites': 0, 'nested': 0, 'zero-arg': 0, 'bytes-arg': 0, 'non-literal-arg': 0, 'kwargs': 0, 'star-args': 0,
          'literal-arg': 0}

    def walk(node, inside):
        g = _name_call(node) and node.func.id in gf
        if g:
            st['sites'] += 1
            if inside:
                st['nested'] += 1
            if not node.args:
                st['zero-arg'] += 1
            for a in node.args:
                if isinstance(a, ast.Constant) and isinstance(a.value, bytes):
                    st['bytes-arg'] += 1
                elif isinstance(a, ast.Constant) and isinstance(a.value, str):
                    st['literal-arg'] += 1
                elif isinstance(a, ast.Starred):
                    st['star-args'] += 1
                else:
                    st['non-literal-arg'] += 1
            if node.keywords:
                st['kwargs'] += 1
        for c in ast.iter_child_nodes(node):
            walk(c, inside or g)
    walk(tree, False)
    return st


# ---------------------------------------------------------------------------
# evaluation with recording stand-ins

SAFE_NODES = tuple(getattr(ast, n) for n in (
    'Module Expression Expr Assign AugAssign Delete Assert Pass Return Yield FunctionDef ClassDef For If Try ExceptHandler '
    'With withitem Call keyword Starred Name Attribute Subscript Slice Constant List Tuple Set Dict ListComp SetComp DictComp '
    'GeneratorExp comprehension Lambda arguments arg IfExp BoolOp BinOp UnaryOp Compare NamedExpr JoinedStr FormattedValue '
    'Load Store Del And Or Not USub Add Sub Mod BitOr Eq Lt In IsNot').split())
BUILTINS = {'len': len, 'str': str, 'dict': dict, 'sorted': sorted, 'list': list, 'Exception': Exception, 'KeyError': KeyError,
            'ValueError': ValueError, 'object': object}


def safe_to_evaluate(tree):
    """only the node kinds the generator emits for evaluation, small integers, no dunder names:
    the shrinker deletes arbitrary characters of a source, what it makes must stay harmless"""
    for node in ast.walk(tree):
        if not isinstance(node, SAFE_NODES):
            return False
        if isinstance(node, ast.Name) and '__' in node.id:
            return False
        if isinstance(node, ast.Attribute) and '__' in node.attr:
            return False
        if isinstance(node, ast.Constant) and isinstance(node.value, int) and not isinstance(node.value, bool) and abs(node.value) > 1000:
            return False
        if isinstance(node, ast.Constant) and isinstance(node.value, (float, complex)):
            return False
    return True


class Soft(str):
    """a string that puts up with whatever the generated code does to it (so that evaluation gets
    as far as possible): callable, any attribute, arithmetic, subscripts, iteration, `**`, `with`"""

    def __call__(self, *a, **k):
        return self

    def __getattr__(self, name):
        if name.startswith('__'):
            raise AttributeError(name)
        return Soft(name)

    def _same(self, *a):
        return self
    __add__ = __radd__ = __sub__ = __rsub__ = __mod__ = __rmod__ = __or__ = __ror__ = __neg__ = __getitem__ = _same
    format = join = get = title = _same

    def __lt__(self, other):
        return True

    def __iter__(self):
        return iter((self,))

    def keys(self):
        return []

    def __enter__(self):
        return self

    def __exit__(self, *a):
        return False


class _Obj(object):
    name = Soft('objname')
    title = Soft('objtitle')

    def _(self, *a, **k):
        return Soft(a[0]) if a and type(a[0]) is str else Soft('')
    gettext = ngettext = format = join = get = _

    def __enter__(self):
        return self

    def __exit__(self, *a):
        return False


def evaluate(src, mode, gf, names):
    """run the source under CPython with a recording stand-in for every name in `names`
    (the gettext functions and the other called names); returns (log, error class or None) where
    log = [(function name, first positional argument)] of the calls of the names in `gf` that
    were made with a `str` as first argument"""
    log = []

    def standin(fname):
        def f(*a, **k):
            if fname in gf and a and isinstance(a[0], str):
                log.append((fname, a[0]))
            if not a:
                return Soft('')
            return Soft(a[0]) if type(a[0]) is str else a[0]
        f.__name__ = str(fname)
        return f
    env = {'__builtins__': dict(BUILTINS)}
    env.update(x=Soft('X'), y=Soft('Y'), n=Soft('3'), num=Soft('2'), name=Soft('NAME'), items=[Soft('i1'), Soft('i2')], d={'k': Soft('v')},
               obj=_Obj(), a=(Soft('A1'),), kw={}, z=Soft(''),
               out=lambda *a, **k: None, deco=lambda f: f, deco2=lambda *a, **k: (lambda f: f))
    for fname in names:
        if fname not in BUILTINS:
            env[fname] = standin(fname)
    for fname in gf:
        env[fname] = standin(fname)
    err = None
    try:
        code = compile(src, '<pycode>', 'eval' if mode == 'expr' else 'exec')
        if mode == 'expr':
            eval(code, env)
        else:
            exec(code, env)
    except RecursionError:
        err = 'RecursionError'
    except Exception as e:  # noqa
        err = type(e).__name__
    return log, err

"""Check driver: translate -> prove -> correspond -> decide -> evidence.
See DESIGN.md section 2.2."""
import fcntl, hashlib, importlib, json, multiprocessing, os, random, re, subprocess, sys, time, traceback

HERE = os.path.dirname(os.path.abspath(__file__))
ROOT = os.path.dirname(HERE)
LEAN = os.path.join(ROOT, 'lean')
BUILD = os.path.join(ROOT, '.build')
EVID = os.path.join(ROOT, 'evidence')
REPLAYS = os.path.join(ROOT, 'replays')
FINDINGS = os.path.join(ROOT, 'known_findings.json')
ALLOWED_AXIOMS = {'propext', 'Classical.choice', 'Quot.sound'}
FORBIDDEN = re.compile(r'\bsorry\b|\badmit\b|^axiom |native_decide|bv_decide|implemented_by|\bunsafe |maxHeartbeats 0')

if ROOT not in sys.path:
    sys.path.insert(0, ROOT)


class Infra(Exception):
    """infrastructure failure: exit 2, never a VIOLATION"""


class Result(object):
    def __init__(self):
        self.evaluations = 0
        self.nontrivial = set()
        self.rule = ''
        self.samples = []
        self.disagreements = []   # model vs code: dicts {stream, case, model, real}
        self.failures = []        # property oracle on the real code: dicts {case, what, expected, observed}
        self.dist = {}
        self.notes = []
        self.streams = {}         # stream name -> number of compared lines

    def count(self, key, n=1):
        self.dist[key] = self.dist.get(key, 0) + n

    def merge(self, other):
        self.evaluations += other.evaluations
        self.nontrivial |= other.nontrivial
        self.samples.extend(other.samples)
        self.disagreements.extend(other.disagreements)
        self.failures.extend(other.failures)
        for k, v in other.dist.items():
            self.count(k, v)
        for k, v in other.streams.items():
            self.streams[k] = self.streams.get(k, 0) + v
        self.notes.extend(other.notes)
        return self


class Ctx(object):
    def __init__(self, prop, tier, seed):
        self.prop = prop
        self.tier = tier
        self.seed = seed
        self.thorough = tier == 'thorough'
        self.t0 = time.time()
        self.cpus = min(16, os.cpu_count() or 1)

    def rng(self, *salt):
        h = hashlib.sha256(repr((self.seed, self.prop) + salt).encode()).digest()
        return random.Random(int.from_bytes(h[:8], 'big'))

    def n(self, quick, thorough):
        return thorough if self.thorough else quick


# --------------------------------------------------------------------------
# parallel workers with staged genshi

def _init_worker(impl):
    from harness import stage
    stage.stage(impl)


class Hang(BaseException):
    """raised inside a worker when one call into the code under test did not come back within its deadline
    (BaseException: genshi's own `except Exception` clauses must not swallow it)"""


class deadline(object):
    """`with deadline(seconds): call_real_code()` -- raises Hang in the calling (main) thread of the process when the
    block runs longer than `seconds` of wall clock. Used by properties that claim termination (C06, C07): a change
    that makes the code loop forever must end as a VIOLATION with the input, not as a check that never returns.
    The limit is generous (a case normally takes milliseconds) so that a loaded machine raises no false alarm."""
    def __init__(self, seconds):
        self.seconds = seconds

    def _fire(self, *a):
        raise Hang('no result after %s s' % self.seconds)

    def __enter__(self):
        import signal, threading
        self.on = threading.current_thread() is threading.main_thread() and hasattr(signal, 'setitimer')
        if self.on:
            self.old = signal.signal(signal.SIGALRM, self._fire)
            signal.setitimer(signal.ITIMER_REAL, self.seconds)
        return self

    def __exit__(self, *a):
        if self.on:
            import signal
            signal.setitimer(signal.ITIMER_REAL, 0)
            signal.signal(signal.SIGALRM, self.old)
        return False


def _call(args):
    modname, fname, arg = args
    mod = importlib.import_module(modname)
    return getattr(mod, fname)(arg)


def pmap(modname, fname, args, impl='c', procs=None):
    """run getattr(modname, fname)(arg) for each arg in worker processes in which genshi
    is staged from /repo with the given Markup implementation"""
    args = list(args)
    if not args:
        return []
    procs = procs or min(len(args), min(16, os.cpu_count() or 1))
    ctx = multiprocessing.get_context('spawn')
    with ctx.Pool(procs, initializer=_init_worker, initargs=(impl,)) as pool:
        return pool.map(_call, [(modname, fname, a) for a in args], chunksize=1)


# --------------------------------------------------------------------------
# Lean side

class Lock(object):
    def __enter__(self):
        os.makedirs(BUILD, exist_ok=True)
        self.f = open(os.path.join(BUILD, 'lock'), 'w')
        fcntl.flock(self.f, fcntl.LOCK_EX)
        return self

    def __exit__(self, *a):
        fcntl.flock(self.f, fcntl.LOCK_UN)
        self.f.close()


def sh(cmd, cwd=None, timeout=3600):
    p = subprocess.run(cmd, cwd=cwd, stdout=subprocess.PIPE, stderr=subprocess.STDOUT, timeout=timeout)
    return p.returncode, p.stdout.decode('utf-8', 'replace')


def obligations(prop):
    """theorem names listed in the OBLIGATIONS comment of Props/<prop>.lean"""
    path = os.path.join(LEAN, 'Genshi', 'Props', prop + '.lean')
    with open(path) as f:
        src = f.read()
    m = re.search(r'OBLIGATIONS[^\n]*\n(.*?)\n-/', src, re.S)
    if not m:
        raise Infra('no OBLIGATIONS block in %s' % path)
    names = m.group(1).split()
    return names, src


def lean_sources():
    out = []
    for base, _, files in os.walk(os.path.join(LEAN, 'Genshi')):
        for f in files:
            if f.endswith('.lean'):
                out.append(os.path.join(base, f))
    return sorted(out)


def strip_comments(src):
    src = re.sub(r'/-.*?-/', lambda m: '\n' * m.group(0).count('\n'), src, flags=re.S)
    return '\n'.join(l.split('--')[0] for l in src.split('\n'))


def grep_forbidden():
    hits = []
    for p in lean_sources():
        with open(p) as f:
            body = strip_comments(f.read())
        for i, l in enumerate(body.split('\n'), 1):
            if FORBIDDEN.search(l):
                hits.append('%s:%d: %s' % (os.path.relpath(p, ROOT), i, l.strip()))
    return hits


def prove(prop, thorough=False):
    """build the property's theorems and the driver from the files on disk (Gen files were
    just regenerated); audit axioms. Returns dict(ok, obligations, discharged, broken, axioms, log)"""
    names, src = obligations(prop)
    mod = 'Genshi.Props.' + prop
    res = {'ok': True, 'obligations': len(names), 'discharged': 0, 'broken': [], 'axioms': {},
           'checker_cmd': 'cd lean && lake build %s gdrv && lake env lean <audit: #print axioms of every obligation>' % mod,
           'log': ''}
    rc, out = sh(['lake', 'build', mod, 'gdrv'], cwd=LEAN)
    res['log'] = out[-6000:]
    if rc != 0:
        res['ok'] = False
        broken = sorted(set(re.findall(r'error: (Genshi/\S+?\.lean):(\d+)', out)))
        res['broken'] = ['%s:%s' % b for b in broken] or ['lake build failed']
        # which obligations still check is unknown when the module does not build
        return res
    # every obligation must exist as a theorem in the Props file
    missing = [n for n in names if not re.search(r'^\s*theorem\s+%s\b' % re.escape(n), src, re.M)]
    if missing:
        res['ok'] = False
        res['broken'] = ['missing theorem %s' % n for n in missing]
        return res
    os.makedirs(os.path.join(BUILD, 'audit'), exist_ok=True)
    audit = os.path.join(BUILD, 'audit', prop + '.lean')
    with open(audit, 'w') as f:
        f.write('import %s\n' % mod)
        for n in names:
            f.write('#print axioms Genshi.Props.%s.%s\n' % (prop, n))
    rc, out = sh(['lake', 'env', 'lean', audit], cwd=LEAN)
    if rc != 0:
        res['ok'] = False
        res['broken'] = ['axiom audit failed: ' + out[-500:]]
        return res
    for m in re.finditer(r"'Genshi\.Props\.%s\.(\S+)' (does not depend on any axioms|depends on axioms: \[([^\]]*)\])" % prop, out):
        axs = [a.strip() for a in (m.group(3) or '').replace('\n', ' ').split(',') if a.strip()]
        res['axioms'][m.group(1)] = axs
    for n in names:
        if n not in res['axioms']:
            res['ok'] = False
            res['broken'].append('no axiom report for %s' % n)
        elif set(res['axioms'][n]) - ALLOWED_AXIOMS:
            res['ok'] = False
            res['broken'].append('%s depends on %s' % (n, sorted(set(res['axioms'][n]) - ALLOWED_AXIOMS)))
        else:
            res['discharged'] += 1
    hits = grep_forbidden()
    if hits:
        res['ok'] = False
        res['broken'].extend('forbidden: ' + h for h in hits)
    if thorough:
        rc, out = sh(['lake', 'env', 'leanchecker', mod], cwd=LEAN, timeout=3600)
        res['leanchecker'] = 'ok' if rc == 0 else out[-800:]
        if rc != 0:
            res['ok'] = False
            res['broken'].append('leanchecker rejected %s' % mod)
    return res


# --------------------------------------------------------------------------
# findings, evidence, verdict

def load_findings(prop):
    with open(FINDINGS) as f:
        data = json.load(f)
    return [e for e in data['findings'] if e.get('property') == prop]


def canon(x):
    return json.dumps(x, sort_keys=True, ensure_ascii=True)


def write_replay(prop, seed, payload):
    os.makedirs(REPLAYS, exist_ok=True)
    path = os.path.join(REPLAYS, '%s-%d.json' % (prop, seed))
    with open(path, 'w') as f:
        json.dump(payload, f, indent=1, sort_keys=True, ensure_ascii=True, default=str)
    return os.path.relpath(path, ROOT)


def write_evidence(prop, tier, seed, cov, assumptions, wall, violations):
    os.makedirs(EVID, exist_ok=True)
    ev = {'property_id': prop, 'tier': tier, 'seed': seed, 'level': 'proof', 'coverage': cov,
          'assumptions': assumptions, 'wall_s': round(wall, 2), 'violations': violations}
    tmp = os.path.join(EVID, prop + '.json.tmp%d' % os.getpid())
    with open(tmp, 'w') as f:
        json.dump(ev, f, indent=1, sort_keys=True, ensure_ascii=True, default=str)
    os.replace(tmp, os.path.join(EVID, prop + '.json'))


TERMINATION_CLAIMED = ('C06', 'C07')     # properties whose text says the code terminates on every input


def _watchdog(prop, tier, seed, t0, limit):
    """last line of defence for the properties that claim termination: a stage of the check (translator probe, recorder,
    correspondence, findings replay) that calls into the code under test and never comes back must not leave a check
    that never returns. Inside the shards `deadline` reports the hanging input; this fires only when that did not."""
    import threading

    def fire():
        try:
            path = write_replay(prop, seed, {'property': prop, 'case': None, 'broken': [
                'termination: the check did not finish within %d s (normally about a minute): a call into the code under '
                'test (parser / sanitizer) made by the translator, the recorder or a correspondence stage never returned' % limit]})
            write_evidence(prop, tier, seed, {'evaluations': 0, 'distinct_nontrivial': 0, 'obligations': 0, 'discharged': 0,
                                              'rule': 'watchdog fired before the run completed', 'samples': ['(none: the run did not complete)'],
                                              'checker_cmd': 'lake build', 'trusted_base': ['see DESIGN.md section 3'],
                                              'explanation': 'the check was ended by its watchdog after %d s' % limit},
                           [], time.time() - t0, 1)
            print('BROKEN: termination: no result after %d s' % limit)
            print('VIOLATION property=%s replay=%s no-failing-input-found' % (prop, path))
            sys.stdout.flush()
        finally:
            try:
                import signal
                for c in multiprocessing.active_children():
                    c.kill()
                os.killpg(os.getpgid(0), signal.SIGTERM) if os.environ.get('VERIF_WATCHDOG_KILLPG') else None
            finally:
                os._exit(1)
    t = threading.Timer(limit, fire)
    t.daemon = True
    t.start()
    return t


def check(prop, tier, seed, replay=None):
    from harness import stage, extract_tables
    t0 = time.time()
    ctx = Ctx(prop, tier, seed)
    if prop in TERMINATION_CLAIMED and not replay:
        limit = int(os.environ.get('VERIF_HANG_LIMIT') or (7200 if tier == 'thorough' else 1500))
        _watchdog(prop, tier, seed, t0, limit)
    modname = 'harness.props.' + prop.lower()
    try:
        stage.stage('c')
    except stage.StageError as e:
        # a source change that does not compile the extension: the C implementation is part of
        # the code under test for C18/C01; elsewhere fall back to pure Python
        ctx.stage_error = str(e)
        raise Infra(str(e))
    pm = importlib.import_module(modname)

    if replay:
        with open(replay) as f:
            payload = json.load(f)
        case = payload.get('case')
        if case is None:
            print('replay file names no failing input: %s' % payload.get('broken'))
            return 1
        fail = pm.replay(ctx, case)
        if fail:
            print('replay FAILS on the current tree: %s' % canon(fail)[:2000])
            print('VIOLATION property=%s replay=%s' % (prop, replay))
            return 1
        print('replay passes on the current tree')
        return 0

    with Lock():
        try:
            gen_report = extract_tables.regenerate()
        except Exception as e:
            gen_report = {'error': '%s: %s' % (type(e).__name__, e), 'trace': traceback.format_exc()[-3000:]}
        pr = prove(prop, thorough=ctx.thorough)
    ctx.proof = pr
    ctx.gen_report = gen_report

    res = Result()
    run_error = None
    try:
        res = pm.run(ctx)
    except Infra:
        raise
    except Exception as e:
        run_error = '%s: %s\n%s' % (type(e).__name__, e, traceback.format_exc()[-3000:])

    findings = load_findings(prop)
    known_inputs = {canon(e['input']): e for e in findings if e.get('status') == 'finding'}

    # known findings: replay each on the real code
    finding_lines = []
    for e in findings:
        if e.get('status') != 'finding':
            continue
        try:
            still = pm.replay(ctx, e['input'])
        except Exception as ex:
            still = {'what': 'replay raised %s: %s' % (type(ex).__name__, ex)}
        if still:
            finding_lines.append('KNOWN-FINDING: property=%s %s: %s' % (prop, e['id'], e['summary']))
        else:
            finding_lines.append('NOTE: known finding %s no longer reproduces on this tree (stale entry)' % e['id'])

    # repaired defects stay in the regression corpus: a fixed entry suppresses nothing
    for e in findings:
        if e.get('status') == 'fixed' and 'input' in e:
            try:
                back = pm.replay(ctx, e['input'])
            except Exception as ex:
                back = {'case': e['input'], 'what': 'replay of fixed finding %s raised %s: %s' % (e['id'], type(ex).__name__, ex)}
            if back:
                back.setdefault('case', e['input'])
                back['regression_of'] = e['id']
                res.failures.append(back)

    new_failures = [f for f in res.failures if canon(f['case']) not in known_inputs]
    if new_failures:
        try:
            small = shrink(new_failures[0]['case'], lambda c: pm.replay(ctx, c) and canon(c) not in known_inputs, budget=200)
            f2 = pm.replay(ctx, small)
            if f2:
                f2.setdefault('case', small)
                new_failures.insert(0, f2)
        except Exception:
            pass
    broken = []
    if 'error' in gen_report:
        broken.append('translator: ' + gen_report['error'])
    if not pr['ok']:
        broken.extend('proof: ' + b for b in pr['broken'])
    if res.disagreements:
        broken.append('correspondence: %d disagreement(s), first in stream %s'
                      % (len(res.disagreements), res.disagreements[0].get('stream')))
    if run_error:
        broken.append('harness: ' + run_error.split('\n')[0])

    violation = None
    if new_failures:
        violation = {'case': new_failures[0]['case'], 'failure': new_failures[0], 'broken': broken}
    elif broken:
        # proof obligation or correspondence no longer checks: search for a failing input
        found = []
        try:
            found = pm.search(ctx, res, broken) or []
        except Exception as e:
            broken.append('search raised %s: %s' % (type(e).__name__, e))
        found = [f for f in found if canon(f['case']) not in known_inputs]
        if found:
            violation = {'case': found[0]['case'], 'failure': found[0], 'broken': broken}
        else:
            violation = {'case': None, 'broken': broken,
                         'disagreements': res.disagreements[:5], 'proof_log': pr['log'][-3000:],
                         'run_error': run_error}

    wall = time.time() - t0
    cov = {
        'obligations': pr['obligations'], 'discharged': pr['discharged'],
        'checker_cmd': pr['checker_cmd'],
        'trusted_base': getattr(pm, 'TRUSTED', []) + [
            'Lean 4.33.0 kernel; axioms per theorem listed under "axioms"',
            'translator harness/extract_tables.py and the canonicalisers in harness/',
            'Lean compiler/runtime executing the model in gdrv'],
        'axioms': pr['axioms'],
        'theorems_broken': pr['broken'],
        'gen_tables': gen_report,
        'evaluations': res.evaluations,
        'distinct_nontrivial': len(res.nontrivial),
        'rule': res.rule,
        'samples': res.samples[:8] or [{'obligations': obligations(prop)[0][:5]}],
        'correspondence_streams': res.streams,
        'disagreements_checked': len(res.disagreements),
        'oracle_failures': len(res.failures),
        'known_findings_replayed': len(finding_lines),
        'distribution': res.dist,
        'notes': res.notes,
    }
    if pr.get('leanchecker'):
        cov['leanchecker'] = pr['leanchecker']
    write_evidence(prop, tier, seed, cov, getattr(pm, 'ASSUMPTIONS', []), wall,
                   1 if violation else 0)
    for l in finding_lines:
        print(l)
    print('%s tier=%s seed=%d: obligations %d/%d, evaluations %d (nontrivial %d), disagreements %d, oracle failures %d, %.1fs'
          % (prop, tier, seed, pr['discharged'], pr['obligations'], res.evaluations, len(res.nontrivial),
             len(res.disagreements), len(res.failures), wall))
    if violation:
        violation.update({'property': prop, 'seed': seed, 'tier': tier,
                          'how_to_run': './check %s --replay <this file>' % prop})
        path = write_replay(prop, seed, violation)
        for b in broken:
            print('BROKEN: ' + b[:400])
        if violation['case'] is None:
            print('VIOLATION property=%s replay=%s no-failing-input-found' % (prop, path))
        else:
            print('FAILING INPUT: %s' % canon(violation['failure'])[:1500])
            print('VIOLATION property=%s replay=%s' % (prop, path))
        return 1
    return 0


def write_root_module():
    """lean/Genshi.lean imports every module under lean/Genshi (so `lake build Genshi` checks all)"""
    mods = []
    for p in lean_sources():
        rel = os.path.relpath(p, LEAN)[:-5].replace(os.sep, '.')
        mods.append(rel)
    text = ''.join('import %s\n' % m for m in sorted(mods))
    path = os.path.join(LEAN, 'Genshi.lean')
    old = open(path).read() if os.path.exists(path) else None
    if old != text:
        with open(path, 'w') as f:
            f.write(text)


def setup():
    from harness import stage, extract_tables
    stage.stage('c')
    with Lock():
        extract_tables.regenerate()
        write_root_module()
        rc, out = sh(['lake', 'build', 'Genshi', 'gdrv'], cwd=LEAN)
    print(out[-3000:])
    return 0 if rc == 0 else 2


def shrink(case, fails, budget=300):
    """greedy delta debugging over a JSON-like case: shorten strings and lists while
    `fails(case)` stays true. Returns the smallest failing case found."""
    import copy
    best = copy.deepcopy(case)
    n = [0]

    def paths(x, pre=()):
        if isinstance(x, dict):
            for k in sorted(x):
                yield from paths(x[k], pre + (k,))
        elif isinstance(x, list):
            yield pre
            for i, y in enumerate(x):
                yield from paths(y, pre + (i,))
        elif isinstance(x, str):
            yield pre

    def get(x, p):
        for k in p:
            x = x[k]
        return x

    def put(x, p, v):
        x = copy.deepcopy(x)
        if not p:
            return v
        y = x
        for k in p[:-1]:
            y = y[k]
        y[p[-1]] = v
        return x

    progress = True
    while progress and n[0] < budget:
        progress = False
        for p in list(paths(best)):
            try:
                v = get(best, p)
            except (KeyError, IndexError, TypeError):
                continue
            if not isinstance(v, (str, list)) or len(v) == 0:
                continue
            size = len(v)
            chunk = max(1, size // 2)
            while chunk >= 1 and n[0] < budget:
                i = 0
                changed = False
                while i < len(v) and n[0] < budget:
                    cand_v = v[:i] + v[i + chunk:]
                    cand = put(best, p, cand_v)
                    n[0] += 1
                    ok = False
                    try:
                        ok = bool(fails(cand))
                    except Exception:
                        ok = False
                    if ok:
                        best, v, changed, progress = cand, cand_v, True, True
                    else:
                        i += chunk
                if not changed:
                    chunk //= 2
    return best


def main(argv):
    import argparse
    ap = argparse.ArgumentParser()
    ap.add_argument('prop', nargs='?')
    ap.add_argument('--setup', action='store_true')
    ap.add_argument('--tier', default=os.environ.get('VERIF_TIER') or 'quick', choices=['quick', 'thorough'])
    ap.add_argument('--replay')
    a = ap.parse_args(argv)
    try:
        if a.setup:
            return setup()
        if not a.prop:
            ap.error('property id required')
        seed = int(os.environ.get('VERIF_SEED') or 0)
        return check(a.prop, a.tier, seed, a.replay)
    except Infra as e:
        print('INFRASTRUCTURE ERROR: %s' % e)
        return 2
    except subprocess.TimeoutExpired as e:
        print('INFRASTRUCTURE ERROR: timeout %s' % e)
        return 2

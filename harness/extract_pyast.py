"""Translator part for C13/C03: `Gen/AstGen.lean` (the operator tables of ASTCodeGenerator, the set
of node types it has a visitor for, and for each operator-like expression visitor whether its
output is parenthesised, probed on a one-node tree) and `Gen/Astgrammar.lean` (keywords and the
operator precedence / associativity facts of the running CPython, obtained by parsing probe
expressions with `ast.parse` and reading the tree)."""
import ast, keyword
from harness.extract_tables import HEADER, chars


def _pairs(name, items, comment):
    body = ',\n  '.join('(%s, %s)' % (chars(a), chars(b)) for a, b in items)
    return '/-- %s -/\ndef %s : List (List Char × List Char) := [\n  %s]\n' % (comment, name, body)


def _strs(name, items, comment):
    body = ',\n  '.join(chars(a) for a in items)
    return '/-- %s -/\ndef %s : List (List Char) := [\n  %s]\n' % (comment, name, body)


def _bool(name, v, comment):
    return '/-- %s -/\ndef %s : Bool := %s\n' % (comment, name, 'true' if v else 'false')


def gen_astgen():
    from genshi.template.astutil import ASTCodeGenerator as G
    parts = [HEADER, 'namespace Genshi.Gen.AstGen\n']
    for attr, name in (('binary_operators', 'binaryOperators'), ('unary_operators', 'unaryOperators'),
                       ('bool_operators', 'boolOperators'), ('comparision_operators', 'comparisonOperators')):
        table = getattr(G, attr)
        items = sorted((k.__name__, v) for k, v in table.items())
        parts.append(_pairs(name, items, 'from genshi/template/astutil.py:ASTCodeGenerator.%s (ast class name, source text)' % attr))
    visitors = sorted(n[len('visit_'):] for n in dir(G) if n.startswith('visit_') and callable(getattr(G, n)))
    parts.append(_strs('visitors', visitors, 'node types ASTCodeGenerator defines a visit_* method for'))

    # is the output of the operator-like expression visitors wrapped in parentheses? (one-node probes)
    a, b, c = (ast.Name(x, ast.Load()) for x in 'abc')
    noargs = ast.arguments(posonlyargs=[], args=[], vararg=None, kwonlyargs=[], kw_defaults=[], kwarg=None, defaults=[])
    probes = [
        ('BinOp', ast.BinOp(a, ast.Add(), b)),
        ('BoolOp', ast.BoolOp(ast.And(), [a, b])),
        ('Compare', ast.Compare(a, [ast.Lt()], [b])),
        ('IfExp', ast.IfExp(a, b, c)),
        ('Lambda', ast.Lambda(noargs, a)),
        ('UnaryOp', ast.UnaryOp(ast.USub(), a)),
        ('Yield', ast.Yield(a)),
    ]
    rows = []
    for kind, node in probes:
        try:
            code = G(ast.Expression(node)).code.strip()
            rows.append((kind, 'T' if code.startswith('(') and code.endswith(')') else 'F'))
        except Exception:
            rows.append((kind, 'E'))
    parts.append(_pairs('parenthesised', rows,
                        'operator-like expression visitors: is the generated text of a one-node tree wrapped in ( ) ? T/F (E = the visitor raised)'))
    from genshi.template import astutil
    parts.append('/-- the literal written for an infinite float (astutil._INFSTR; `inf` when the code writes repr() unchanged) -/\n'
                 'def infStr : List Char := %s\n' % chars(str(getattr(astutil, '_INFSTR', 'inf'))))
    parts.append('end Genshi.Gen.AstGen\n')
    return 'AstGen.lean', '\n'.join(parts)


BINSYMS = [('+', 'Add'), ('-', 'Sub'), ('*', 'Mult'), ('/', 'Div'), ('%', 'Mod'), ('<<', 'LShift'), ('>>', 'RShift'),
           ('|', 'BitOr'), ('^', 'BitXor'), ('&', 'BitAnd'), ('//', 'FloorDiv'), ('@', 'MatMult')]


def _shape(src):
    """tree shape of an expression as nested tuples of class names"""
    def go(n):
        if isinstance(n, ast.Name):
            return n.id
        if isinstance(n, ast.BinOp):
            return (type(n.op).__name__, go(n.left), go(n.right))
        if isinstance(n, ast.UnaryOp):
            return (type(n.op).__name__, go(n.operand))
        if isinstance(n, ast.BoolOp):
            return (type(n.op).__name__,) + tuple(go(v) for v in n.values)
        if isinstance(n, ast.Compare):
            return ('Compare', go(n.left)) + tuple((type(o).__name__, go(c)) for o, c in zip(n.ops, n.comparators))
        if isinstance(n, ast.IfExp):
            return ('IfExp', go(n.test), go(n.body), go(n.orelse))
        if isinstance(n, ast.Lambda):
            return ('Lambda', go(n.body))
        return type(n).__name__
    return go(ast.parse(src, mode='eval').body)


def gen_astgrammar():
    parts = [HEADER, 'namespace Genshi.Gen.Astgrammar\n']
    parts.append(_strs('keywords', sorted(keyword.kwlist), 'keyword.kwlist of the running CPython'))
    # left-associative binary operators: geq[x][y] iff `a x b y c` groups as (a x b) y c
    geq = {}
    for s1, c1 in BINSYMS:
        for s2, c2 in BINSYMS:
            sh = _shape('a %s b %s c' % (s1, s2))
            left = sh == (c2, (c1, 'a', 'b'), 'c')
            right = sh == (c1, 'a', (c2, 'b', 'c'))
            assert left != right, (s1, s2, sh)
            geq[(s1, s2)] = left
    # level = number of operators that bind strictly looser
    level = {}
    for s1, _ in BINSYMS:
        level[s1] = sum(1 for s2, _ in BINSYMS if geq[(s1, s2)] and not geq[(s2, s1)])
    ranks = sorted(set(level.values()))
    level = dict((s, ranks.index(v)) for s, v in level.items())
    for s1, _ in BINSYMS:          # the matrix must be exactly "level(x) >= level(y)" (all left associative)
        for s2, _ in BINSYMS:
            assert geq[(s1, s2)] == (level[s1] >= level[s2]), (s1, s2)
    rows = ',\n  '.join('(%s, %s, %d)' % (chars(s), chars(c), level[s]) for s, c in BINSYMS)
    parts.append('/-- binary operators below `**`: (source text, ast class name, precedence level; higher binds tighter); all '
                 'left associative, checked pairwise on `a x b y c` -/\n'
                 'def binLevels : List (List Char × List Char × Nat) := [\n  %s]\n' % rows)
    cmp_rows = [(['=='], 'Eq'), (['!='], 'NotEq'), (['<'], 'Lt'), (['<='], 'LtE'), (['>'], 'Gt'), (['>='], 'GtE'),
                (['is'], 'Is'), (['is', 'not'], 'IsNot'), (['in'], 'In'), (['not', 'in'], 'NotIn')]
    for toks, cls in cmp_rows:
        assert _shape('a %s b' % ' '.join(toks)) == ('Compare', 'a', (cls, 'b'))
    body = ',\n  '.join('([%s], %s)' % (', '.join(chars(t) for t in toks), chars(cls)) for toks, cls in cmp_rows)
    parts.append('/-- comparison operators (token texts, ast class name) -/\n'
                 'def cmpOps : List (List (List Char) × List Char) := [\n  %s]\n' % body)
    un_rows = [('-', 'USub'), ('+', 'UAdd'), ('~', 'Invert'), ('not', 'Not')]
    for s, c in un_rows:
        assert _shape('%s a' % s) == (c, 'a')
    parts.append(_pairs('unaryOps', un_rows, 'unary operators (source text, ast class name)'))
    facts = [
        ('powRightAssoc', _shape('a ** b ** c') == ('Pow', 'a', ('Pow', 'b', 'c')), '`a ** b ** c` is a ** (b ** c)'),
        ('powTighterThanUnaryLeft', _shape('-a ** b') == ('USub', ('Pow', 'a', 'b')), '`-a ** b` is -(a ** b)'),
        ('powRightOperandUnary', _shape('a ** -b') == ('Pow', 'a', ('USub', 'b')), '`a ** -b` is a ** (-b)'),
        ('unaryTighterThanBin', all(_shape('-a %s b' % s) == (c, ('USub', 'a'), 'b') for s, c in BINSYMS), '`-a x b` is (-a) x b for every binary x below **'),
        ('powTighterThanBin', all(_shape('a %s b ** c' % s) == (c, 'a', ('Pow', 'b', 'c')) and
                                  _shape('a ** b %s c' % s) == (c, ('Pow', 'a', 'b'), 'c') for s, c in BINSYMS), '** binds tighter than every other binary operator'),
        ('binTighterThanCompare', all(_shape('a < b %s c' % s) == ('Compare', 'a', ('Lt', (c, 'b', 'c'))) and
                                      _shape('a %s b < c' % s) == ('Compare', (c, 'a', 'b'), ('Lt', 'c')) for s, c in BINSYMS), 'every binary operator binds tighter than comparisons'),
        ('compareChains', _shape('a < b < c') == ('Compare', 'a', ('Lt', 'b'), ('Lt', 'c')), 'comparisons chain into one Compare node'),
        ('notLooserThanCompare', _shape('not a == b') == ('Not', ('Compare', 'a', ('Eq', 'b'))), '`not a == b` is not (a == b)'),
        ('notTighterThanAnd', _shape('not a and b') == ('And', ('Not', 'a'), 'b'), '`not a and b` is (not a) and b'),
        ('andTighterThanOr', _shape('a or b and c') == ('Or', 'a', ('And', 'b', 'c')) and _shape('a and b or c') == ('Or', ('And', 'a', 'b'), 'c'), 'and binds tighter than or'),
        ('boolOpsFlatten', _shape('a and b and c') == ('And', 'a', 'b', 'c') and _shape('a or b or c') == ('Or', 'a', 'b', 'c'), 'a and b and c is one BoolOp with three values'),
        ('ifExpLoosest', _shape('a or b if c or d else e or f') == ('IfExp', ('Or', 'c', 'd'), ('Or', 'a', 'b'), ('Or', 'e', 'f')), 'conditional expressions take or-tests as body/test'),
        ('ifExpRightNested', _shape('a if b else c if d else e') == ('IfExp', 'b', 'a', ('IfExp', 'd', 'c', 'e')), 'the else branch of a conditional is a full expression'),
        ('lambdaBodyExtends', _shape('lambda: a if b else c') == ('Lambda', ('IfExp', 'b', 'a', 'c')), 'a lambda body is a full expression'),
        ('matMultLevelIsTerm', level['@'] == level['*'], '@ has the precedence of *'),
    ]
    for name, v, comment in facts:
        parts.append(_bool(name, v, comment + ' (probed with ast.parse)'))
    parts.append('end Genshi.Gen.Astgrammar\n')
    return 'Astgrammar.lean', '\n'.join(parts)


GENERATORS = [gen_astgen, gen_astgrammar]

"""Translator part for C19: the tables genshi/filters/i18n.py is driven by, and the character
classes of the running interpreter it relies on (str.strip, str.isalpha, \\w and \\d of `re`)."""
import re, sys
from harness.extract_tables import HEADER, chars, strlist, qn


def ranges(pred):
    out = []
    start = None
    for cp in range(0x110000):
        if 0xd800 <= cp <= 0xdfff:
            ok = False
        else:
            ok = pred(chr(cp))
        if ok and start is None:
            start = cp
        elif not ok and start is not None:
            out.append((start, cp - 1))
            start = None
    if start is not None:
        out.append((start, 0x10ffff))
    return out


def rangelist(name, rs, comment):
    body = ',\n  '.join(', '.join('(%d, %d)' % r for r in rs[i:i + 8]) for i in range(0, len(rs), 8))
    return '/-- %s -/\ndef %s : List (Nat × Nat) := [\n  %s]\n' % (comment, name, body)


def gen_i18n():
    from genshi.filters import i18n
    T = i18n.Translator
    parts = [HEADER, 'namespace Genshi.Gen.I18n\n']
    parts.append(strlist('ignoreTags', [str(x) for x in T.IGNORE_TAGS],
                         'from genshi/filters/i18n.py:Translator.IGNORE_TAGS (QName strings)'))
    parts.append(strlist('includeAttrs', [str(x) for x in T.INCLUDE_ATTRS],
                         'from genshi/filters/i18n.py:Translator.INCLUDE_ATTRS'))
    parts.append(strlist('gettextFunctions', list(i18n.GETTEXT_FUNCTIONS),
                         'from genshi/filters/i18n.py:GETTEXT_FUNCTIONS', sort=False))
    # directive table: (name, class kind) in registration order; kinds name the model's Dir constructors
    kinds = {'DomainDirective': 'domain', 'CommentDirective': 'comment', 'ContextDirective': 'ctxt',
             'MsgDirective': 'msg', 'ChooseDirective': 'choose', 'SingularDirective': 'singular',
             'PluralDirective': 'plural'}
    rows = []
    for name, cls in T.directives:
        ext = issubclass(cls, i18n.ExtractableI18NDirective)
        br = issubclass(cls, i18n.ChooseBranchDirective)
        rows.append('(%s, %s, %s, %s)' % (chars(name), chars(kinds.get(cls.__name__, cls.__name__)),
                                           'true' if ext else 'false', 'true' if br else 'false'))
    parts.append('/-- from Translator.directives: (attribute name, directive, is ExtractableI18NDirective, is ChooseBranchDirective) -/\n'
                 'def directives : List (List Char × List Char × Bool × Bool) := [\n  %s]\n' % ',\n  '.join(rows))
    tr = T()
    idx = [tr.get_directive_index(cls) for _, cls in T.directives]
    parts.append('/-- Translator.get_directive_index of each registered directive (all negative: they sort before template directives) -/\n'
                 'def directiveIndex : List Int := [%s]\n' % ', '.join(str(i) for i in idx))
    cx = sorted((('' if k is None else k), v, k is None) for k, v in i18n.contexted.items())
    parts.append('/-- from genshi/filters/i18n.py:contexted (function name or none -> contexted function) -/\n'
                 'def contexted : List (Option (List Char) × List Char) := [\n  %s]\n' % ',\n  '.join(
                     '(%s, %s)' % ('none' if isnone else 'some ' + chars(k), chars(v)) for k, v, isnone in cx))
    parts.append('/-- the XML namespace used for xml:lang (genshi.core.XML_NAMESPACE) -/\n'
                 'def xmlNamespace : List Char := %s\n' % chars(str(i18n.XML_NAMESPACE.uri)))
    sp = [cp for cp in range(0x110000) if not (0xd800 <= cp <= 0xdfff) and chr(cp).isspace()]
    parts.append('/-- code points removed by str.strip() of the running interpreter (str.isspace) -/\n'
                 'def spaceChars : List Nat := [%s]\n' % ', '.join(str(c) for c in sp))
    parts.append(rangelist('alphaRanges', ranges(lambda c: c.isalpha()), 'str.isalpha of the running interpreter'))
    w = re.compile(r'\w')
    parts.append(rangelist('wordRanges', ranges(lambda c: w.match(c) is not None), '\\\\w of the running `re` (str patterns)'))
    d = re.compile(r'\d')
    dz = [a for a, b in ranges(lambda c: d.match(c) is not None) for a in range(a, b + 1, 10)]
    import unicodedata
    ok = all(unicodedata.digit(chr(z + k)) == k for z in dz for k in range(10))
    parts.append('/-- code points of the zero digit of every decimal digit block matched by \\\\d (int() reads c - zero); '
                 'blocks verified with unicodedata.digit: %s -/\ndef digitZeros : List Nat := [%s]\n'
                 % (ok, ', '.join(str(z) for z in dz)))
    parts.append('end Genshi.Gen.I18n\n')
    return 'I18n.lean', '\n'.join(parts)


GENERATORS = [gen_i18n]

"""Seeded generators and tree-level reference semantics for C20 (stream filters).

Everything here is independent of the Lean model: documents are *trees*, paths are a
small AST with its own evaluator (an ElementTree-like walk), and the documented effect
of each Transformer operation / of the form filler is computed on the tree.

JSON shapes (canonical, shrinkable):
  node   = ["e", [ns, loc], [[[ns, loc], val], ...], [node, ...]] | ["t", text] | ["c", text]
           | ["p", target, data]
           | ["ns", prefix, uri] | ["ens", prefix] | ["d", name, pubid, sysid] | ["sc"] | ["ec"]
             (START_NS / END_NS around an element, DOCTYPE, START_CDATA / END_CDATA around a text: leaves)
  event  = ["S", [ns, loc], attrs] | ["E", [ns, loc]] | ["T", text, safe] | ["C", text]
           | ["PI", target, data] | ["AT", [ns, loc], attrs] | ["BR"]
           | ["NS", prefix, uri] | ["ENS", prefix] | ["DT", name, pubid, sysid] | ["SC"] | ["EC"]
  path   = {"alts": [{"lead": "" | "//" | ".//" | "." , "steps": [step...], "attr": null | name | "*"}]}
           | {"text": xpath}      (a path of the shared grammar harness/gen_paths.py, as text)
  step   = {"sep": "/" | "//", "test": name | "*" | "text()" | "comment()" | "node()", "preds": [pred...]}
  pred   = ["has", a] | ["eq", a, v] | ["pos", n]
"""

TAGS = ['a', 'b', 'c', 'p']
ATTRS = ['x', 'y', 'id']
VALS = ['1', '2', 'v', '']
TEXTS = ['t', 'u', 'some text', ' ', 'x<y', '&', 'é']
NS = 'urn:n'


# --------------------------------------------------------------------------
# trees and events

def gen_node(rng, depth, leafy=0.4, allow_ns=True):
    r = rng.random()
    if depth <= 0 or r < leafy:
        r2 = rng.random()
        if r2 < 0.06:
            return ['t', rng.choice(['<i>m</i>', 'safe t', '&amp;']), True]     # a Markup instance
        if r2 < 0.75:
            return ['t', rng.choice(TEXTS)]
        if r2 < 0.9:
            return ['c', rng.choice(['note', '', 'x'])]
        return ['p', 'pi', rng.choice(['d', ''])]
    tag = rng.choice(TAGS)
    ns = NS if allow_ns and rng.random() < 0.06 else ''
    attrs = []
    for a in rng.sample(ATTRS, rng.choice([0, 0, 1, 1, 2, 3])):
        attrs.append([['', a], rng.choice(VALS)])
    if allow_ns and rng.random() < 0.05:
        attrs.append([[NS, rng.choice(ATTRS)], rng.choice(VALS)])
    kids = gen_kids(rng, depth - 1, rng.choice([0, 1, 2, 2, 3, 4]), leafy, allow_ns)
    return ['e', [ns, tag], attrs, kids]


def gen_kids(rng, depth, n, leafy=0.4, allow_ns=True, adjacent_text=False):
    kids = []
    for _ in range(n):
        k = gen_node(rng, depth, leafy, allow_ns)
        if not adjacent_text and kids and kids[-1][0] == 't' and k[0] == 't':
            continue
        r = rng.random()
        if allow_ns and k[0] == 'e' and (k[1][0] and r < 0.6 or r < 0.02):
            # the namespace events the parser puts around an element that declares a namespace
            pfx = rng.choice(['', 'n'])
            kids.extend([['ns', pfx, k[1][0] or NS], k, ['ens', pfx]])
        elif allow_ns and k[0] == 't' and len(k) == 2 and r < 0.06:
            kids.extend([['sc'], k, ['ec']])              # a CDATA section
        else:
            kids.append(k)
    return kids


def gen_doc(rng, depth=3):
    """a forest: usually one root element, sometimes a prolog comment/PI"""
    root = ['e', ['', rng.choice(['r', 'a'])], [], gen_kids(rng, depth, rng.choice([1, 2, 3, 4, 5]))]
    if rng.random() < 0.3:
        root[2] = [[['', rng.choice(ATTRS)], rng.choice(VALS)]]
    doc = [root]
    r = rng.random()
    if r < 0.08:
        doc.insert(0, ['c', 'prolog'])
    elif r < 0.12:
        doc.insert(0, ['d', 'html', rng.choice([None, '-//W3C//DTD XHTML 1.0 Strict//EN']),
                       rng.choice([None, 'http://www.w3.org/TR/xhtml1/DTD/xhtml1-strict.dtd'])])
    return doc


def doc_features(nodes, out=None):
    """which event kinds beyond START/END/TEXT a forest has (for the distribution counters)"""
    out = set() if out is None else out
    for n in nodes:
        if n[0] == 'e':
            if n[1][0]:
                out.add('ns-element')
            doc_features(n[3], out)
        elif n[0] in ('c', 'p', 'ns', 'd', 'sc'):
            out.add({'c': 'comment', 'p': 'pi', 'ns': 'start-ns', 'd': 'doctype', 'sc': 'cdata'}[n[0]])
    return out


def flatten(nodes, out=None):
    """forest -> JSON events"""
    if out is None:
        out = []
    for n in nodes:
        k = n[0]
        if k == 'e':
            out.append(['S', list(n[1]), [[list(a), v] for a, v in n[2]]])
            flatten(n[3], out)
            out.append(['E', list(n[1])])
        elif k == 't':
            out.append(['T', n[1], len(n) > 2 and bool(n[2])])
        elif k == 'c':
            out.append(['C', n[1]])
        elif k == 'p':
            out.append(['PI', n[1], n[2]])
        elif k == 'ns':
            out.append(['NS', n[1], n[2]])
        elif k == 'ens':
            out.append(['ENS', n[1]])
        elif k == 'd':
            out.append(['DT', n[1], n[2], n[3]])
        elif k == 'sc':
            out.append(['SC'])
        elif k == 'ec':
            out.append(['EC'])
        else:
            raise ValueError(n)
    return out


def flatten_ids(nodes, pre=(), out=None):
    """forest -> [(JSON event, node id, 'S' | 'E' | 'L')] (node ids: tuples of child indexes)"""
    if out is None:
        out = []
    for i, n in enumerate(nodes):
        nid = pre + (i,)
        if n[0] == 'e':
            out.append((['S', list(n[1]), [[list(a), v] for a, v in n[2]]], nid, 'S'))
            flatten_ids(n[3], nid, out)
            out.append((['E', list(n[1])], nid, 'E'))
        else:
            out.append((flatten([n])[0], nid, 'L'))
    return out


def nested_ok(events):
    """independent nesting check on JSON events (EMPTY 'M' counts as START+END)"""
    st = []
    for e in events:
        if e[0] == 'S':
            st.append(tuple(e[1]))
        elif e[0] == 'E':
            if not st or st.pop() != tuple(e[1]):
                return False
    return not st


def to_tree(events):
    """JSON events -> forest, or None when ill nested"""
    root = []
    stack = [(None, root)]
    for e in events:
        k = e[0]
        if k == 'S':
            node = ['e', list(e[1]), [[list(a), v] for a, v in e[2]], []]
            stack[-1][1].append(node)
            stack.append((tuple(e[1]), node[3]))
        elif k == 'E':
            if len(stack) < 2 or stack[-1][0] != tuple(e[1]):
                return None
            stack.pop()
        elif k == 'T':
            stack[-1][1].append(['t', e[1], True] if len(e) > 2 and e[2] else ['t', e[1]])
        elif k == 'C':
            stack[-1][1].append(['c', e[1]])
        elif k == 'PI':
            stack[-1][1].append(['p', e[1], e[2]])
        elif k == 'NS':
            stack[-1][1].append(['ns', e[1], e[2]])
        elif k == 'ENS':
            stack[-1][1].append(['ens', e[1]])
        elif k == 'DT':
            stack[-1][1].append(['d', e[1], e[2], e[3]])
        elif k == 'SC':
            stack[-1][1].append(['sc'])
        elif k == 'EC':
            stack[-1][1].append(['ec'])
        else:
            stack[-1][1].append(['o', e])
    if len(stack) != 1:
        return None
    return root


def coalesce(events):
    """merge adjacent TEXT events, drop empty ones (infoset view used by the op oracles)"""
    out = []
    for e in events:
        if e[0] == 'T':
            if e[1] == '':
                continue
            if out and out[-1][0] == 'T':
                out[-1] = ['T', out[-1][1] + e[1], False]
                continue
            out.append(['T', e[1], False])
        else:
            out.append(e)
    return out


# genshi <-> JSON events ----------------------------------------------------

def qname(q):
    from genshi.core import QName
    ns, loc = q
    return QName('{%s}%s' % (ns, loc) if ns else loc)


def jq(name):
    ns = getattr(name, 'namespace', None)
    if ns is None and isinstance(name, str) and name.startswith('{'):
        ns, _, loc = name[1:].partition('}')
        return [ns, loc]
    return [ns or '', getattr(name, 'localname', str(name))]


def to_genshi(events):
    from genshi.core import START, END, TEXT, COMMENT, PI, Attrs, Markup, START_NS, END_NS, DOCTYPE, \
        START_CDATA, END_CDATA
    out = []
    pos = (None, -1, -1)
    for e in events:
        k = e[0]
        if k == 'S':
            out.append((START, (qname(e[1]), Attrs([(qname(a), v) for a, v in e[2]])), pos))
        elif k == 'E':
            out.append((END, qname(e[1]), pos))
        elif k == 'T':
            out.append((TEXT, Markup(e[1]) if e[2] else e[1], pos))
        elif k == 'C':
            out.append((COMMENT, e[1], pos))
        elif k == 'PI':
            out.append((PI, (e[1], e[2]), pos))
        elif k == 'NS':
            out.append((START_NS, (e[1], e[2]), pos))
        elif k == 'ENS':
            out.append((END_NS, e[1], pos))
        elif k == 'DT':
            out.append((DOCTYPE, (e[1], e[2], e[3]), pos))
        elif k == 'SC':
            out.append((START_CDATA, None, pos))
        elif k == 'EC':
            out.append((END_CDATA, None, pos))
        else:
            raise ValueError(e)
    return out


def from_genshi_event(ev):
    from genshi.core import START, END, TEXT, COMMENT, PI, Markup, START_NS, END_NS, DOCTYPE, START_CDATA, END_CDATA
    from genshi.filters.transform import ATTR, BREAK
    kind, data = ev[0], ev[1]
    if kind is START:
        return ['S', jq(data[0]), [[jq(a), str(v)] for a, v in data[1]]]
    if kind is END:
        return ['E', jq(data)]
    if kind is TEXT:
        return ['T', str(data), isinstance(data, Markup)]
    if kind is COMMENT:
        return ['C', str(data)]
    if kind is PI:
        return ['PI', str(data[0]), str(data[1])]
    if kind is ATTR:
        return ['AT', jq(data[0]), [[jq(a), str(v)] for a, v in data[1]]]
    if kind is BREAK:
        return ['BR']
    if kind is START_NS:
        return ['NS', str(data[0]), str(data[1])]
    if kind is END_NS:
        return ['ENS', str(data)]
    if kind is DOCTYPE:
        return ['DT', str(data[0]), None if data[1] is None else str(data[1]), None if data[2] is None else str(data[2])]
    if kind is START_CDATA:
        return ['SC']
    if kind is END_CDATA:
        return ['EC']
    if str(kind) == 'EMPTY':
        return ['M', jq(data[0]), [[jq(a), str(v)] for a, v in data[1]]]
    return ['O', str(kind), repr(data)[:80]]


def from_genshi(events):
    return [from_genshi_event(e) for e in events]


# --------------------------------------------------------------------------
# paths

def gen_path(rng, allow_attr=True, allow_union=True):
    alts = [gen_alt(rng, allow_attr)]
    if allow_union and rng.random() < 0.12 and not alts[0].get('attr'):
        alts.append(gen_alt(rng, False))
    return {'alts': alts}


def gen_test(rng, last):
    r = rng.random()
    if last and r < 0.2:
        return 'text()'
    if last and r < 0.24:
        return 'comment()'
    if last and r < 0.27:
        return 'node()'
    if r < 0.4:
        return '*'
    return rng.choice(TAGS)


def gen_alt(rng, allow_attr=True):
    r = rng.random()
    if r < 0.06:
        return {'lead': '.', 'steps': [], 'attr': None}
    lead = rng.choice(['', '', '', '//', './/', './/'])
    n = rng.choice([1, 1, 1, 2, 2, 3])
    steps = []
    for i in range(n):
        last = i == n - 1
        test = gen_test(rng, last)
        sep = '/' if i == 0 else rng.choice(['/', '/', '/', '//'])
        preds = []
        if test not in ('text()', 'comment()', 'node()') and rng.random() < 0.2:
            rr = rng.random()
            if rr < 0.45:
                preds.append(['has', rng.choice(ATTRS)])
            elif rr < 0.8:
                preds.append(['eq', rng.choice(ATTRS), rng.choice(VALS)])
            elif (i == 0 and lead == '') or (i > 0 and sep == '/'):
                # positional predicates only on plain child steps: genshi rewrites //x[n] to
                # descendant-or-self::x[n], which is not XPath's //x[n] (C05 territory)
                preds.append(['pos', rng.choice([1, 1, 2])])
        steps.append({'sep': sep, 'test': test, 'preds': preds})
    attr = None
    if allow_attr and rng.random() < 0.12 and steps[-1]['test'] not in ('text()', 'comment()', 'node()'):
        attr = rng.choice(ATTRS + ['*'])
    return {'lead': lead, 'steps': steps, 'attr': attr}


# the shared path grammar (harness/gen_paths.py), restricted to what a Transformer can be given:
# SelectTransformation calls Path.test() with empty namespace and variable maps
def _shared_profile():
    from harness import gen_paths as GP
    return dict(GP.STRUCT, ns=False, kinds=('name', 'name', 'name', '*', 'text', 'comment', 'node', 'pi'))


def to_shared_doc(nodes):
    """our forest -> the tree shape of harness/gen_paths.py (first element; other event kinds dropped)"""
    def conv(n):
        if n[0] == 'e':
            return {'e': [n[1][0], n[1][1]], 'a': [[a[0], a[1], v] for a, v in n[2]],
                    'k': [c for c in (conv(k) for k in n[3]) if c is not None]}
        if n[0] == 't':
            return {'t': n[1]}
        if n[0] == 'c':
            return {'c': n[1]}
        if n[0] == 'p':
            return {'p': [n[1], n[2]]}
        return None
    for n in nodes:
        if n[0] == 'e':
            return conv(n)
    return None


def text_path_ok(t):
    """no variable reference, no namespace prefix (a single colon), parses by the independent reader"""
    import re as _re
    from harness import xpath_ref
    if '$' in t or _re.search(r'(?<!:):(?!:)', t):
        return False
    try:
        xpath_ref.parse(t)
    except Exception:      # Outside / Garbage
        return False
    return True


def gen_text_path(rng, doc):
    from harness import gen_paths as GP
    prof = _shared_profile()
    sd = to_shared_doc(doc)
    for _ in range(12):
        t = GP.rand_path_for(rng, sd, prof) if sd is not None and rng.random() < 0.75 else GP.rand_path(rng, prof)
        if text_path_ok(t):
            return {'text': t}
    return None


def gen_path_for(rng, doc):
    """a path aimed at a node that exists in the document (so that selections are not
    mostly empty), or a random one; a third of them from the shared grammar harness/gen_paths.py"""
    if rng.random() < 0.35:
        p = gen_text_path(rng, doc)
        if p is not None:
            return p
    if rng.random() < 0.25:
        return gen_path(rng)
    ix = Index(doc)
    cands = [nid for nid in ix.nodes if len(nid) >= 2]
    if not cands:
        return gen_path(rng)
    alts = [aimed_alt(rng, ix, rng.choice(cands))]
    if rng.random() < 0.12 and not alts[0].get('attr'):
        a2 = aimed_alt(rng, ix, rng.choice(cands))
        a2['attr'] = None
        alts.append(a2)
    return {'alts': alts}


def aimed_alt(rng, ix, nid):
    chain = [ix.nodes[nid[:k]] for k in range(2, len(nid) + 1)]    # below the root element
    node = chain[-1]

    def test_of(n, last):
        if n[0] == 'e':
            return '*' if rng.random() < 0.2 else n[1][1]
        if n[0] == 't':
            return 'text()' if rng.random() < 0.85 else 'node()'
        if n[0] == 'c':
            return 'comment()' if rng.random() < 0.8 else 'node()'
        return 'node()'

    r = rng.random()
    lead = ''
    if r < 0.45 or len(chain) == 1:
        picked = list(range(len(chain)))
        seps = ['/'] * len(chain)
        if len(chain) == 1 and rng.random() < 0.3:
            lead = rng.choice(['//', './/'])
    elif r < 0.75:
        lead = rng.choice(['//', './/'])
        k = rng.choice([1, 1, 2])
        picked = list(range(len(chain)))[-k:]
        seps = ['/'] * len(picked)
    else:
        picked = [0, len(chain) - 1]
        seps = ['/', '//' if len(chain) > 2 else '/']
    steps = []
    for j, i in enumerate(picked):
        n = chain[i]
        last = j == len(picked) - 1
        test = test_of(n, last)
        preds = []
        if n[0] == 'e' and n[2] and rng.random() < 0.25:
            a, v = rng.choice(n[2])
            if a[0] == '':
                preds.append(['has', a[1]] if rng.random() < 0.5 else ['eq', a[1], v])
        elif n[0] == 'e' and rng.random() < 0.08 and ((j == 0 and lead == '') or (j > 0 and seps[j] == '/')):
            preds.append(['pos', rng.choice([1, 1, 2])])
        steps.append({'sep': seps[j], 'test': test, 'preds': preds})
    attr = None
    if node[0] == 'e' and node[2] and rng.random() < 0.15:
        a = rng.choice(node[2])[0]
        attr = a[1] if rng.random() < 0.8 and a[0] == '' else '*'
    return {'lead': lead, 'steps': steps, 'attr': attr}


def path_str(p):
    if 'text' in p:
        return p['text']
    alts = []
    for alt in p['alts']:
        if alt['lead'] == '.' and not alt['steps']:
            s = '.'
        else:
            s = alt['lead']
            for i, st in enumerate(alt['steps']):
                if i:
                    s += st['sep']
                s += st['test']
                for pr in st['preds']:
                    if pr[0] == 'has':
                        s += '[@%s]' % pr[1]
                    elif pr[0] == 'eq':
                        s += '[@%s="%s"]' % (pr[1], pr[2])
                    else:
                        s += '[%d]' % pr[1]
        if alt.get('attr'):
            s += '/@' + alt['attr']
        alts.append(s)
    return '|'.join(alts)


def positional(p):
    if 'text' in p:
        return True
    return any(pr[0] == 'pos' for alt in p['alts'] for st in alt['steps'] for pr in st['preds'])


class Index(object):
    """tree with parent links; node ids are paths of child indexes (tuples)"""

    def __init__(self, doc):
        self.doc = doc
        self.nodes = {}     # id -> node

        def walk(nodes, pre):
            for i, n in enumerate(nodes):
                nid = pre + (i,)
                self.nodes[nid] = n
                if n[0] == 'e':
                    walk(n[3], nid)
        walk(doc, ())

    def kids(self, nid):
        n = self.nodes[nid]
        if n[0] != 'e':
            return []
        return [nid + (i,) for i in range(len(n[3]))]

    def descendants(self, nid):
        out = []
        for k in self.kids(nid):
            out.append(k)
            out.extend(self.descendants(k))
        return out


def node_test(node, test):
    k = node[0]
    if test == 'node()':
        return True
    if test == 'text()':
        return k == 't'
    if test == 'comment()':
        return k == 'c'
    if k != 'e':
        return False
    if test == '*':
        return True
    return node[1][1] == test          # genshi LocalNameTest compares the local name only


def attr_get(node, name):
    for a, v in node[2]:
        if a[1] == name and a[0] == '':
            return v
    return None


def eval_alt(ix, ctx, alt):
    """XPath 1.0 evaluation of one location path from context node ctx -> list of node ids in doc order"""
    if alt['lead'] == '.' and not alt['steps']:
        return [ctx]
    cur = [ctx]
    first = True
    for st in alt['steps']:
        nxt = []
        seen = set()
        for c in cur:
            if first and alt['lead'] == '//':
                # genshi: a leading // is descendant-or-self::<step> of the context node
                cands = [c] + ix.descendants(c)
            elif (first and alt['lead'] == './/') or (not first and st['sep'] == '//'):
                cands = ix.descendants(c)
            else:
                cands = ix.kids(c)
            # candidates of one context node, filtered by node test then predicates in turn
            cands = [n for n in cands if node_test(ix.nodes[n], st['test'])]
            for pr in st['preds']:
                if pr[0] == 'has':
                    cands = [n for n in cands if attr_get(ix.nodes[n], pr[1]) is not None]
                elif pr[0] == 'eq':
                    cands = [n for n in cands if attr_get(ix.nodes[n], pr[1]) == pr[2]]
                else:
                    if (first and alt['lead'] in ('//', './/')) or (not first and st['sep'] == '//'):
                        # position along a descendant step: per parent (child::) semantics of //x[n]
                        byp = {}
                        keep = []
                        for n in cands:
                            byp.setdefault(n[:-1], []).append(n)
                        for n in cands:
                            if byp[n[:-1]].index(n) + 1 == pr[1]:
                                keep.append(n)
                        cands = keep
                    else:
                        cands = cands[pr[1] - 1:pr[1]]
            for n in cands:
                if n not in seen:
                    seen.add(n)
                    nxt.append(n)
        cur = sorted(nxt)
        first = False
    return cur


def selection_from_marks(doc, marked):
    """the selection a select-only transformer made, read off its marked output stream:
    -> (selected node ids (outermost only), {element id: [attr names]}) or None when the marked stream
    is not the document's event stream (then select-only is not the identity: another clause fails)"""
    flat = flatten_ids(doc)
    sel, attrs = set(), {}
    i = 0
    pending = None
    for mark, ev in marked:
        if ev[0] == 'AT':
            pending = [list(a) for a, _ in ev[2]]
            continue
        if ev[0] == 'BR':
            continue
        if i >= len(flat) or flat[i][0] != ev:
            return None
        _, nid, kind = flat[i]
        i += 1
        if pending is not None:
            if kind != 'S':
                return None
            attrs[nid] = pending
            pending = None
        if mark == 'ENTER' and kind == 'S':
            sel.add(nid)
        elif mark == 'OUTSIDE' and kind == 'L':
            sel.add(nid)
        elif mark in ('ENTER', 'OUTSIDE', 'EXIT') and not (mark == 'EXIT' and kind == 'E'):
            return None
    if i != len(flat):
        return None
    return sel, attrs


def plain_doc(nodes):
    """only elements, text, comments, PIs (the node kinds the tree evaluator below knows)"""
    return all(n[0] in ('t', 'c', 'p') or (n[0] == 'e' and plain_doc(n[3])) for n in nodes)


def evaluate(doc, p):
    """-> (selected node ids (outermost only), {element id: [attr names]})"""
    ix = Index(doc)
    sel = set()
    attrs = {}
    # every top-level node of the stream is a context node of its own (a fragment stream)
    for alt in [a for a in p['alts'] for _ in [0]]:
        ids = []
        for top in range(len(doc)):
            ids.extend(eval_alt(ix, (top,), alt))
        if alt.get('attr'):
            for n in ids:
                node = ix.nodes[n]
                if node[0] != 'e':
                    continue
                if alt['attr'] == '*':
                    names = [a for a, _ in node[2]]
                else:
                    names = [a for a, _ in node[2] if a == ['', alt['attr']]]
                if names:
                    attrs.setdefault(n, [])
                    for a in names:
                        if a not in attrs[n]:
                            attrs[n].append(a)
        else:
            sel.update(ids)
    # a selected element swallows its subtree (marks INSIDE): keep outermost matches only
    outer = set()
    for n in sel:
        if not any(n[:k] in sel and ix.nodes[n[:k]][0] == 'e' for k in range(1, len(n))):
            outer.add(n)
    # attribute matches inside a selected element are not seen either
    attrs = dict((n, a) for n, a in attrs.items()
                 if not any(n[:k] in outer for k in range(1, len(n) + 1)))
    return outer, attrs


# --------------------------------------------------------------------------
# documented effect of one operation on the selection (tree level)

def content_events(c):
    """JSON events a content value injects: ["s", text] | ["ev", forest]
    | ["fn", content] (a callable returning that content, the same at every call)
    | ["el", tag, forest] (a builder Element with these children)"""
    if c[0] == 's':
        return [['T', ch, False] for ch in c[1]]
    if c[0] == 'ev':
        return flatten(c[1])
    if c[0] == 'fn':
        return content_events(c[1])
    if c[0] == 'el':
        return flatten([['e', ['', c[1]], [], c[2]]])
    raise ValueError(c)


def attrfn_value(n, op):
    """the value the callable of operation ["attrfn", name, src] returns for element node n:
    src = attribute name (copy that attribute; None, i.e. delete, when missing) | ["tag"] (the local name of
    the element, read off the START event) | ["const", v] | ["name"] (the `name` argument it is called with)
    | ["count"] (the number of attributes of the element)"""
    src = op[2]
    if isinstance(src, str):
        return attr_get(n, src)
    if src[0] == 'tag':
        return n[1][1]
    if src[0] == 'const':
        return src[1]
    if src[0] == 'name':
        return op[1]
    if src[0] == 'count':
        return str(len(n[2]))
    raise ValueError(src)


def attrs_set(attrs, name, value):
    name = ['', name]
    if value is None:
        return [[a, v] for a, v in attrs if a != name]
    if any(a == name for a, _ in attrs):
        return [[a, (value if a == name else v)] for a, v in attrs]
    return attrs + [[name, value]]


def map_text(n, how):
    """the node with every text in it mapped (the result of the function is a plain string for `rev`,
    keeps its type for `dup`)"""
    if n[0] == 't':
        if how == 'rev':
            return ['t', n[1][::-1]]
        return ['t', n[1] + n[1]] + n[2:]
    if n[0] == 'e':
        return ['e', n[1], n[2], [map_text(k, how) for k in n[3]]]
    return n


def spec_apply(doc, sel, selattrs, op):
    """expected JSON events of `Transformer(path).<op>` given the selected node ids.
    Returns None when the documented effect is not defined here (attribute selections with
    structural operations)."""
    name = op[0]
    if selattrs and name not in ('remove', 'cut', 'copy', 'select'):
        return None
    out = []

    def emit_nodes(nodes):
        flatten(nodes, out)

    def element(n, nid):
        if name in ('remove', 'cut'):
            return
        if name == 'replace':
            out.extend(content_events(op[1]))
        elif name == 'before':
            out.extend(content_events(op[1]))
            emit_nodes([n])
        elif name == 'after':
            emit_nodes([n])
            out.extend(content_events(op[1]))
        elif name in ('wrap', 'wrapel'):
            w = ['', op[1]]
            out.append(['S', w, [[['', a], v] for a, v in op[2]]])
            if name == 'wrapel':
                emit_nodes(op[3])
            emit_nodes([n])
            out.append(['E', w])
        elif name == 'unwrap':
            emit_nodes(n[3])
        elif name == 'rename':
            out.append(['S', ['', op[1]], n[2]])
            emit_nodes(n[3])
            out.append(['E', ['', op[1]]])
        elif name == 'attr':
            out.append(['S', n[1], attrs_set(n[2], op[1], op[2])])
            emit_nodes(n[3])
            out.append(['E', n[1]])
        elif name == 'attrfn':
            out.append(['S', n[1], attrs_set(n[2], op[1], attrfn_value(n, op))])
            emit_nodes(n[3])
            out.append(['E', n[1]])
        elif name == 'prepend':
            out.append(['S', n[1], n[2]])
            out.extend(content_events(op[1]))
            emit_nodes(n[3])
            out.append(['E', n[1]])
        elif name == 'append':
            out.append(['S', n[1], n[2]])
            emit_nodes(n[3])
            out.extend(content_events(op[1]))
            out.append(['E', n[1]])
        elif name == 'empty':
            out.append(['S', n[1], n[2]])
            out.append(['E', n[1]])
        elif name in ('copy', 'select', 'trace'):
            emit_nodes([n])
        elif name == 'maptext':
            emit_nodes([map_text(n, op[1])])
        else:
            raise ValueError(name)

    def run(nodes):
        # a contiguous run of selected non-element nodes
        if name in ('remove', 'cut'):
            return
        if name == 'replace':
            out.extend(content_events(op[1]))
        elif name == 'before':
            out.extend(content_events(op[1]))
            emit_nodes(nodes)
        elif name == 'after':
            emit_nodes(nodes)
            out.extend(content_events(op[1]))
        elif name in ('wrap', 'wrapel'):
            w = ['', op[1]]
            out.append(['S', w, [[['', a], v] for a, v in op[2]]])
            if name == 'wrapel':
                emit_nodes(op[3])
            emit_nodes(nodes)
            out.append(['E', w])
        elif name == 'maptext':
            emit_nodes([map_text(k, op[1]) for k in nodes])
        else:
            emit_nodes(nodes)      # element-only operations leave text/comment selections alone

    def walk(nodes, pre):
        i = 0
        while i < len(nodes):
            nid = pre + (i,)
            n = nodes[i]
            if nid in sel and n[0] != 'e':
                j = i
                while j < len(nodes) and (pre + (j,)) in sel and nodes[j][0] != 'e':
                    j += 1
                run(nodes[i:j])
                i = j
                continue
            if nid in sel:
                element(n, nid)
            elif n[0] == 'e':
                attrs = n[2]
                if nid in selattrs and name in ('remove', 'cut'):
                    attrs = [[a, v] for a, v in attrs if a not in selattrs[nid]]
                out.append(['S', n[1], attrs])
                walk(n[3], nid)
                out.append(['E', n[1]])
            else:
                emit_nodes([n])
            i += 1

    walk(doc, ())
    return out


def spec_select(doc, sel, selattrs):
    """what Path.select returns: selected subtrees / nodes in document order; a selected
    attribute list yields one TEXT event of the joined values"""
    out = []

    def walk(nodes, pre):
        for i, n in enumerate(nodes):
            nid = pre + (i,)
            if nid in sel:
                flatten([n], out)
            else:
                if nid in selattrs:
                    out.append(['T', ''.join(v for a, v in n[2] if a in selattrs[nid]), False])
                if n[0] == 'e':
                    walk(n[3], nid)
    walk(doc, ())
    return out


# --------------------------------------------------------------------------
# chains

CONTENTS = [['s', 'Z'], ['s', 'new'], ['s', ''], ['ev', [['e', ['', 'i'], [], [['t', 'k']]]]],
            ['ev', [['t', 'q'], ['e', ['', 'i'], [[['', 'x'], '9']], []]]], ['ev', []]]

INJECT = ['replace', 'before', 'after', 'prepend', 'append']
SIMPLE = ['remove', 'unwrap', 'empty', 'invert', 'end', 'buffer']


def gen_op(rng, bufs, doc=None):
    r = rng.random()
    if r < 0.18:
        return ['select', gen_path_for(rng, doc) if doc else gen_path(rng)]
    if r < 0.40:
        c = rng.choice(CONTENTS)
        r2 = rng.random()
        if r2 < 0.2:
            c = ['fn', c]              # a callable: _inject() calls it at every injection
        elif r2 < 0.28:
            c = ['el', rng.choice(['h', 'a']), rng.choice([[], [['t', 'k']], [['e', ['', 'i'], [], []], ['t', 'q']]])]
        return [rng.choice(INJECT), c]
    if r < 0.49:
        return ['wrap', rng.choice(['w', 'a']), rng.choice([[], [], [['k', 'v']]])]
    if r < 0.52:
        # an Element with children as wrapper: the children come first inside the wrapper
        return ['wrapel', rng.choice(['w', 'a']), rng.choice([[], [['k', 'v']]]),
                rng.choice([[['t', 'lead']], [['e', ['', 'i'], [], [['t', 'k']]]], [['c', 'x'], ['t', 'y']]])]
    if r < 0.59:
        return ['rename', rng.choice(['n', 'a', 'b'])]
    if r < 0.665:
        return ['attr', rng.choice(ATTRS + ['k']), rng.choice([None, 'new', '1', ''])]
    if r < 0.70:
        # a callable value: copy another attribute of the element (None, i.e. delete, when it is missing)
        # ... or reads the tag off the START event / returns a constant / its `name` argument / counts
        return ['attrfn', rng.choice(ATTRS + ['k']),
                rng.choice(ATTRS + [['tag'], ['const', 'c'], ['const', ''], ['name'], ['count']])]
    if r < 0.76:
        return ['copy', rng.choice([0, 1]), rng.random() < 0.5]
    if r < 0.82:
        return ['cut', rng.choice([0, 1]), rng.random() < 0.5]
    if r < 0.85:
        return ['map', rng.choice(['T', 'N'])]
    if r < 0.87:
        return ['substitute', rng.choice(['t', 'some', 'x']), rng.choice(['Q', '']), rng.choice([0, 1])]
    if r < 0.89:
        return ['filter', rng.choice(['id', 'dropc'])]
    if r < 0.91:
        return ['maptext', rng.choice(['rev', 'dup'])]
    if r < 0.925:
        return ['trace']
    if r < 0.94:
        return ['apply', 'bang']          # Transformer.apply(function) with a user-written generator function
    return [rng.choice(SIMPLE)]


def has_attr(path):
    if 'text' in path:
        import re as _re
        t = path['text']
        while True:                                   # drop the predicates
            t2 = _re.sub(r'\[[^\[\]]*\]', '', t)
            if t2 == t:
                break
            t = t2
        return '@' in t or 'attribute::' in t
    return any(a.get('attr') for a in path['alts'])


ZERO_WIDTH = ('before', 'after', 'wrap', 'wrapel', 'filter', 'replace')


def gen_lazy_chain(rng, doc=None):
    """writer-then-reader chains WITHOUT a buffer() barrier (the documented usage
    `Transformer(p).copy(b).end().select(q).prepend(b)`): the reader injects the buffer as it is at the
    moment of the injection (theorems lazy_trace_semantics / lazy_raw_chain_wellnested); element / text
    selections only (hypothesis of C20-attr-structural), one writer (C20-buffer-two-writers)"""
    def path():
        for _ in range(20):
            p = gen_path_for(rng, doc) if doc else gen_path(rng)
            if not has_attr(p):
                return p
        return None
    p1 = path()
    if p1 is None:
        return None
    writer = [rng.choice(['copy', 'cut']), rng.choice([0, 1]), rng.random() < 0.5]
    mids = rng.choice([[], [], [['end']], ['end+select'], ['select'], [['rename', 'n']], [['empty']],
                       [['attr', 'k', 'new']], ['end+select']])
    mid = []
    for m in mids:
        if m in ('select', 'end+select'):
            p2 = path()
            if p2 is None:
                return None
            mid += ([['end']] if m == 'end+select' else []) + [['select', p2]]
        else:
            mid.append(m)
    reader = [rng.choice(INJECT), ['buf', writer[1]]]
    return [['select', p1], writer] + mid + [reader]


def gen_chain(rng, maxlen=4, doc=None, wild=False):
    """Transformer(path).op.op...: at most maxlen operations after the first select.
    Hypothesis of known finding C20-attr-structural: while an attribute selection is in the
    stream (its ATTR pseudo-event is a zero-width selection) no before/after/wrap/filter/replace."""
    if not wild and maxlen >= 4 and rng.random() < 0.06:
        lz = gen_lazy_chain(rng, doc)
        if lz is not None:
            return lz
    n = rng.choice([0, 1, 1, 1, 2, 2, 2, 3, 3, 4])
    n = min(n, maxlen)
    ops = [['select', gen_path_for(rng, doc) if doc else gen_path(rng)]]
    attr_seen = has_attr(ops[0][1])
    written = []
    read_live = set()
    written_live = set()
    for _ in range(n):
        for _try in range(20):
            op = gen_op(rng, 2, doc)
            if op[0] == 'select' and has_attr(op[1]):
                attr_seen = True
            if attr_seen and op[0] in ZERO_WIDTH and not wild:
                continue
            break
        else:
            op = ['remove']
        if op[0] in INJECT and written and rng.random() < 0.35:
            op = [op[0], ['buf', rng.choice(written)]]
        if op[0] == 'buffer':
            read_live = set()
            written_live = set()
        if op[0] in INJECT and op[1][0] == 'buf':
            read_live.add(op[1][1])
        if op[0] in ('copy', 'cut'):
            if op[1] in read_live or op[1] in written_live:
                # hypotheses of the known findings C20-buffer-feedback / C20-buffer-two-writers: between
                # two buffer() barriers a buffer is not written downstream of an injector that reads it
                # (the injected list grows under its own iteration) and has one writer only (the lazily
                # interleaved writers reset / extend each other's half-copied selection)
                free = [i for i in (0, 1, 2, 3, 4) if i not in read_live and i not in written_live]
                op = [op[0], free[0], op[2]]
            written.append(op[1])
            written_live.add(op[1])
        ops.append(op)
    return ops


def gen_tree_case(rng):
    """derivations from shared prefixes: t0 = Transformer(path); every further transformer is derived
    from an EARLIER one (not only the latest) by one operation; then some of them are applied, some
    twice, in any order.  Every operation method returns a new transformer and leaves its origin alone."""
    doc = gen_doc(rng, rng.choice([1, 2, 2]))
    root = gen_path_for(rng, doc)
    chains = [[['select', root]]]
    derive = []
    n = rng.choice([1, 2, 2, 3, 3, 4, 5])
    for _ in range(n):
        # prefer branching: an origin that already has a descendant
        parent = rng.randrange(len(chains)) if rng.random() < 0.7 else 0
        if len(chains) >= 2 and rng.random() < 0.38:
            # t_parent.apply(t_j): the argument is a Transformer, ALL its links are appended (the same link
            # objects then sit in several chains, and -- j = parent, or j derived from parent -- twice in one)
            parent = rng.randrange(len(chains))
            j = rng.randrange(1, len(chains)) if rng.random() < 0.8 else 0
            if j == parent and rng.random() < 0.6:
                j = (j + 1) % len(chains)
            new = chains[parent] + chains[j]
            if len(new) <= TREE_MAXLEN and chain_in_domain(new):
                derive.append([parent, ['cat', j]])
                chains.append(new)
                continue
        attr_seen = any(o[0] == 'select' and has_attr(o[1]) for o in chains[parent])
        for _try in range(30):
            op = gen_op(rng, 2, doc)
            if op[0] == 'buffer':
                continue
            if op[0] == 'select' and has_attr(op[1]):
                continue
            if attr_seen and op[0] in ZERO_WIDTH:
                continue
            if op[0] in ('copy', 'cut') and any(o[0] in ('copy', 'cut') and o[1] == op[1] for o in chains[parent]):
                continue                 # one writer per buffer and chain (C20-buffer-two-writers)
            break
        else:
            op = ['remove']
        if op[0] in ('copy', 'cut'):
            op = [op[0], len(chains), op[2]]         # a buffer of its own per derived transformer
        derive.append([parent, op])
        chains.append(chains[parent] + [op])
    apply = [rng.randrange(len(chains)) for _ in range(rng.choice([2, 3, 4]))]
    if 0 not in apply:
        apply.append(0)                   # the shared origin is used again after the derivations
    cats = [i + 1 for i, (_, op) in enumerate(derive) if op[0] == 'cat']
    if cats and not any(k in cats for k in apply):
        apply.insert(rng.randrange(len(apply) + 1), rng.choice(cats))
    return {'kind': 'tree', 'doc': doc, 'root': root, 'derive': derive, 'apply': apply}


TREE_MAXLEN = 9


def tree_chains(case):
    """the chain (list of operations) of every transformer object of a derivation tree; a derivation is
    [parent, op] (an operation method on object `parent`) or [parent, ["cat", j]] (parent.apply(object j))"""
    chains = [[['select', case['root']]]]
    for parent, op in case['derive']:
        if op[0] == 'cat':
            chains.append(chains[parent] + chains[op[1]])
        else:
            chains.append(chains[parent] + [op])
    return chains


def tree_shape(case):
    """parents of the derived transformers, e.g. 0,0,1: two children of the root, one grandchild;
    1+2: object 1 with object 2 as the argument of apply()"""
    return ','.join('%d+%d' % (p, op[1]) if op[0] == 'cat' else str(p) for p, op in case['derive'])


def chain_in_domain(ops):
    """the hypotheses the chain generator keeps (mirror of gen_chain): no zero-width operation once an
    attribute selection is in the stream (C20-attr-structural); between two buffer() barriers a buffer has
    one writer and is not written after an injector read it (C20-buffer-feedback / -two-writers)"""
    attr_seen = False
    read_live, written_live = set(), set()
    for op in ops:
        if op[0] == 'select' and has_attr(op[1]):
            attr_seen = True
        elif attr_seen and op[0] in ZERO_WIDTH:
            return False
        if op[0] == 'buffer':
            read_live, written_live = set(), set()
        if op[0] in INJECT and op[1][0] == 'buf':
            read_live.add(op[1][1])
        if op[0] in ('copy', 'cut'):
            if op[1] in read_live or op[1] in written_live:
                return False
            written_live.add(op[1])
    return True


def form_in_domain(case):
    """the hypotheses the form generator keeps: option and textarea elements hold text only, no form in a
    form, no select in a select (C20-option-children, C20-nested-controls), no None / empty list for the
    name of a textarea (C20-textarea-none)"""
    data = dict((k, v) for k, v in case['data'])

    def ok(nodes, in_form, in_select):
        for n in nodes:
            if n[0] != 'e':
                continue
            tag = n[1][1]
            if tag == 'form' and in_form:
                return False
            if tag == 'select' and in_select:
                return False
            if tag in ('option', 'textarea') and any(k[0] != 't' for k in n[3]):
                return False
            if tag == 'textarea':
                for a, v in n[2]:
                    if a == ['', 'name'] and v in data and (data[v] is None or data[v] == []):
                        return False
            if not ok(n[3], in_form or tag == 'form', in_select or tag == 'select'):
                return False
        return True
    return ok(case['doc'], False, False)


def stagewise(ops):
    """mirror of `Genshi.Tf.stagewise` (Model/TfLazy.lean): between two buffer() barriers no buffer is
    written twice, or read by an injector and written -- the chains for which the stage-wise model is exact"""
    w, r = set(), set()
    for op in ops:
        n = op[0]
        if n == 'buffer':
            w, r = set(), set()
        elif n in ('copy', 'cut'):
            if op[1] in w or op[1] in r:
                return False
            w.add(op[1])
        elif n in INJECT and op[1][0] == 'buf':
            if op[1][1] in w:
                return False
            r.add(op[1][1])
    return True


def admissible(ops):
    """the documented precondition of the nesting claim: after invert() the unselected
    remainder is marked as one selection per gap and cuts through elements, so a new
    select() must come before remove/replace/wrap/cut/filter/copy (a copied gap is not balanced)"""
    dirty = False
    for op in ops:
        if op[0] == 'invert':
            dirty = True
        elif op[0] == 'select':
            dirty = False
        elif dirty and op[0] in ('remove', 'replace', 'wrap', 'wrapel', 'cut', 'filter', 'copy'):
            return False
    return True


# --------------------------------------------------------------------------
# forms

NAMES = ['n', 'm', 'q', 'pw']
FVALS = ['1', 'on', 'two', '', 'x y']


def gen_value(rng):
    r = rng.random()
    if r < 0.35:
        return rng.choice(FVALS)
    if r < 0.5:
        return rng.choice([0, 1, 2, 7])
    if r < 0.56:
        return rng.choice([1.5, 0.0])
    if r < 0.85:
        return [rng.choice(FVALS + [1, 2]) for _ in range(rng.choice([0, 1, 2, 2, 3]))]
    if r < 0.93:
        return None
    return rng.choice([True, False])


def gen_control(rng, wild=False):
    r = rng.random()
    name = rng.choice(NAMES)
    nm = [[['', 'name'], name]] if rng.random() < 0.92 else []
    if r < 0.4:
        typ = rng.choice(['text', 'hidden', '', 'TEXT', 'password', 'password', 'checkbox', 'checkbox', 'radio', 'radio',
                          'submit', None])
        attrs = list(nm)
        if typ is not None:
            attrs.insert(rng.choice([0, len(attrs)]), [['', 'type'], typ])
        if rng.random() < 0.6:
            attrs.append([['', 'value'], rng.choice(FVALS)])
        if typ in ('checkbox', 'radio') and rng.random() < 0.4:
            attrs.append([['', 'checked'], 'checked'])
        return ['e', ['', 'input'], attrs, []]
    if r < 0.65:
        opts = []
        for _ in range(rng.choice([0, 1, 2, 3])):
            oa = []
            if rng.random() < 0.6:
                oa.append([['', 'value'], rng.choice(FVALS)])
            if rng.random() < 0.3:
                oa.append([['', 'selected'], 'selected'])
            kids = []
            for _ in range(rng.choice([0, 1, 1, 2])):
                kids.append(['t', rng.choice(FVALS + ['1', 'two'])])
            if wild and rng.random() < 0.4:
                # outside the hypothesis of the oracle (finding C20-option-children): correspondence only
                kids.insert(rng.choice([0, len(kids)]), rng.choice([
                    ['e', ['', 'b'], [], [['t', 'x']]], ['c', 'note'],
                    ['e', ['', 'option'], [], [['t', 'in']]], ['e', ['', 'input'], [[['', 'name'], 'n']], []]]))
            opts.append(['e', ['', 'option'], oa, kids])
            if rng.random() < 0.3:
                opts.append(['t', ' '])
        attrs = list(nm)
        if rng.random() < 0.3:
            attrs.append([['', 'multiple'], 'multiple'])
        return ['e', ['', 'select'], attrs, opts]
    if r < 0.85:
        kids = [['t', rng.choice(['old', 'x', ' '])]] if rng.random() < 0.7 else []
        if wild and rng.random() < 0.4:
            kids.append(rng.choice([['e', ['', 'b'], [], [['t', 'y']]], ['c', 'note'],
                                    ['e', ['', 'textarea'], [[['', 'name'], 'm']], [['t', 'z']]]]))
        return ['e', ['', 'textarea'], list(nm), kids]
    if r < 0.93:
        return ['e', ['', 'p'], [], [gen_control(rng, wild), ['t', 'lbl']]]
    if wild and r < 0.97:
        return ['e', [rng.choice(['', NS]), 'form'], [[['', 'name'], 'f1']], [gen_control(rng, wild)]]
    return ['t', rng.choice(['lbl', ' '])]


def gen_form_doc(rng, wild=False):
    body = []
    for _ in range(rng.choice([1, 1, 2])):
        fattrs = []
        if rng.random() < 0.4:
            fattrs.append([['', 'name'], rng.choice(['f1', 'f2'])])
        if rng.random() < 0.3:
            fattrs.append([['', 'id'], rng.choice(['i1', 'i2'])])
        body.append(['e', ['', 'form'], fattrs, [gen_control(rng, wild) for _ in range(rng.choice([1, 2, 3, 4, 5]))]])
        if rng.random() < 0.3:
            body.append(gen_control(rng, wild))       # a control outside any form
    return [['e', ['', 'html'], [], body]]


def gen_data(rng):
    d = {}
    for n in rng.sample(NAMES, rng.choice([0, 1, 2, 2, 3, 4])):
        d[n] = gen_value(rng)
    return [[k, d[k]] for k in sorted(d)]


def textarea_names(nodes, out=None):
    out = set() if out is None else out
    for n in nodes:
        if n[0] == 'e':
            if n[1][1] == 'textarea':
                for a, v in n[2]:
                    if a == ['', 'name']:
                        out.add(v)
            textarea_names(n[3], out)
    return out


def gen_form_case(rng, wild=False):
    c = {'kind': 'form', 'doc': gen_form_doc(rng, wild), 'data': gen_data(rng), 'passwords': rng.random() < 0.3,
         'name': None, 'id': None}
    if wild:
        # correspondence only: nothing is kept inside the hypotheses of the oracle
        c['kind'] = 'formx'
        r = rng.random()
        if r < 0.15:
            c['name'] = rng.choice(['f1', 'f2'])
        elif r < 0.25:
            c['id'] = rng.choice(['i1', 'i2'])
        return c
    # hypothesis of filler_fills_given_partial (known finding C20-textarea-none): no None / empty
    # list for the name of a textarea
    tn = textarea_names(c['doc'])
    c['data'] = [[k, (rng.choice(FVALS) if (v is None or v == []) and k in tn else v)] for k, v in c['data']]
    r = rng.random()
    if r < 0.15:
        c['name'] = rng.choice(['f1', 'f2'])
    elif r < 0.25:
        c['id'] = rng.choice(['i1', 'i2'])
    return c


def sanitizer_doc(rng):
    """documents for the sanitizer nesting check: no unsafe element nested in an unsafe element of
    the same name (defect of the sanitizer owned by C06: its END leaks)"""
    doc = gen_doc(rng, 2)

    def fix(nodes, inside_c):
        for n in nodes:
            if n[0] == 'e':
                n[1] = ['', n[1][1]]                  # namespaced elements are unsafe as well
                if n[1][1] == 'c' and inside_c:
                    n[1] = ['', 'b']
                fix(n[3], inside_c or n[1][1] == 'c')
    fix(doc, False)
    return doc

"""Translator part for C12: how `MatchDirective.attach` reads the optimisation hints of
`<py:match path=… buffer=… once=… recursive=…>`, probed on the class of the repo under test
(values, not source text) for a basis of spellings, one attribute at a time and in combination."""
from harness.extract_tables import HEADER, chars

SPELLINGS = ['false', 'False', 'FALSE', 'fAlSe', 'true', 'True', 'TRUE', 'tRuE', '', '0', '1', 'no', 'yes',
             ' false', 'false ', 'falsee', 'tru', 'off', 'on']


def probe(b, o, r):
    from genshi.template.directives import MatchDirective
    from genshi.template import MarkupTemplate
    tmpl = MarkupTemplate('<x/>')
    value = {'path': 'a'}
    if b is not None:
        value['buffer'] = b
    if o is not None:
        value['once'] = o
    if r is not None:
        value['recursive'] = r
    d, _ = MatchDirective.attach(tmpl, [], value, {}, (None, 1, 1))
    h = set(d.hints)
    known = {'not_buffered', 'match_once', 'not_recursive'}
    return ('not_buffered' in h, 'match_once' in h, 'not_recursive' in h, sorted(h - known))


def opt(s):
    return 'none' if s is None else '(some %s)' % chars(s)


def gen_match_hints():
    rows = []
    triples = [(None, None, None)]
    for s in SPELLINGS:
        triples += [(s, None, None), (None, s, None), (None, None, s)]
    for b in ('false', 'TRUE'):
        for o in ('true', 'False'):
            for r in ('false', 'True'):
                triples.append((b, o, r))
    other = []
    for b, o, r in triples:
        nb, mo, nr, extra = probe(b, o, r)
        other.extend(extra)
        rows.append('  (%s, %s, %s, %s, %s, %s)' % (opt(b), opt(o), opt(r), str(nb).lower(), str(mo).lower(), str(nr).lower()))
    parts = [HEADER, 'namespace Genshi.Gen.MatchHints\n',
             '/-- from genshi/template/directives.py:MatchDirective.attach — (buffer=, once=, recursive=) attribute values\n'
             '    (none = attribute absent) and whether the hints not_buffered / match_once / not_recursive result -/',
             'def rows : List (Option (List Char) × Option (List Char) × Option (List Char) × Bool × Bool × Bool) := [',
             ',\n'.join(rows) + ']\n',
             '/-- hint names produced by attach that the model does not know (must be empty) -/',
             'def unknownHints : List (List Char) := [%s]\n' % ', '.join(chars(x) for x in sorted(set(other))),
             'end Genshi.Gen.MatchHints\n']
    return 'MatchHints.lean', '\n'.join(parts)


GENERATORS = [gen_match_hints]

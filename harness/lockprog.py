"""A thread body that performs a program of lock actions on real `threading` locks (wrapped in
`sched.SchedLock`), one action per source line of this file, so that the deterministic scheduler
can preempt between any two actions.  Used by the C16 stream `lock-model-synthetic`: the model
with several re-entrant locks against CPython's RLock under real threads."""


def run_prog(locks, prog):
    for kind, l in prog:
        if kind == 'A':
            locks[l].acquire()
        else:
            locks[l].release()
    return len(prog)

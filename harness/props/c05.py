"""C05 — XPath selection returns exactly the nodes XPath 1.0 designates.

Oracle on the real code: `Stream.select(path, namespaces, variables)` against the independent
reference evaluator harness/xpath_ref.py (own parser, own tree evaluator), and PathSyntaxError for
XPath 1.0 expressions outside the documented subset.

Correspondence (model vs code, bug-compatible, findings included):
  parse    real PathParser AST            vs gdrv `C05 parse`
  select   real Stream.select             vs gdrv `C05 select`     (strategy chosen as Path.__init__ does)
  selectg  real select, GenericStrategy   vs gdrv `C05 runf Generic`
  selects  real select, SimplePathStrategy forced on every path it supports   vs gdrv `C05 runf Simple`
  select1  real select, SingleStepStrategy forced on every path it supports   vs gdrv `C05 runf Single`
  pred     real predicate object call     vs gdrv `C05 pred`       (coercions, functions, operators)
  xp       Python reference               vs gdrv `C05 xp`         (the Lean reference semantics)

A case is {"doc": tree, "path": text, "ns": {prefix: uri}, "vars": {name: value}} (+ "kind").
"""
import json

from harness import proto, evwire
from harness import gen_paths as G
from harness import xpath_ref as R
from harness.framework import Result, pmap
from harness.proto import Atom, B, N

PROP = 'C05'
TRUSTED = [
    'modelled, not verified: genshi/path.py (PathParser, node tests, functions, operators, coercions, the three '
    'strategies, Path.test/select) as the hand-written Lean model Genshi/Model/Path*.lean, tied by differential '
    'correspondence on generated (document, path) pairs',
    'XPath numbers: the model computes with exact decimals; that IEEE doubles parse, compare and print decimals of '
    'at most 15 significant digits exactly is assumed (longer numerals are answered `unmodelled`)',
    'the reference evaluator harness/xpath_ref.py (the oracle) and its Lean twin Genshi/Model/PathRef.lean are '
    'hand-written from the XPath 1.0 recommendation; they are compared with each other on every run',
    'not modelled: the `re` engine (tokenizer regex re-implemented by hand; matches() is `unmodelled`), expat '
    '(documents are built as event lists)',
    'the printer Genshi/Model/PathPrint.lean is proved against the parser MODEL (parse_print, parse_print_abbrev); '
    'that the real PathParser reads printed text the same way is the print / printa correspondence (the AST printed '
    'is the model parse of a generated text, so only ASTs that some generated text denotes are exercised)',
]
ASSUMPTIONS = [
    'streams are the events of one element tree (what the XML parser delivers for a document), possibly with '
    'START_NS/END_NS events',
    'an unprefixed name test matches the local name in any namespace and name() is the expanded name {uri}local '
    '(documented genshi behaviour; recorded as finding C05-unprefixed-name-any-namespace)',
    'variables are bound to strings, floats or booleans',
    'cases inside the zone of a listed finding (see findings/C05.json) are not judged by the oracle',
]

SKIP_ZONES = {'ne-absent', 'substring', 'union-attr-owner', 'leading-position'}


# --------------------------------------------------------------------------
# the real code, canonicalised

def node_at(doc, path):
    n = doc
    for i in path:
        n = n['k'][i]
    return n


def expected_items(doc, text, ns, vs, strict=False, events=None, spans=None):
    """what the property demands, as wire items; raises Outside/Garbage/Unbound"""
    R.STRICT_NAMES = bool(strict)
    try:
        items = R.select(doc, text, ns, vs)
    finally:
        R.STRICT_NAMES = False
    if events is None:
        events, spans = G.doc_events_spans(doc)
    out = []
    for it in items:
        if it[0] == 'a':
            out.append([Atom('at'), [[[a[0], a[1]], a[2]] for a in it[2]]])
        else:
            i, j = spans[tuple(it[1])]
            out.extend([Atom('ev'), e] for e in evwire.stream(events[i:j + 1]))
    return out, set(R.ZONES)


def canon_item(it):
    from genshi.core import Attrs
    if isinstance(it, Attrs):
        return [Atom('at'), [[evwire.qn(k), str(v)] for k, v in it]]
    return [Atom('ev'), evwire.ev(it)]


def exc_name(e):
    return type(e).__name__


def real_select(events, text, ns, vs, force=None):
    """('ok', items) | ('err', class name)"""
    from genshi.core import Stream
    from genshi import path as P
    try:
        p = P.Path(text)
        if force is not None:
            cls = {'generic': P.GenericStrategy, 'single': P.SingleStepStrategy, 'simple': P.SimplePathStrategy}[force]
            if not all(cls.supports(x) for x in p.paths):
                return ('unsupported',)
            p.strategies = [cls(x) for x in p.paths]
        return ('ok', [canon_item(it) for it in p.select(Stream(list(events)), ns, vs)])
    except Exception as e:  # noqa
        return ('err', exc_name(e))


def jsonable(x):
    if isinstance(x, (list, tuple)):
        return [jsonable(y) for y in x]
    return str(x) if isinstance(x, Atom) else x


# --------------------------------------------------------------------------
# dumping genshi's parsed AST in the model's vocabulary

FN_NAMES = None


def _fn_names():
    global FN_NAMES
    if FN_NAMES is None:
        from genshi import path as P
        FN_NAMES = dict((cls, name) for name, cls in P._function_map.items())
    return FN_NAMES


def dump_test(t):
    from genshi import path as P
    attr = B(getattr(t, 'principal_type', None) == P.ATTRIBUTE)
    n = type(t).__name__
    if n == 'PrincipalTypeTest':
        return [Atom('P'), attr]
    if n == 'QualifiedPrincipalTypeTest':
        return [Atom('QP'), attr, t.prefix]
    if n == 'LocalNameTest':
        return [Atom('L'), attr, t.name]
    if n == 'QualifiedNameTest':
        return [Atom('Q'), attr, t.prefix, t.name]
    if n == 'CommentNodeTest':
        return Atom('C')
    if n == 'NodeTest':
        return Atom('N')
    if n == 'TextNodeTest':
        return Atom('T')
    if n == 'ProcessingInstructionNodeTest':
        return [Atom('PI'), N if t.target is None else t.target]
    raise ValueError(n)


def dump_expr(e):
    from genshi import path as P
    n = type(e).__name__
    if n.endswith('Test'):
        return [Atom('test'), dump_test(e)]
    if n == 'StringLiteral':
        return [Atom('lit'), e.text]
    if n == 'NumberLiteral':
        return [Atom('num'), R.num_to_string(e.number)]
    if n == 'VariableReference':
        return [Atom('var'), e.name]
    if n == 'AndOperator':
        return [Atom('and'), dump_expr(e.lval), dump_expr(e.rval)]
    if n == 'OrOperator':
        return [Atom('or'), dump_expr(e.lval), dump_expr(e.rval)]
    ops = {'EqualsOperator': 'eq', 'NotEqualsOperator': 'ne', 'GreaterThanOperator': 'gt',
           'GreaterThanOrEqualOperator': 'ge', 'LessThanOperator': 'lt', 'LessThanOrEqualOperator': 'le'}
    if n in ops:
        return [Atom('cmp'), Atom(ops[n]), dump_expr(e.lval), dump_expr(e.rval)]
    name = _fn_names().get(type(e))
    if name is None:
        raise ValueError(n)
    if n == 'ConcatFunction':
        return [Atom('fn'), 'concat'] + [dump_expr(a) for a in e.exprs]
    if n == 'SubstringFunction':
        args = [e.string, e.start] + ([e.length] if e.length is not None else [])
    elif n == 'MatchesFunction':
        args = [e.string1, e.string2]
    else:
        args = [getattr(e, s) for s in type(e).__slots__]
    return [Atom('fn'), name] + [dump_expr(a) for a in args]


def dump_paths(paths):
    return [[[Atom(axis.upper()), dump_test(t), [dump_expr(p) for p in preds]] for axis, t, preds in path] for path in paths]


def real_parse(text):
    from genshi import path as P
    try:
        return [Atom('ok')] + dump_paths(P.PathParser(text).parse())
    except Exception as e:  # noqa
        return [Atom('err'), Atom(exc_name(e))]


def wire_val(v):
    from genshi.core import Attrs
    if v is None:
        return N
    if isinstance(v, bool):
        return [Atom('b'), B(v)]
    if isinstance(v, float):
        return [Atom('n'), R.num_to_string(v)]
    if isinstance(v, Attrs):
        return [Atom('a'), [[evwire.qn(k), str(x)] for k, x in v]]
    if isinstance(v, str):
        return [Atom('x'), str(v)]
    if isinstance(v, tuple):
        return [Atom('e'), evwire.ev(v)]
    return [Atom('other'), type(v).__name__]


def wire_ns(ns):
    return [[k, ns[k]] for k in sorted(ns)]


def wire_vars(vs):
    out = []
    for k in sorted(vs):
        v = vs[k]
        if isinstance(v, bool):
            out.append([k, [Atom('b'), B(v)]])
        elif isinstance(v, (int, float)):
            out.append([k, [Atom('n'), R.num_to_string(float(v))]])
        else:
            out.append([k, [Atom('x'), str(v)]])
    return out


# --------------------------------------------------------------------------
# the oracle on one case

def oracle_case(case, events=None):
    """the property on the real code for one case; returns (failure | None, info)"""
    kind = case.get('kind', 'select')
    text = case['path']
    ns = case.get('ns', G.NSMAP)
    vs = case.get('vars', G.VARS)
    if kind == 'reject':
        from genshi import path as P
        try:
            P.Path(text)
        except P.PathSyntaxError:
            return None, {'rejected': True}
        except Exception as e:  # noqa
            return ({'case': case, 'what': 'an expression outside the documented subset (%s) is rejected with '
                     'PathSyntaxError' % case.get('why', '?'), 'expected': 'PathSyntaxError',
                     'observed': exc_name(e)}, {})
        return ({'case': case, 'what': 'an expression outside the documented subset (%s) is rejected with '
                 'PathSyntaxError' % case.get('why', '?'), 'expected': 'PathSyntaxError',
                 'observed': 'accepted'}, {})
    doc = case['doc']
    events, spans = G.doc_events_spans(doc, case.get('ns_events', False))
    try:
        exp, zones = expected_items(doc, text, ns, vs, case.get('strict_names'), events, spans)
    except (R.Outside, R.Garbage, R.Unbound) as e:
        return None, {'ref': type(e).__name__}
    got = real_select(events, text, ns, vs)
    info = {'zones': zones, 'expected': exp, 'got': got}
    if got != ('ok', exp):
        f = {'case': case, 'what': 'select returns exactly the outermost nodes XPath 1.0 designates, in document order',
             'expected': jsonable(exp)[:40], 'observed': jsonable(list(got))[:41],
             'doc_xml': G.doc_xml(doc)}
        return f, info
    return None, info


# --------------------------------------------------------------------------
# generation

def aimed_pred_case(rng):
    """`*[E = "v"]` where v is the XPath value of the string / number expression E at one of the
    children of the root: the predicate must hold there, so a wrong function or coercion shows"""
    doc = {'e': ['', 'r'], 'a': [], 'k': []}
    for _ in range(rng.choice([2, 3, 4])):
        doc['k'].append({'e': [rng.choice(G.NSS), rng.choice(G.NAMES)], 'a': G._rand_attrs(rng) or [['', 'n', 'a b']], 'k': []})
    numeric = rng.random() < 0.4
    expr = G._number_expr(rng, G.FULL, 2) if numeric else G._string_expr(rng, G.FULL, 3)
    try:
        ast = R.parse('*[%s]' % expr)[0][0]['preds'][0]
        node = R.build(doc).kids[rng.randrange(len(doc['k']))]
        v = R.ev(ast, node, G.NSMAP, G.VARS)
    except Exception:  # noqa
        return None
    if isinstance(v, list):
        v = R.to_string(v)
    if isinstance(v, bool):
        return None
    if isinstance(v, float):
        if v != v or v in (float('inf'), float('-inf')):
            return None
        lit = R.num_to_string(v)
        if lit.startswith('-'):
            lit = '"%s"' % lit
        op = rng.choice(['=', '=', '>=', '<='])
    else:
        if '"' in v and "'" in v:
            return None
        lit = ('"%s"' % v) if '"' not in v else ("'%s'" % v)
        op = '='
    return {'doc': doc, 'path': '*[%s%s%s]' % (expr, op, lit)}


def aimed_union_case(rng):
    """a union one of whose operands is a single step with a positional predicate on the descendant
    axis, the other one selecting elements that may lie earlier and contain nodes the first operand
    has to count: `select` feeds the selected subtree to every operand in update-only mode, and the
    position counters must keep running there (seeded change C05-2)"""
    doc = G.rand_doc(rng, rng.choice([7, 9, 12]), deep=True)
    x = rng.choice(['a', 'b', 'text()', '*'])
    a = 'descendant::%s[%d]' % (x, rng.choice([1, 2, 2, 3]))
    b = rng.choice(['a', 'b', '*', '*[1]', 'a/a', 'a/b', 'descendant::b', 'descendant::a', '*/*'])
    ops = [a, b]
    if rng.random() < 0.3:
        ops.append(rng.choice(['a', 'b', 'descendant::text()[1]']))
    rng.shuffle(ops)
    return {'doc': doc, 'path': rng.choice(['|', ' | ']).join(ops)}


def aimed_stacked_position_case(rng):
    """ONE step with two or more position tests (boolean predicates may sit between) on a descendant /
    descendant-or-self / child axis below a step that yields NESTED context nodes (an `a` inside an
    `a`): one node is then tested against several counter packs, and GenericStrategy has to remember
    per pack which of them already failed an earlier position test of the same step (`missed`, seeded
    change C05-4).  XPath: each predicate renumbers what the previous ones kept, per context node."""
    doc = G.rand_doc(rng, rng.choice([7, 9, 12]), deep=True)
    lead = rng.choice(['//a', '//a', 'descendant::a', 'descendant-or-self::a', '//*', './/a', 'a//a',
                       'descendant::*', '//b', 'descendant-or-self::*', '*//a', './/*'])
    x = rng.choice(['a', 'b', 'b', '*', 'text()', 'node()'])
    ax = rng.choice(['/descendant::', '/descendant::', '/descendant-or-self::', '//', '/'])
    preds = []
    for _ in range(rng.choice([2, 2, 3])):
        preds.append('[%d]' % rng.choice([1, 1, 2, 2, 3]))
        if rng.random() < 0.3:
            preds.append(rng.choice(['[true()]', '[@n]', '[not(@zz)]', '[@n or not(@n)]']))
    text = lead + ax + x + ''.join(preds)
    if rng.random() < 0.2:
        text += rng.choice(['/b', '/text()', '/@n', '|a', '|descendant::b[2]'])
    return {'doc': doc, 'path': text, 'aim': 'stacked-position'}


def aimed_wildcard_chain_case(rng):
    """a predicate-free multi-step path that mixes `*` steps with the names a / b, on a deep chain-like document over the
    same two names: the shape on which a prefix-function (KMP) matcher and the general matcher part ways if `*` is
    ever treated like a name test (seeded changes C05-3 / C17-3: caught by one case in 80 000 before this generator)."""
    def chain(d):
        node = {'a': [], 'e': ['', rng.choice(['a', 'a', 'b'])], 'k': []}
        if d > 0:
            node['k'] = [chain(d - 1) for _ in range(rng.choice([1, 1, 1, 2]))]
        return node
    doc = chain(rng.choice([4, 5, 6, 7]))
    lead = rng.choice(['descendant::a', '//a', 'a', './/a', 'descendant::b', '//b', 'descendant::*', '*'])
    steps = [rng.choice(['a', 'a', 'b', '*', 'child::*']) for _ in range(rng.choice([2, 2, 3, 4]))]
    if not any('*' in x for x in steps):
        steps[rng.randrange(len(steps))] = '*'
    return {'doc': doc, 'path': lead + '/' + '/'.join(steps), 'aim': 'wildcard-chain'}


def gen_case(rng, profile=None):
    if profile is None and rng.random() < 0.05:
        return aimed_wildcard_chain_case(rng)
    if profile is None and rng.random() < 0.08:
        return aimed_union_case(rng)
    if profile is None and rng.random() < 0.06:
        return aimed_stacked_position_case(rng)
    if profile is None and rng.random() < 0.08:
        # SimplePathStrategy with several fragments (hand-over between fragments, KMP fall-back)
        doc, text = G.rand_fragcase(rng)
        return {'doc': doc, 'path': text}
    if profile is None and rng.random() < 0.25:
        c = aimed_pred_case(rng)
        if c:
            return c
    doc = G.rand_doc(rng, rng.choice([3, 5, 7, 9, 12]), deep=rng.random() < 0.3)
    profile = profile or rng.choice([G.FULL, G.FULL, G.STRUCT, G.SIMPLE])
    text = G.rand_path_for(rng, doc, profile) if rng.random() < 0.7 else G.rand_path(rng, profile)
    case = {'doc': doc, 'path': text}
    if rng.random() < 0.15:
        case['ns_events'] = True
    return case


def path_shape(text):
    import re
    s = re.sub(r'"[^"]*"|\'[^\']*\'', 'S', text)
    s = re.sub(r'\d+(\.\d+)?', '9', s)
    return re.sub(r'\s+', '', s)


def doc_shape(t):
    if 'e' not in t:
        return 't' if 't' in t else ('c' if 'c' in t else 'p')
    return '%s(%s)' % (t['e'][1], ''.join(doc_shape(k) for k in t.get('k', [])))


def first_start(events):
    from genshi.core import START
    return [e for e in events if e[0] is START]


def check_cases(cases, res, stream_prefix=''):
    """oracle + all correspondence streams for a list of select cases"""
    from genshi import path as P
    lines, plan = [], []

    def ask(tag, i, line, real):
        lines.append(line)
        plan.append((tag, i, real))

    for i, case in enumerate(cases):
        text = case['path']
        ns = case.get('ns', G.NSMAP)
        vs = case.get('vars', G.VARS)
        res.evaluations += 1
        if case.get('kind') == 'reject':
            f, _ = oracle_case(case)
            res.count('reject:' + case.get('why', '?'))
            if f:
                res.failures.append(f)
            ask('parse', i, proto.line(Atom('C05'), Atom('parse'), text), real_parse(text))
            continue
        doc = case['doc']
        events = G.doc_events(doc, case.get('ns_events', False))
        f, info = oracle_case(case, events)
        if 'ref' in info:
            res.count('ref-rejects:' + info['ref'])
            continue
        zones = info['zones']
        for z in zones:
            res.count('zone:' + z)
        judged = not (zones & SKIP_ZONES)
        if case.get('aim'):
            res.count('aim:%s:%s' % (case['aim'], ('judged-nonempty' if info['expected'] else 'judged-empty') if judged else 'not-judged'))
        if f and judged:
            res.failures.append(f)
        exp = info['expected']
        size = len(events)
        if judged:
            res.count('judged')
            if exp and len(exp) < size:
                res.nontrivial.add('%s|%s' % (path_shape(text), doc_shape(doc)))
            res.count('result:' + ('empty' if not exp else ('all' if len(exp) >= size else 'part')))
        for ax in ('descendant-or-self::', 'descendant::', 'self::', 'child::', 'attribute::', '//', '@', '|', '['):
            if ax in text:
                res.count('construct:' + ax)
        wev = evwire.stream(events)
        wns, wvs = wire_ns(ns), wire_vars(vs)
        ask('parse', i, proto.line(Atom('C05'), Atom('parse'), text), real_parse(text))
        got = info['got']
        real_sel = [Atom('ok')] + got[1] if got[0] == 'ok' else [Atom('err'), Atom(got[1])]
        ask('select', i, proto.line(Atom('C05'), Atom('run'), text, wns, wvs, wev), real_sel)
        gg = real_select(events, text, ns, vs, force='generic')
        real_g = [Atom('ok')] + gg[1] if gg[0] == 'ok' else [Atom('err'), Atom(gg[1])]
        ask('selectg', i, proto.line(Atom('C05'), Atom('runf'), Atom('Generic'), text, wns, wvs, wev), real_g)
        for tag, force, name in (('selects', 'simple', 'Simple'), ('select1', 'single', 'Single')):
            fs = real_select(events, text, ns, vs, force=force)
            if fs[0] == 'unsupported':
                continue
            real_f = [Atom('ok')] + fs[1] if fs[0] == 'ok' else [Atom('err'), Atom(fs[1])]
            ask(tag, i, proto.line(Atom('C05'), Atom('runf'), Atom(name), text, wns, wvs, wev), real_f)
        try:
            for p_ in P.PathParser(text).parse():
                if P.SimplePathStrategy.supports(p_):
                    fr_ = P.SimplePathStrategy(p_).fragments
                    nfr = len([f_ for f_ in (fr_ or []) if f_[0]])
                    res.count('simple:fragments=%d' % min(nfr, 4))
                    if nfr >= 2 and judged:
                        res.count('simple:multi-fragment-judged' + ('-nonempty' if exp else ''))
        except Exception:  # noqa
            pass
        if 'leading-position' not in zones:
            # the Lean reference works on the tree: namespace / CDATA marker events are not nodes
            nodes_only = [x for x in exp if not (x[0] == 'ev' and (x[1] in ('SC', 'EC') or x[1][0] in ('NS', 'ENS')))]
            ask('xp', i, proto.line(Atom('C05'), Atom('xp'), text, wns, wvs, wev), [Atom('ok')] + nodes_only)
        # predicate values on the START events of the document
        try:
            paths = P.PathParser(text).parse()
            preds = paths[0][0][2]
        except Exception:  # noqa
            preds = []
        if preds:
            for ev_ in first_start(events)[:3]:
                try:
                    v = wire_val(preds[0](ev_[0], ev_[1], ev_[2], ns, vs))
                except Exception as e:  # noqa
                    v = [Atom('err'), Atom(exc_name(e))]
                ask('pred', i, proto.line(Atom('C05'), Atom('pred'), text, wns, wvs, evwire.ev(ev_)), v)
    answers = proto.run_lines(lines)
    for (tag, i, real), ans in zip(plan, answers):
        if ans in ('unmodelled', 'unsupported'):
            res.count('model:%s:%s' % (ans, tag))
            continue
        try:
            model = proto.dec(ans)
        except Exception:  # noqa
            model = Atom(ans)
        name = stream_prefix + tag
        res.streams[name] = res.streams.get(name, 0) + 1
        if model != real:
            res.disagreements.append({'stream': name, 'case': cases[i], 'model': repr(model)[:600],
                                      'real': repr(real)[:600]})


def check_model_only(cases, res):
    """model vs code on inputs the oracle does not judge (malformed / accepted-though-outside
    expressions): parse and select must still agree, error classes included"""
    lines, plan = [], []
    for i, case in enumerate(cases):
        text = case['path']
        events = G.doc_events(case['doc'])
        wev = evwire.stream(events)
        res.evaluations += 1
        res.count('model-only')
        lines.append(proto.line(Atom('C05'), Atom('parse'), text))
        plan.append(('parse', i, real_parse(text)))
        got = real_select(events, text, G.NSMAP, G.VARS)
        real_sel = [Atom('ok')] + got[1] if got[0] == 'ok' else [Atom('err'), Atom(got[1])]
        lines.append(proto.line(Atom('C05'), Atom('run'), text, wire_ns(G.NSMAP), wire_vars(G.VARS), wev))
        plan.append(('select', i, real_sel))
    for (tag, i, real), ans in zip(plan, proto.run_lines(lines)):
        if ans in ('unmodelled', 'unsupported'):
            res.count('model:%s:%s' % (ans, tag))
            continue
        try:
            model = proto.dec(ans)
        except Exception:  # noqa
            model = Atom(ans)
        name = 'malformed-' + tag
        res.streams[name] = res.streams.get(name, 0) + 1
        if real[0] == 'err':
            res.count('error:' + str(real[1]))
        if model != real:
            res.disagreements.append({'stream': name, 'case': cases[i], 'model': repr(model)[:600],
                                      'real': repr(real)[:600]})



# --------------------------------------------------------------------------
# the printer (lean/Genshi/Model/PathPrint.lean) and the tokenizer: printed text vs the real parser

PRINT_ATOMS = ['@n', '@m', '@x:n', '@*', '@x:*', 'b', 'x:b', 'x:*', '*', '$s', '$n', '"abc"', "'a b'", '""', '"it\'s"',
               "'say \"hi\"'", 'a*b', '-1', 'b-c', '@a*', '1', '2', '02', '1.50', '.5', '0.05', '10', 'true()', 'false()', 'name()', 'local-name()',
               'namespace-uri()']
PRINT_FN = [('boolean', 1), ('ceiling', 1), ('floor', 1), ('normalize-space', 1), ('not', 1), ('number', 1),
            ('round', 1), ('string-length', 1), ('contains', 2), ('starts-with', 2), ('substring-after', 2),
            ('substring-before', 2), ('substring', 2), ('substring', 3), ('matches', 2), ('translate', 3),
            ('concat', 1), ('concat', 2), ('concat', 3), ('concat', 4), ('concat', 5)]
PRINT_OPS = ['or', 'and', '=', '!=', '<', '<=', '>', '>=']
PRINT_STEPS = ['a', 'child::a', '//a', 'descendant::b', './/*', 'a/b', 'text()', 'processing-instruction("php")',
               "processing-instruction('py')", 'processing-instruction()', 'comment()', 'node()', 'x:a', 'x:*', '*',
               'self::a', 'descendant-or-self::a', '.', 'a//b', './a', 'attribute::n', '@n']


def rand_print_expr(rng, depth):
    """predicate expressions that stress the printer: operators of every level nested to the left and to the right,
    with and without (redundant or needed) parentheses, calls of every arity, literals of both quote kinds, numbers"""
    r = rng.random()
    if depth <= 0 or r < 0.25:
        return rng.choice(PRINT_ATOMS)
    if r < 0.7:
        op = rng.choice(PRINT_OPS)
        l, rr = rand_print_expr(rng, depth - 1), rand_print_expr(rng, depth - 1)
        if rng.random() < 0.3:
            l = '(%s)' % l
        if rng.random() < 0.3:
            rr = '(%s)' % rr
        sp = rng.choice([' ', ' ', '  ']) if op in ('or', 'and') else rng.choice(['', ' '])
        return '%s%s%s%s%s' % (l, sp, op, sp, rr)
    if r < 0.78:
        return '(%s)' % rand_print_expr(rng, depth - 1)
    f, n = rng.choice(PRINT_FN)
    return '%s(%s)' % (f, rng.choice([',', ', ', ' , ']).join(rand_print_expr(rng, depth - 1) for _ in range(n)))


def rand_print_text(rng):
    r = rng.random()
    if r < 0.35:
        return G.rand_path(rng, rng.choice([G.FULL, G.FULL, G.STRUCT, G.SIMPLE, G.TYPED]))
    ops = []
    for _ in range(rng.choice([1, 1, 1, 2, 3])):
        st = rng.choice(PRINT_STEPS)
        if not st.endswith('n') or st in ('a',):
            for _ in range(rng.choice([1, 1, 2, 0])):
                st += '[%s]' % rand_print_expr(rng, rng.choice([1, 2, 2, 3]))
        if rng.random() < 0.3:
            st += rng.choice(['/b', '//b[1]', '/@n', '/text()', '/x:*[@n]'])
        ops.append(st)
    return rng.choice(['|', ' | ']).join(ops)


MUT_CHARS = '[]()@/|,=<>!$:.*"\' \t\nab1-'


def mutate_text(rng, t):
    k = rng.randrange(7)
    if not t:
        return rng.choice(MUT_CHARS)
    i = rng.randrange(len(t))
    if k == 0:
        return t[:i] + t[i + 1:]
    if k == 1:
        return t[:i] + rng.choice(MUT_CHARS) + t[i:]
    if k == 2:
        return t[:i] + t[i] + t[i:]
    if k == 3 and i + 1 < len(t):
        return t[:i] + t[i + 1] + t[i] + t[i + 2:]
    if k == 4:
        return t.replace(' ', '')
    if k == 5:
        j = t.find(' ', i)
        return t if j < 0 else t[:j] + t[j + 1:]
    return t[:i] + rng.choice(MUT_CHARS) + t[i + 1:]


def real_tokens(text):
    from genshi import path as P
    try:
        return list(P.PathParser(text).tokens)
    except Exception as e:  # noqa
        return [Atom('err'), Atom(exc_name(e))]


def check_print(texts, rng, res):
    """streams `print` / `printa` (unabbreviated / abbreviated steps): the model parses `text`, prints the AST
    (`Print.printPaths` / `Print.printPathsA`), and the REAL parser must read the
    printed text as the AST it reads from `text` (= the model's); `print-tokens`: the real tokenizer on the printed
    text gives the printer's token list; `print-tokens-mutated` / `print-parse-mutated`: tokenizer and parser, model
    vs code, on damaged printed texts."""
    mlines, mplan = [], []
    jobs = [(verb, t) for t in texts for verb in ('print', 'printa')]
    answers = proto.run_lines([proto.line(Atom('C05'), Atom(verb), t) for verb, t in jobs])
    for (verb, text), ans in zip(jobs, answers):
        res.evaluations += 1
        case = {'path': text, 'stream': verb}
        if ans == 'unmodelled':
            res.count(verb + ':unmodelled')
            continue
        try:
            m = proto.dec(ans)
        except Exception:  # noqa
            res.disagreements.append({'stream': verb, 'case': case, 'model': ans[:300], 'real': 'undecodable'})
            continue
        if m[0] != 'ok':
            res.count(verb + ':' + str(m[0]))
            if m[0] == 'unprintable' and verb == 'print':
                for mark, why in (('text()', 'node-type'), ('comment()', 'node-type'), ('node()', 'node-type'),
                                  ('processing-instruction', 'node-type'), ('[.', 'dot'), ('-', 'minus'),
                                  ('matches(', 'matches')):
                    if mark in text:
                        res.count('print:unprintable:' + why)
                        break
                else:
                    res.count('print:unprintable:other')
            continue
        printed, toks, back, same = m[1], m[2], m[3], m[4]
        case['printed'] = printed
        res.count(verb + ':ok')
        res.streams[verb] = res.streams.get(verb, 0) + 1
        if verb == 'printa':
            res.count('printa:abbreviated' if '::' not in printed else 'printa:has-explicit-axis')
        if '( ' in printed:
            res.count('print:has-paren')
        res.count('print:preds=%d' % min(printed.count('['), 4))
        for mark, name in (('|', 'union'), ('"', 'string'), ("'", 'string'), (' or ', 'or'), (' and ', 'and'),
                           (' , ', 'multi-arg-call')):
            if mark in printed:
                res.count('print:' + name)
        if any(ch.isdigit() for ch in printed):
            res.count('print:number')
        real_orig, real_back = real_parse(text), real_parse(printed)
        if str(same) != 'T':
            res.disagreements.append({'stream': verb, 'case': case, 'model': 'round trip in the model: ' + repr(back)[:400],
                                      'real': repr(real_orig)[:400]})
        elif real_back != real_orig or real_back != back:
            res.disagreements.append({'stream': verb, 'case': case, 'model': repr(back)[:500],
                                      'real': repr(real_back)[:300] + ' <- printed | original -> ' + repr(real_orig)[:300]})
        else:
            res.nontrivial.add(verb + '|' + path_shape(printed))
        rt = real_tokens(printed)
        res.streams[verb + '-tokens'] = res.streams.get(verb + '-tokens', 0) + 1
        if rt != toks:
            res.disagreements.append({'stream': verb + '-tokens', 'case': case, 'model': repr(toks)[:500], 'real': repr(rt)[:500]})
        for _ in range(2):
            mt = mutate_text(rng, printed)
            if any(ord(c) > 127 for c in mt):
                continue
            mlines.append(proto.line(Atom('C05'), Atom('tokens'), mt))
            mplan.append(('print-tokens-mutated', mt, real_tokens(mt)))
            mlines.append(proto.line(Atom('C05'), Atom('parse'), mt))
            mplan.append(('print-parse-mutated', mt, real_parse(mt)))
    for (name, mt, real), ans in zip(mplan, proto.run_lines(mlines)):
        if ans in ('unmodelled', 'unsupported'):
            res.count('model:%s:%s' % (ans, name))
            continue
        try:
            model = proto.dec(ans)
        except Exception:  # noqa
            model = Atom(ans)
        res.streams[name] = res.streams.get(name, 0) + 1
        if name == 'print-parse-mutated' and real[0] == 'err':
            res.count('print-mutated-error:' + str(real[1]))
        if model != real:
            res.disagreements.append({'stream': name, 'case': {'path': mt, 'stream': name}, 'model': repr(model)[:500],
                                      'real': repr(real)[:500]})


def shard(arg):
    import random
    seed, idx, n = arg
    rng = random.Random('%s/%s/C05' % (seed, idx))
    res = Result()
    cases = [gen_case(rng) for _ in range(n)]
    for text, why in G.OUTSIDE[idx::16]:
        cases.append({'kind': 'reject', 'path': text, 'why': why})
    # accepted-though-outside expressions and malformed ones: model vs code only
    extra = [{'doc': G.rand_doc(rng, 6), 'path': t} for t, _ in G.OUTSIDE_ACCEPTED[idx::16]]
    for _ in range(max(1, n // 50)):
        t = G.rand_path(rng, G.FULL)
        cut = rng.randrange(0, len(t) + 1)
        extra.append({'doc': G.rand_doc(rng, 4), 'path': rng.choice([t[:cut], t[cut:], t[:cut] + rng.choice('[]()@/|,=<>!$:.*') + t[cut:]])})
    check_model_only(extra, res)
    check_cases(cases, res)
    prng = random.Random('%s/%s/C05/print' % (seed, idx))
    check_print([rand_print_text(prng) for _ in range(max(40, n // 6))], prng, res)
    res.samples = [{'doc': G.doc_xml(c['doc']), 'path': c['path']} for c in cases[:2] if 'doc' in c]
    return res


STEP_TESTS = ['a', 'b', '*', 'text()', 'node()', 'x:a']
STEP_AXES = ['child', 'descendant', 'descendant-or-self', 'self']


def exhaustive_shard(arg):
    """every tree shape with <= maxn elements (a few labelings each) x every 1- and 2-step
    structural path over the axis / node test basis"""
    import random
    seed, idx, nshards, maxn, labelings = arg
    rng = random.Random('%s/ex/C05' % seed)
    docs = []
    for n in range(1, maxn + 1):
        for shape in G.all_shapes(n):
            for _ in range(labelings):
                docs.append(G.label_shape(shape, rng))
    steps = ['%s::%s' % (a, t) for a in STEP_AXES for t in STEP_TESTS]
    paths = list(steps) + ['%s/%s' % (a, b) for a in steps for b in steps] + \
        ['%s[%d]' % (s, k) for s in steps for k in (1, 2)] + ['%s/@n' % s for s in steps]
    res = Result()
    cases = []
    k = 0
    for d in docs:
        for p in paths:
            if k % nshards == idx:
                cases.append({'doc': d, 'path': p})
            k += 1
    for i in range(0, len(cases), 2000):
        check_cases(cases[i:i + 2000], res, 'ex-')
    res.count('exhaustive-pairs', len(cases))
    return res


def run(ctx):
    nsh = 16
    per = ctx.n(3500, 72000)
    res = Result()
    for r in pmap('harness.props.c05', 'shard', [(ctx.seed, i, per) for i in range(nsh)]):
        res.merge(r)
    maxn, lab = ctx.n(3, 5), ctx.n(2, 6)
    for r in pmap('harness.props.c05', 'exhaustive_shard', [(ctx.seed, i, nsh, maxn, lab) for i in range(nsh)]):
        res.merge(r)
    res.rule = ('(document, path) pairs: random trees of 3-12 nodes over 3 names x 3 namespaces with numeric/string '
                'attributes, text/comment/PI nodes, chains of repeated names; paths from the grammar of the documented '
                'subset (<= 4 steps, <= 2 predicates per step, unions), 70%% aimed at a node of the document; plus every '
                'tree shape with <= %d elements x every 1-2 step structural path. non-trivial = judged by the oracle and '
                'the result is neither empty nor the whole document; distinct by (path shape, document shape)' % maxn)
    res.samples = res.samples[:6]
    return res


def search(ctx, res, broken):
    found = []
    for d in res.disagreements[:300]:
        try:
            f, info = oracle_case(d['case'])
        except Exception:  # noqa
            continue
        if f and not (info.get('zones', set()) & SKIP_ZONES):
            found.append(f)
    if found:
        return found
    for r in pmap('harness.props.c05', 'shard', [(ctx.seed + 1000 + i, i, 4000) for i in range(16)]):
        found.extend(r.failures)
    return found


def _listed_inputs():
    from harness.framework import load_findings, canon
    return {canon(e['input']) for e in load_findings(PROP) if 'input' in e}


def doc_valid(t):
    """documents the generator can produce: non-empty XML names, string attribute values / text"""
    import re
    name = re.compile(r'^[A-Za-z_][A-Za-z0-9_.-]*$')
    def ok(n):
        if not isinstance(n, dict):
            return False
        if 'e' in n:
            e = n['e']
            if not (isinstance(e, list) and len(e) == 2 and isinstance(e[0], str) and isinstance(e[1], str) and name.match(e[1])):
                return False
            seen = set()
            for a in n.get('a', []):
                if not (isinstance(a, list) and len(a) == 3 and all(isinstance(x, str) for x in a) and name.match(a[1])):
                    return False
                if (a[0], a[1]) in seen:
                    return False
                seen.add((a[0], a[1]))
            ks = n.get('k', [])
            if any('t' in a and 't' in b for a, b in zip(ks, ks[1:])):
                return False      # adjacent text nodes are one text node in XPath's data model
            return all(ok(k) for k in ks)
        if 't' in n:
            return isinstance(n['t'], str) and n['t'] != ''
        if 'c' in n:
            return isinstance(n['c'], str)
        if 'p' in n:
            return isinstance(n['p'], list) and len(n['p']) == 2 and bool(name.match(n['p'][0] or ''))
        return False
    try:
        return 'e' in t and ok(t)
    except Exception:  # noqa
        return False


def replay(ctx, case):
    """the oracle on one case. A case that is not a recorded input is judged only inside the oracle's domain (a
    document the generator can produce, outside the zones of the listed findings) - the shrinker must not walk a
    failing input of a changed tree into a zone where the unchanged tree fails too."""
    if isinstance(case.get('doc'), str):
        raise ValueError('doc must be a tree')
    from harness.framework import canon
    if 'doc' not in case and case.get('kind') != 'reject':
        return None       # a case of a correspondence-only stream (print, tokens): no oracle to replay
    listed = canon(case) in _listed_inputs()
    if not listed and 'doc' in case and not doc_valid(case['doc']):
        return None
    f, info = oracle_case(case)
    if f and not listed and (info.get('zones', set()) & SKIP_ZONES):
        return None
    return f

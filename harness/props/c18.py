"""C18 — safe strings and attribute lists: three-way correspondence (C extension built from
the current _speedups.c, pure-Python class from the current core.py, Lean model through gdrv)
and the algebraic laws evaluated on the real classes."""
import json
from harness import proto, stage, c18_wide
from harness.framework import Result, pmap
from harness.proto import Atom, B

PROP = 'C18'
TRUSTED = [
    'modelled, not verified: genshi/core.py Markup/Attrs, genshi/_speedups.c escape (hand-written Lean model tied by three-way correspondence)',
    'not modelled: CPython str.replace / % formatting / str.join (their fragments are re-implemented in Lean), PyUnicode_AsUTF8AndSize (utf8 is re-implemented and compared on every scalar)',
    'strings with lone surrogates are outside Lean Char (known finding C18-surrogate)',
    'wave 4, modelled not verified: Markup.escape/+/*/join/%/repr/unescape/stripentities/striptags in BOTH implementations, genshi.util striptags/plaintext/stripentities(keepxmlentities), Attrs accessors, QName, Namespace (Genshi.MarkupOps, stream markup-wide, one request per implementation, result types included)',
    'only exercised: pickle, copy, hash, re (the regular expressions of util.py are hand-written list scanners; \\w \\d classes from the generated tables of C06)',
]
ASSUMPTIONS = [
    'operands are str, Markup or objects with __html__ (non-string operands: known finding C18-nonstring)',
    '% formatting fragment: %s %r %d %% and %(k)s %(k)r %(k)d with a single value, a tuple or a mapping (flags, widths, other conversions: answered unmodelled and counted)',
    'laws are stated for string operands (str, str subclass, Markup, Markup subclass, __html__ object); None and ints are modelled per implementation and tied only',
    'repr is modelled for ASCII text; slices for step 1',
]

ALPHA = ['&', '<', '>', '"', "'", ';', '#', '3', '4', 'a', 'm', 'p', 'l', 't', 'g', 'q', 'u', 'o',
         'é', '\U0001F600', '\x00', '\n', ' ', '%', 's', '(', ')', 'k']
FRAGS = ['&amp;', '&lt;', '&gt;', '&#34;', '&quot;', '&amp;amp;', '&amp;lt;', '&#', '&l', 't;', '&amp', ';', '&&', '<<>>']
CRIT = ['&', '<', '>', '"', ';', 'a', '#', 'l']


def spec_escape(s, q=True):
    """independent statement of the property: exactly & < > (and ") become entities"""
    m = {'&': '&amp;', '<': '&lt;', '>': '&gt;'}
    if q:
        m['"'] = '&#34;'
    return ''.join(m.get(c, c) for c in s)


def rand_text(rng, maxlen=12):
    n = rng.randrange(0, maxlen)
    out = []
    for _ in range(n):
        r = rng.random()
        if r < 0.2:
            out.append(rng.choice(FRAGS))
        elif r < 0.9:
            out.append(rng.choice(ALPHA))
        else:
            out.append(chr(rng.choice([rng.randrange(0x20, 0x7f), rng.randrange(0xa0, 0xd7ff),
                                       rng.randrange(0xe000, 0xffff), rng.randrange(0x10000, 0x10ffff)])))
    return ''.join(out)


class Html(object):
    def __init__(self, s):
        self.s = s

    def __html__(self):
        return self.s


def mk_opnd(impl, o):
    """('p'|'m'|'h', text) -> python operand for implementation impl (a Markup class)"""
    k, s = o
    if k == 'p':
        return s
    if k == 'm':
        return impl(s)
    return Html(s)


def wire_opnd(o):
    return [Atom(o[0]), o[1]]


def once(o, q=True):
    return spec_escape(o[1], q) if o[0] == 'p' else o[1]


def rand_opnd(rng):
    return (rng.choice('ppmh'), rand_text(rng, 8))


def rand_fmt(rng):
    """format strings mostly inside the modelled fragment"""
    parts = []
    nargs = 0
    keys = []
    mode = rng.choice(['pos', 'pos', 'map', 'none'])
    for _ in range(rng.randrange(0, 5)):
        r = rng.random()
        if r < 0.4:
            parts.append(rand_text(rng, 4).replace('%', ''))
        elif r < 0.5:
            parts.append('%%')
        elif mode == 'pos':
            parts.append('%s')
            nargs += 1
        elif mode == 'map':
            k = rng.choice(['k', 'a', 'key', 'é'])
            keys.append(k)
            parts.append('%%(%s)s' % k)
    return ''.join(parts), mode, nargs, keys


def impls():
    import genshi.core
    py = stage.load_py_core()
    return {'c': genshi.core.Markup, 'py': py.Markup}, {'c': genshi.core, 'py': py}


def outcome(fn):
    try:
        r = fn()
        return ('ok', type(r).__name__, str(r))
    except Exception as e:  # noqa
        return ('err', type(e).__name__)


# --------------------------------------------------------------------------
# the laws on the real classes (property oracle); returns a failure dict or None

def oracle_case(case, M=None):
    if M is None:
        M, _ = impls()
    kind = case['kind']
    fails = []

    def bad(what, expected, observed):
        fails.append({'case': case, 'what': what, 'expected': expected, 'observed': observed})

    if kind == 'esc':
        s, q = case['s'], case['q']
        outs = {}
        for name, cls in M.items():
            outs[name] = outcome(lambda: cls.escape(s, quotes=q))
        exp = ('ok', 'Markup', spec_escape(s, q))
        for name, o in outs.items():
            if o != exp:
                bad('escape[%s] changes exactly & < > (") and returns Markup' % name, exp, o)
        if outs['c'] != outs['py']:
            bad('C and Python escape agree', outs['py'], outs['c'])
        for name, cls in M.items():
            o = outcome(lambda: cls(spec_escape(s, q)).unescape())
            if o != ('ok', 'str', s):
                bad('unescape[%s] inverts escape' % name, ('ok', 'str', s), o)
            o = outcome(lambda: cls.escape(cls(s), quotes=q))
            if o != ('ok', 'Markup', s):
                bad('escape[%s] leaves safe strings untouched' % name, ('ok', 'Markup', s), o)
    elif kind == 'unesc':
        s = case['s']
        a = outcome(lambda: M['c'](s).unescape())
        b = outcome(lambda: M['py'](s).unescape())
        if a != b:
            bad('C and Python unescape agree', b, a)
    elif kind == 'append':
        a, b_, q = case['a'], case['b'], case['q']
        for name, cls in M.items():
            l = outcome(lambda: cls.escape(a + b_, quotes=q))
            r = outcome(lambda: cls.escape(a, quotes=q) + cls.escape(b_, quotes=q))
            if l != r:
                bad('escape[%s] distributes over concatenation' % name, r, l)
    elif kind == 'op':
        op = case['op']
        res = {}
        for name, cls in M.items():
            self_ = cls(case['self'])
            if op == 'add':
                o = tuple(case['arg'])
                res[name] = outcome(lambda: self_ + mk_opnd(cls, o))
                exp = ('ok', 'Markup', case['self'] + once(o))
            elif op == 'radd':
                o = tuple(case['arg'])
                if o[0] == 'm':
                    exp = ('ok', 'Markup', o[1] + case['self'])
                    res[name] = outcome(lambda: mk_opnd(cls, o) + self_)
                else:
                    res[name] = outcome(lambda: mk_opnd(cls, o) + self_)
                    exp = ('ok', 'Markup', once(o) + case['self'])
                    if o[0] == 'h':
                        # a plain object defines no __add__: Python calls Markup.__radd__
                        pass
            elif op == 'mul':
                n = case['n']
                res[name] = outcome(lambda: self_ * n)
                exp = ('ok', 'Markup', case['self'] * n)
            elif op == 'rmul':
                n = case['n']
                res[name] = outcome(lambda: n * self_)
                exp = ('ok', 'Markup', case['self'] * n)
            elif op == 'join':
                xs = [tuple(x) for x in case['xs']]
                q = case['q']
                res[name] = outcome(lambda: self_.join([mk_opnd(cls, x) for x in xs], escape_quotes=q))
                exp = ('ok', 'Markup', case['self'].join(once(x, q) for x in xs))
            elif op == 'mod':
                mode = case['mode']
                if mode == 'one':
                    o = tuple(case['arg'])
                    res[name] = outcome(lambda: self_ % mk_opnd(cls, o))
                    exp = outcome(lambda: case['self'] % (once(o),))
                elif mode == 'tup':
                    xs = [tuple(x) for x in case['xs']]
                    res[name] = outcome(lambda: self_ % tuple(mk_opnd(cls, x) for x in xs))
                    exp = outcome(lambda: case['self'] % tuple(once(x) for x in xs))
                else:
                    kv = [(k, tuple(v)) for k, v in case['kv']]
                    res[name] = outcome(lambda: self_ % dict((k, mk_opnd(cls, v)) for k, v in kv))
                    exp = outcome(lambda: case['self'] % dict((k, once(v)) for k, v in kv))
                if exp[0] == 'ok':
                    exp = ('ok', 'Markup', exp[2])
            else:
                raise ValueError(op)
            if res[name] != exp:
                bad('%s[%s]: result is Markup with every non-safe operand escaped exactly once' % (op, name), exp, res[name])
        if res['c'] != res['py']:
            bad('C and Python agree on %s' % op, res['py'], res['c'])
    elif kind == 'attrs':
        import genshi.core
        A = genshi.core.Attrs
        self_ = A([(k, v) for k, v in case['self']])
        if case['op'] == 'or':
            other = [(k, v) for k, v in case['other']]
            r = list(self_ | other)
            names = [k for k, _ in r]
            removed = set(k for k, v in other if v is None)
            lastval = dict((k, v) for k, v in other if v is not None)
            # order kept, replaced by name, None dropped, new ones appended in order
            exp = [(k, lastval.get(k, v)) for k, v in case['self'] if k not in removed]
            seen = set(k for k, _ in case['self'])
            new = {}
            for k, v in other:
                if v is not None and k not in seen and k not in removed:
                    new[k] = v       # first position, last value
            exp += list(new.items())
            if [tuple(x) for x in r] != [tuple(x) for x in exp]:
                bad('Attrs | keeps order, replaces by name, drops None, appends new names once', exp, r)
            if len(set(n for n, _ in case['self'])) == len(case['self']) and len(set(names)) != len(names):
                bad('Attrs | never holds duplicates', 'distinct names', names)
        else:
            names = case['names']
            r = list(self_ - names)
            exp = [(k, v) for k, v in case['self'] if k not in names]
            if [tuple(x) for x in r] != [tuple(x) for x in exp]:
                bad('Attrs - removes exactly the named attributes', exp, r)
    elif kind == 'raw':
        # known-finding replays: operands outside the modelled domain
        expr = case['expr']
        env = {}
        outs = {}
        for name, cls in M.items():
            outs[name] = outcome(lambda: eval(expr, {'Markup': cls, 'escape': cls.escape}))
        if outs['c'] != outs['py']:
            bad('C and Python agree', outs['py'], outs['c'])
        if 'expect' in case and outs['py'] != tuple(case['expect']):
            bad('documented result', case['expect'], outs['py'])
    else:
        raise ValueError(kind)
    return fails[0] if fails else None


# --------------------------------------------------------------------------
# correspondence with the Lean model

def model_line(case):
    """wire request for a case, or None when the case has no model counterpart"""
    k = case['kind']
    if k == 'esc':
        return [proto.line(Atom('C18'), Atom('esc'), Atom('py'), B(case['q']), case['s']),
                proto.line(Atom('C18'), Atom('esc'), Atom('c'), B(case['q']), case['s']),
                proto.line(Atom('C18'), Atom('unesc'), spec_escape(case['s'], case['q']))]
    if k == 'unesc':
        return [proto.line(Atom('C18'), Atom('unesc'), case['s'])]
    if k == 'op':
        op = case['op']
        if op in ('add', 'radd'):
            return [proto.line(Atom('C18'), Atom(op), case['self'], wire_opnd(case['arg']))]
        if op in ('mul', 'rmul'):
            if case['n'] < 0:
                return None
            return [proto.line(Atom('C18'), Atom('mul'), case['self'], case['n'])]
        if op == 'join':
            return [proto.line(Atom('C18'), Atom('join'), case['self'], B(case['q']), [wire_opnd(x) for x in case['xs']])]
        if op == 'mod':
            if case['mode'] == 'one':
                a = [Atom('one'), wire_opnd(case['arg'])]
            elif case['mode'] == 'tup':
                a = [Atom('tup')] + [wire_opnd(x) for x in case['xs']]
            else:
                a = [Atom('map')] + [[k_, wire_opnd(v)] for k_, v in case['kv']]
            return [proto.line(Atom('C18'), Atom('mod'), case['self'], a)]
    if k == 'attrs':
        if case['op'] == 'or':
            return [proto.line(Atom('C18'), Atom('attrs_or'), [[a, b] for a, b in case['self']],
                               [[a, b] for a, b in case['other']])]
        return [proto.line(Atom('C18'), Atom('attrs_sub'), [[a, b] for a, b in case['self']], list(case['names']))]
    return None


def real_answers(case, M):
    """what the real code gives, in the model's output vocabulary (list parallel to model_line)"""
    k = case['kind']
    if k == 'esc':
        py = outcome(lambda: M['py'].escape(case['s'], quotes=case['q']))
        c = outcome(lambda: M['c'].escape(case['s'], quotes=case['q']))
        a = py[2] if py[0] == 'ok' else Atom('err')
        if c[0] == 'ok':
            bs = c[2].encode('utf-8')
            b = [Atom('b' + bs.hex()), Atom(str(len(bs)))]
        else:
            b = Atom('err')
        u = outcome(lambda: M['py'](spec_escape(case['s'], case['q'])).unescape())
        return [a, b, u[2] if u[0] == 'ok' else Atom('err')]
    if k == 'unesc':
        r = outcome(lambda: M['py'](case['s']).unescape())
        return [r[2] if r[0] == 'ok' else Atom('err')]
    if k == 'op':
        cls = M['py']
        self_ = cls(case['self'])
        op = case['op']
        if op == 'add':
            r = outcome(lambda: self_ + mk_opnd(cls, tuple(case['arg'])))
        elif op == 'radd':
            r = outcome(lambda: mk_opnd(cls, tuple(case['arg'])) + self_)
        elif op == 'mul':
            r = outcome(lambda: self_ * case['n'])
        elif op == 'rmul':
            r = outcome(lambda: case['n'] * self_)
        elif op == 'join':
            r = outcome(lambda: self_.join([mk_opnd(cls, tuple(x)) for x in case['xs']], escape_quotes=case['q']))
        elif op == 'mod':
            if case['mode'] == 'one':
                r = outcome(lambda: self_ % mk_opnd(cls, tuple(case['arg'])))
            elif case['mode'] == 'tup':
                r = outcome(lambda: self_ % tuple(mk_opnd(cls, tuple(x)) for x in case['xs']))
            else:
                r = outcome(lambda: self_ % dict((k_, mk_opnd(cls, tuple(v))) for k_, v in case['kv']))
            if r[0] == 'ok':
                return [[Atom('ok'), r[2]]]
            return [[Atom('err'), Atom(r[1])]]
        return [r[2] if r[0] == 'ok' else Atom('err')]
    if k == 'attrs':
        import genshi.core
        A = genshi.core.Attrs
        self_ = A([(a, b) for a, b in case['self']])
        if case['op'] == 'or':
            r = self_ | [(a, b) for a, b in case['other']]
        else:
            r = self_ - list(case['names'])
        return [[[a, b] for a, b in r]]
    return None


def compare(cases, M, res, stream):
    lines, idx = [], []
    for i, c in enumerate(cases):
        ls = model_line(c)
        if ls is None:
            res.count('no-model-counterpart')
            continue
        for j, l in enumerate(ls):
            lines.append(l)
            idx.append((i, j))
    answers = proto.run_lines(lines)
    cache = {}
    for (i, j), ans in zip(idx, answers):
        if ans == 'unmodelled':
            res.count('model:unmodelled')
            continue
        if i not in cache:
            cache[i] = real_answers(cases[i], M)
        real = cache[i][j]
        try:
            model = proto.dec(ans)
        except Exception:
            model = Atom(ans)
        res.streams[stream] = res.streams.get(stream, 0) + 1
        if model != real:
            res.disagreements.append({'stream': stream, 'case': cases[i], 'model': repr(model)[:400],
                                      'real': repr(real)[:400]})


# --------------------------------------------------------------------------
# generation

def gen_cases(rng, n):
    cases = []
    for _ in range(n):
        r = rng.random()
        if r < 0.30:
            cases.append({'kind': 'esc', 's': rand_text(rng), 'q': rng.random() < 0.5})
        elif r < 0.36:
            cases.append({'kind': 'unesc', 's': rand_text(rng)})
        elif r < 0.42:
            cases.append({'kind': 'append', 'a': rand_text(rng, 6), 'b': rand_text(rng, 6), 'q': rng.random() < 0.5})
        elif r < 0.85:
            op = rng.choice(['add', 'radd', 'mul', 'rmul', 'join', 'mod', 'mod', 'mod'])
            c = {'kind': 'op', 'op': op, 'self': rand_text(rng, 6)}
            if op in ('add', 'radd'):
                c['arg'] = list(rand_opnd(rng))
            elif op in ('mul', 'rmul'):
                c['n'] = rng.randrange(0, 4)
            elif op == 'join':
                c['xs'] = [list(rand_opnd(rng)) for _ in range(rng.randrange(0, 4))]
                c['q'] = rng.random() < 0.5
            else:
                fmt, mode, nargs, keys = rand_fmt(rng)
                c['self'] = fmt
                if mode == 'map' and (keys or rng.random() < 0.5):
                    c['mode'] = 'map'
                    ks = list(dict.fromkeys(keys))
                    if rng.random() < 0.1:
                        ks = ks[:-1]   # missing key, possibly the empty mapping
                    c['kv'] = [[k, list(rand_opnd(rng))] for k in ks]
                elif nargs == 1 and rng.random() < 0.6:
                    c['mode'] = 'one'
                    c['arg'] = list(rand_opnd(rng))
                else:
                    c['mode'] = 'tup'
                    n_ = nargs if rng.random() < 0.9 else nargs + rng.choice([-1, 1])
                    c['xs'] = [list(rand_opnd(rng)) for _ in range(max(0, n_))]
            cases.append(c)
        else:
            names = ['a', 'b', 'c', 'href', 'x']
            self_ = []
            for nme in rng.sample(names, rng.randrange(0, 4)):
                self_.append([nme, rand_text(rng, 3)])
            if rng.random() < 0.7:
                other = []
                for nme in [rng.choice(names) for _ in range(rng.randrange(0, 5))]:
                    other.append([nme, None if rng.random() < 0.3 else rand_text(rng, 3)])
                cases.append({'kind': 'attrs', 'op': 'or', 'self': self_, 'other': other})
            else:
                cases.append({'kind': 'attrs', 'op': 'sub', 'self': self_, 'names': rng.sample(names, rng.randrange(0, 3))})
    return cases


def nontrivial_key(case):
    k = case['kind']
    txt = json.dumps(case, sort_keys=True)
    special = any(ch in txt for ch in '&<>') or '\\"' in txt
    if not special and k != 'attrs':
        return None
    return txt


def shard(arg):
    import random
    seed, idx, n, codepoints = arg
    rng = random.Random('%s/%s/C18' % (seed, idx))
    M, mods = impls()
    res = Result()
    cases = gen_cases(rng, n)
    # every scalar code point of this shard's slice, in chunks (escape is character-wise)
    lo, hi = codepoints
    chunk = []
    for cp in range(lo, hi):
        if 0xd800 <= cp <= 0xdfff:
            continue
        chunk.append(chr(cp))
        if len(chunk) == 256:
            cases.append({'kind': 'esc', 's': ''.join(chunk), 'q': bool(cp & 256)})
            chunk = []
    if chunk:
        cases.append({'kind': 'esc', 's': ''.join(chunk), 'q': True})
    for c in cases:
        res.evaluations += 1
        res.count('kind:' + c['kind'] + (':' + c.get('op', '') if 'op' in c else ''))
        key = nontrivial_key(c)
        if key and len(key) < 400:
            res.nontrivial.add(key)
        f = oracle_case(c, M)
        if f:
            res.failures.append(f)
    compare(cases, M, res, 'markup-ops')
    res.samples = cases[:3]
    return res


def exhaustive_shard(arg):
    """all strings of length <= L over the critical alphabet through every law + the model"""
    import itertools
    idx, nshards, L = arg
    M, _ = impls()
    res = Result()
    cases = []
    i = 0
    for n in range(L + 1):
        for tup in itertools.product(CRIT, repeat=n):
            if i % nshards == idx:
                s = ''.join(tup)
                cases.append({'kind': 'esc', 's': s, 'q': True})
                cases.append({'kind': 'esc', 's': s, 'q': False})
                cases.append({'kind': 'unesc', 's': s})
            i += 1
    for c in cases:
        res.evaluations += 1
        f = oracle_case(c, M)
        if f:
            res.failures.append(f)
        res.nontrivial.add(json.dumps(c, sort_keys=True))
    compare(cases, M, res, 'exhaustive-crit')
    res.count('exhaustive-crit-strings', len(cases))
    return res


def run(ctx):
    nsh = 16
    per = ctx.n(1600, 32000)
    span = (0x110000 + nsh - 1) // nsh
    args = [(ctx.seed, i, per, (i * span, min(0x110000, (i + 1) * span))) for i in range(nsh)]
    res = Result()
    for r in pmap('harness.props.c18', 'shard', args):
        res.merge(r)
    # wave 4: the wider algebra (harness/c18_wide.py), one request per implementation
    wide = [(ctx.seed, i, ctx.n(700, 14000), ctx.n(3, 12)) for i in range(nsh)]
    for r in pmap('harness.c18_wide', 'shard', wide):
        res.merge(r)
    for r in pmap('harness.c18_wide', 'exhaustive_shard', [(i, nsh, ctx.n(6, 8), ctx.n(5, 6)) for i in range(nsh)]):
        res.merge(r)
    L = ctx.n(4, 6)
    for r in pmap('harness.props.c18', 'exhaustive_shard', [(i, nsh, L) for i in range(nsh)]):
        res.merge(r)
    res.rule = ('random strings/operands over an alphabet rich in & < > " ; # and entity fragments, all operator/operand-kind '
                'combinations, every Unicode scalar in 256-character chunks, all strings of length <= %d over %r; '
                'non-trivial = contains a character that escaping changes (or an Attrs / QName / Namespace case); distinct by canonical JSON; '
                'wave 4 (harness/c18_wide.py): every operator once per implementation with str / str-subclass / Markup / Markup-subclass / __html__ / None / int operands, '
                'tag- and entity-like fragments, long strings, a fixed edge corpus, all strings of length <= 6 (8) over %r through striptags/plaintext and <= 5 (6) over %r through stripentities'
                % (L, CRIT, c18_wide.TAGCRIT, c18_wide.ENTCRIT))
    res.samples = res.samples[:6]
    return res


def search(ctx, res, broken):
    """failing-input search: the disagreeing cases first, then a larger seeded budget"""
    M, _ = impls()
    found = []
    for d in res.disagreements[:200]:
        f = c18_wide.oracle(d['case']) if d['case'].get('kind') == 'w' else oracle_case(d['case'], M)
        if f:
            found.append(f)
    if found:
        return found
    args = [(ctx.seed + 1000 + i, i, 6000, (0, 0)) for i in range(16)]
    for r in pmap('harness.props.c18', 'shard', args):
        found.extend(r.failures)
    for r in pmap('harness.c18_wide', 'shard', [(ctx.seed + 1000 + i, i, 6000, 4) for i in range(16)]):
        found.extend(r.failures)
    return found


def replay(ctx, case):
    if case.get('kind') == 'w':
        return c18_wide.oracle(case)
    return oracle_case(case)

"""C01 — template data can never change the structure of generated markup.

Oracle on the real code: a generated template (grammar nesting every substitution site) is rendered by
the real genshi with generated context data, the output is re-parsed by an independent parser (expat
for xml/xhtml, html.parser for html) and compared with the skeleton that the generator itself derives
from the template (harness/gen_c01.py: no genshi involved), each payload verbatim.

Correspondence: the same case goes through the Lean model (gdrv): model output text == real output text,
and the model's reader applied to the real output == the independent parser's tokens.

Wave 4 (package rawtext): script/style elements hold literals with `<` / `&` and substitution sites.  Under xml / xhtml they
are ordinary elements; under html their content is raw text: the skeleton carries the strings as emitted (the documentation
the property cites: no escaping takes place there), a case whose raw content holds `</` is the property's own exception and
is not judged (gen_c01.raw_etago).  Two more correspondence streams tie `coalesceR` / `expectedListR` / `rawOkGo`
(structure_preserved_rawtext_partial, reread_rawtext_nostrip) to the generator's skeleton and to html.parser on real streams.
"""
import json, random
from harness import proto
from harness import gen_c01 as G
from harness.framework import Result, pmap
from harness.proto import Atom, B

PROP = 'C01'
TRUSTED = [
    'modelled, not verified: the substitution sites of genshi/template/base.py (_flatten, _ensure), markup.py (_interpolate_attrs), '
    'directives.py (AttrsDirective, ContentDirective, ReplaceDirective, For/With/Def bodies), builder.py (Fragment.append/_generate), '
    'the START/END/TEXT path of the three serializers incl. EmptyTagFilter and WhitespaceFilter (hand-written Lean model, tied by exact '
    'comparison of the output text on generated templates)',
    'not modelled: the XML template parser, expression evaluation (cases carry the values the expressions evaluate to), namespaces, '
    'comments/PIs/CDATA/doctype events (the serializer event cache is modelled for START/END/TEXT/EMPTY: serToksC, cache_unobservable)',
    'expat and html.parser are the independent readers of the oracle; the Lean reader is compared with them on every real output',
    'CPython str() of numbers / objects and str.strip() (the whitespace class is regenerated into Gen/Subst.lean)',
]
ASSUMPTIONS = [
    'attribute and element *names* are XML Names fixed by the template (py:attrs keys are written unescaped: names are not values)',
    'payload characters under xml/xhtml are XML 1.0 Chars without CR (finding C01-xml-unrepresentable); attribute payloads under xml/xhtml '
    'carry no TAB/LF (XML attribute-value normalisation, finding C01-attr-ws-xml)',
    'strip_whitespace=True: text is compared after the documented whitespace normalisation (trailing blanks before a newline, runs of newlines)',
    'script/style elements hold literal text (with < and &, never </) and substitution sites ${v}: under xml/xhtml they are ordinary elements (judged as everywhere); under html the content is raw text — judged against the strings as emitted when the content holds no </, not judged (the exception the property states) when it does; no xml:space',
    'operands of Markup operators are str, Markup or objects with __html__ (domain of C18); boolean attributes and prefixed attribute names are not generated',
]

METHODS = ['xml', 'xhtml', 'html']


# --------------------------------------------------------------------------
# the real code

def render_case(case):
    from genshi.core import Markup, escape
    from genshi.builder import tag
    from genshi.template import MarkupTemplate
    data = G.materialise_data(case['data'], Markup)
    data.update({'Markup': Markup, 'tag': tag, 'escape': escape})
    if case['mode'] == 'builder':
        obj = eval(G.expr_src(case['expr']), {'__builtins__': {}}, data)
        if case['method'] == 'xml' and case['strip']:
            return str(obj)
        return obj.generate().render(case['method'], strip_whitespace=case['strip'], encoding=None)
    tmpl = MarkupTemplate(G.template_src(case))
    return tmpl.generate(**data).render(case['method'], strip_whitespace=case['strip'], encoding=None)


# --------------------------------------------------------------------------
# independent re-parse

def reparse_xml(text):
    from xml.parsers import expat
    toks = []
    p = expat.ParserCreate()
    p.buffer_text = True
    p.StartElementHandler = lambda n, a: toks.append(['S', n, dict(a)])
    p.EndElementHandler = lambda n: toks.append(['E', n])
    p.CharacterDataHandler = lambda d: toks.append(['T', d])
    p.CommentHandler = lambda d: toks.append(['COMMENT', d])
    p.ProcessingInstructionHandler = lambda t, d: toks.append(['PI', t, d])
    p.StartCdataSectionHandler = lambda: toks.append(['CDATA'])
    p.StartDoctypeDeclHandler = lambda *a: toks.append(['DOCTYPE'])
    p.Parse(text, True)
    return toks


def reparse_html(text):
    from html.parser import HTMLParser
    toks = []

    class P(HTMLParser):
        def handle_starttag(self, tag, attrs):
            toks.append(['S', tag, dict((k, '' if v is None else v) for k, v in attrs)])
            if len(set(k for k, _ in attrs)) != len(attrs):
                toks.append(['DUPATTR', tag])
            if tag in G.VOID:
                toks.append(['E', tag])

        def handle_startendtag(self, tag, attrs):
            toks.append(['S', tag, dict((k, '' if v is None else v) for k, v in attrs)])
            toks.append(['E', tag])

        def handle_endtag(self, tag):
            toks.append(['E', tag])

        def handle_data(self, d):
            toks.append(['T', d])

        def handle_comment(self, d):
            toks.append(['COMMENT', d])

        def handle_decl(self, d):
            toks.append(['DECL', d])

        def handle_pi(self, d):
            toks.append(['PI', d])

        def unknown_decl(self, d):
            toks.append(['CDATA', d])
    p = P(convert_charrefs=True)
    p.feed(text)
    p.close()
    return toks


def reparse(text, method):
    return reparse_html(text) if method == 'html' else reparse_xml(text)


def wellnested(toks):
    st = []
    for t in toks:
        if t[0] == 'S':
            st.append(t[1])
        elif t[0] == 'E':
            if not st or st.pop() != t[1]:
                return False
    return not st


# --------------------------------------------------------------------------
# the oracle

def oracle_case(case):
    """None when the property holds on this case, else a failure dict"""
    def bad(what, expected, observed):
        return {'case': case, 'what': what, 'expected': expected, 'observed': observed}
    try:
        G.validate(case)
    except Exception:
        # not a case of the grammar (a shrinking step, a hand-written replay): the oracle does not judge it
        return None
    if G.raw_etago(case):
        # html, and the content of a script/style element holds `</`: "except inside script/style elements under the html
        # method … where the documentation says no escaping takes place" — the property does not constrain this case
        return None
    exp = G.Spec(case).expected()      # a valid case always has a skeleton: an exception here is a harness defect
    want0 = G.coalesce(G.first_choice(exp), case['strip'], case['method'])
    try:
        out = render_case(case)
    except Exception as e:
        return bad('rendering raised %s: %s' % (type(e).__name__, str(e)[:200]), want0, None)
    try:
        got = G.coalesce(reparse(out, case['method']))
    except Exception as e:
        return bad('the output is not well-formed for the independent parser (%s: %s)' % (type(e).__name__, str(e)[:100]),
                   want0, out[:600])
    if G.match_alts(exp, got, case['strip'], case['method']):
        return None
    what = 'element structure / payload of the re-parsed output differs from the template skeleton'
    w = want0
    shape = lambda ts: [tuple(t[:2]) for t in ts if t[0] != 'T']
    if shape(got) != shape(w):
        what = 'STRUCTURE CHANGED: ' + what
    else:
        what = 'payload not recovered verbatim: ' + what
    return bad(what, w, {'tokens': got, 'output': out[:600]})


# --------------------------------------------------------------------------
# model correspondence (filled in by the Lean side: harness/c01_wire.py)

def compare_with_model(cases, outs, res, streams=(0, 1, 2, 3)):
    try:
        from harness import c01_wire
    except ImportError:
        res.count('model:absent', len(cases))
        return
    c01_wire.compare(cases, outs, res, reparse, streams)


# --------------------------------------------------------------------------

def nontrivial_key(case):
    txt = json.dumps(case['data'], sort_keys=True)
    special = any(ch in txt for ch in '&<>') or '\\"' in txt
    if not special:
        return None
    body = json.dumps(case.get('tmpl') or case.get('expr'), sort_keys=True)
    return '%s/%s/%s/%s' % (case['method'], case['strip'], hash_str(body), hash_str(txt))


def hash_str(s):
    import hashlib
    return hashlib.sha1(s.encode('utf-8', 'surrogatepass')).hexdigest()[:12]


def count_sites(x, res):
    if isinstance(x, dict):
        if 't' in x:
            res.count('node:' + x['t'] + (':' + x['form'] if x['t'] == 'site' else ''))
            if x.get('pyattrs'):
                res.count('site:pyattrs:' + x['pyattrs']['form'])
            if x.get('content') is not None:
                res.count('site:py:content')
            if 'for' in x:
                res.count('site:py:for-attr')
        if 'k' in x and 'e' not in x and x['k'] in ('var', 'list', 'gen', 'call', 'fmt', 'fmtmap', 'add', 'radd', 'join', 'esc', 'tag', 'frag'):
            res.count('expr:' + x['k'])
        if 'parts' in x:
            res.count('site:attr:%d-part' % len(x['parts']))
        for v in x.values():
            count_sites(v, res)
    elif isinstance(x, list):
        for v in x:
            count_sites(v, res)


def shard(arg):
    seed, idx, n, impl = arg
    rng = random.Random('%s/%s/%s/C01' % (seed, idx, impl))
    res = Result()
    cases, outs = [], []
    for i in range(n):
        method = METHODS[i % 3]
        strip = bool((i // 3) % 2)
        case = G.gen_case(rng, method, strip, impl)
        cases.append(case)
    for case in cases:
        res.evaluations += 1
        res.count('method:%s/strip:%s/impl:%s' % (case['method'], case['strip'], impl))
        res.count('mode:' + case['mode'])
        count_sites(case.get('tmpl') or case.get('expr'), res)
        for v in case['data'].values():
            res.count('payload:' + v['k'])
        key = nontrivial_key(case)
        if key:
            res.nontrivial.add(key)
        try:
            G.validate(case)
            count_shapes(case, res)
            f = oracle_case(case)
        except Exception as e:   # the generator left its own grammar: a harness defect, never silent
            f = {'case': case, 'what': 'generator produced a case outside its grammar: %r' % (e,), 'expected': None, 'observed': None}
        if f:
            res.failures.append(f)
            outs.append(None)
        else:
            try:
                outs.append(render_case(case))
            except Exception:
                outs.append(None)
    compare_with_model(cases, outs, res)
    res.samples = [{'source': G.template_src(c) if c['mode'] == 'template' else G.expr_src(c['expr']),
                    'method': c['method'], 'strip': c['strip'], 'output': o}
                   for c, o in list(zip(cases, outs))[:2]]
    return res


def judge_cases(cases, res, tag):
    outs = []
    for case in cases:
        res.evaluations += 1
        res.count(tag)
        key = nontrivial_key(case)
        if key:
            res.nontrivial.add(key)
        try:
            G.validate(case)
            count_shapes(case, res)
            f = oracle_case(case)
        except Exception as e:
            f = {'case': case, 'what': 'generator produced a case outside its grammar: %r' % (e,), 'expected': None, 'observed': None}
        if f:
            res.failures.append(f)
            outs.append(None)
        else:
            try:
                outs.append(render_case(case))
            except Exception:
                outs.append(None)
    compare_with_model(cases, outs, res)


def count_shapes(case, res):
    """which events the serializer serves from its per-render cache before character data, per method and
    whitespace setting (html without stripping is where the serializer's own `noescape` flag decides)"""
    where = '%s/strip:%s' % (case['method'], case['strip'])
    for sh in G.cache_shapes(G.first_choice(G.Spec(case).expected())):
        res.count('shape:' + sh)
        if sh.endswith('raw-END'):
            res.count('shape:%s:%s' % (sh, where))
    for sh in G.raw_site_shapes(case):
        res.count('shape:' + sh)


def matrix_shard(arg):
    """every substitution site x every critical payload (deterministic)"""
    method, strip, impl = arg
    res = Result()
    judge_cases(G.matrix_cases(method, strip, impl), res, 'matrix:%s/strip:%s/impl:%s' % (method, strip, impl))
    return res


def exhaustive_shard(arg):
    """all short strings over the critical alphabet at the core sites"""
    method, strip, impl, maxlen, part, nparts = arg
    res = Result()
    judge_cases(G.exhaustive_cases(method, strip, impl, maxlen, part, nparts), res,
                'exhaustive<=%d:%s/strip:%s/impl:%s' % (maxlen, method, strip, impl))
    return res


def finding_zone_shard(arg):
    """model vs code inside the zones of the recorded findings (the model is bug-compatible there): the listed
    inputs and close variants; no oracle verdict here"""
    impl = arg
    res = Result()
    cases = []
    for canon in sorted(listed_inputs()):
        c = json.loads(canon)
        for method in METHODS:
            for strip in (False, True):
                for s in (None, '', ' ', '\t', 'a\tb', 'a\r\nb', '\n', 'a \n\n b'):
                    c2 = json.loads(canon)
                    c2.update({'method': method, 'strip': strip, 'impl': impl})
                    if s is not None:
                        if c2['data']['v0'].get('k') != 's':
                            continue
                        c2['data']['v0'] = {'k': 's', 's': s}
                    cases.append(c2)
    outs = []
    for c in cases:
        res.evaluations += 1
        res.count('finding-zone-correspondence')
        try:
            outs.append(render_case(c))
        except Exception:
            outs.append(None)
    compare_with_model(cases, outs, res, streams=(0, 1))
    return res


def run(ctx):
    nsh = 12
    per = ctx.n(450, 10000)
    res = Result()
    for impl in ('c', 'py'):
        n = per if impl == 'c' else per // 3
        for r in pmap('harness.props.c01', 'shard', [(ctx.seed, i, n, impl) for i in range(nsh)], impl=impl, procs=nsh):
            res.merge(r)
    for impl in ('c', 'py'):
        args = [(m, st, impl) for m in METHODS for st in (False, True)]
        if impl == 'py' and not ctx.thorough:
            args = [('xml', True, impl), ('xhtml', False, impl), ('html', True, impl)]
        for r in pmap('harness.props.c01', 'matrix_shard', args, impl=impl, procs=6):
            res.merge(r)
        for r in pmap('harness.props.c01', 'finding_zone_shard', [impl], impl=impl, procs=1):
            res.merge(r)
    # every string of length <= L over the 8-symbol critical alphabet at the core sites
    L = ctx.n(2, 4)
    nparts = ctx.n(1, 4)
    args = [(m, st, 'c', (L if not st else min(L, 3)), part, nparts)
            for m in METHODS for st in (False, True) for part in range(nparts)]
    for r in pmap('harness.props.c01', 'exhaustive_shard', args, impl='c', procs=12):
        res.merge(r)
    res.rule = ('templates drawn from a grammar nesting every substitution site x payload kinds x 3 methods x 2 strip settings x both '
                'Markup implementations, plus the deterministic matrix of every site x every critical payload and every string of length <= 2 (quick) / 4 (thorough) over an 8-symbol critical alphabet at the core sites; non-trivial = some context value contains one of & < > "; distinct by (method, strip, template, data)')
    res.samples = res.samples[:6]
    # the smallest failing case first: the framework shrinks and reports failures[0]
    res.failures.sort(key=lambda f: (len(json.dumps(f['case'], sort_keys=True)), json.dumps(f['case'], sort_keys=True)))
    return res


def search(ctx, res, broken):
    found = []
    for d in res.disagreements[:100]:
        f = replay(ctx, d['case'])
        if f:
            found.append(f)
    if found:
        return found
    for impl in ('c', 'py'):
        for r in pmap('harness.props.c01', 'shard', [(ctx.seed + 1000 + i, i, 600, impl) for i in range(12)], impl=impl, procs=12):
            found.extend(r.failures)
    return found


_PY_POOL = [None]


def _oracle_in_worker(case):
    return oracle_case(case)


_LISTED = [None]


def listed_inputs():
    """canonical inputs of findings/C01.json (recorded findings and repaired defects)"""
    if _LISTED[0] is None:
        import os
        path = os.path.join(os.path.dirname(os.path.dirname(os.path.dirname(os.path.abspath(__file__)))), 'findings', 'C01.json')
        with open(path) as f:
            _LISTED[0] = set(json.dumps(e['input'], sort_keys=True) for e in json.load(f) if 'input' in e)
    return _LISTED[0]


def replay(ctx, case):
    """the oracle on one canonical case, under the Markup implementation the case names.  A case that is
    neither a listed input nor inside the stated domain (a shrinking step that wandered into the zone of a
    recorded finding) is not judged."""
    try:
        G.validate(case)
        if json.dumps(case, sort_keys=True) not in listed_inputs() and not G.in_stated_domain(case):
            return None
    except Exception:
        return None
    if case.get('impl', 'c') == 'py':
        import multiprocessing
        from harness import framework
        if _PY_POOL[0] is None:
            mp = multiprocessing.get_context('spawn')
            _PY_POOL[0] = mp.Pool(1, initializer=framework._init_worker, initargs=('py',))
        return _PY_POOL[0].apply(framework._call, (('harness.props.c01', '_oracle_in_worker', case),))
    return oracle_case(case)

"""C02 — XML serialisation is a right inverse of XML parsing.

Oracle on the real code (never uses the Lean model): `XML(text).render('xml',
strip_whitespace=False, encoding=e)` is re-read by an independent expat run in namespace mode
and compared with the first parse (qualified names, attribute sets, text, comments, PIs, CDATA,
declaration, doctype; prefixes and declarations ignored), for e in utf-8, ascii, latin-1, utf-16
and for unencoded output; well-formedness = expat accepts; idempotence = serialising the re-parse
gives the same text.  Builder trees (no namespace events) likewise, against the tree itself.

Correspondence: the same event streams go through `gdrv` (Lean model of EmptyTagFilter,
NamespaceFlattener, XMLSerializer, encode, and the spec-side reader) and are diffed with the real
filters' output at three observation points (flattened events, serialised text, encoded text),
and the Lean reader is diffed with expat on the serialiser's output.
"""
import json
import re
from harness import gen_xml, proto, evwire
from harness.framework import Result, pmap
from harness.proto import Atom, B

PROP = 'C02'
from harness import extract_xml as _extract_xml
ALL_ENCODINGS = list(_extract_xml.ENCODINGS)      # the translator's table: one source for oracle, correspondence, theorems
ENCODINGS = ALL_ENCODINGS[:4]                     # utf-8, ascii, latin-1, utf-16: every case is rendered in these
EXTRA_ENCODINGS = ALL_ENCODINGS[4:]               # one of these per case, in rotation (utf-32 and single-byte code pages)
TRUSTED = [
    'modelled, not verified: genshi/output.py EmptyTagFilter, NamespaceFlattener, XMLSerializer, encode(); '
    'genshi/input.py XMLParser._handle_* and _coalesce (streams cbs: made-up callback sequences on the real methods; cbs-expat: expat\'s '
    'recorded callbacks for generated documents), ET() (stream et), XML()+EmptyTagFilter as parseSource (streams reparse, reparse-source, '
    'reparse-emptytext) — hand-written Lean models tied by correspondence; positions, _build_foreign and encoding errors are not modelled',
    'not modelled, only exercised: expat/pyexpat (both as genshi\'s tokenizer and as the oracle\'s independent reader), '
    'the codecs (utf-8/16/32, ascii, latin-1, iso-8859-2/-7/-15, cp1251, cp1252, cp437, koi8-r, mac-roman) — the model sees an encoding as the '
    'predicate "representable", extracted by running every scalar value through the codec\'s encoder',
    'the spec-side reader Genshi.Xml.Reader is validated against expat on serializer output by correspondence, not proved against the XML recommendation',
    'strings with lone surrogates are outside Lean Char (and outside XML)',
]
ASSUMPTIONS = [
    'the consumer of encoded output knows the encoding out of band (the oracle decodes with the codec that encoded; '
    'the XML declaration event is echoed verbatim by the serializer whatever the output encoding)',
    'domain exclusions of the statement: no TAB/LF/CR in attribute values, no CR in text, no unencodable characters in comments/PIs/CDATA',
    'documents have no internal DTD subset (the DOCTYPE event cannot carry it); names are XML names without ":" in local parts',
    'builder trees: attribute/element local names are XML names, no attribute is literally called xmlns or xmlns:*, text children are non-empty strings',
]


def _render(stream, encoding):
    return stream.render('xml', strip_whitespace=False, encoding=encoding)


def _encodable(s, enc):
    try:
        s.encode(enc)
        return True
    except UnicodeEncodeError:
        return False


def _markup_chars(events):
    """the characters that sit in comments, PIs, CDATA sections and names (no character references there)"""
    out = []
    in_cd = False
    for e in events:
        k = e[0]
        if k == 'SC':
            in_cd = True
        elif k == 'EC':
            in_cd = False
        elif k == 'T' and in_cd:
            out.append(e[1])
        elif k == 'C':
            out.append(e[1])
        elif k == 'PI':
            out.append(e[1] + e[2])
        elif k == 'S':
            out.append(e[1] + e[2] + ''.join(a[0] + a[1] for a in e[3]))
        elif k == 'DT':
            out.append(''.join(x or '' for x in e[1:]))
    return ''.join(out)


def in_domain(events):
    """the statement's exclusions: TAB/LF/CR in attribute values, CR in text"""
    for e in events:
        if e[0] == 'S':
            for a in e[3]:
                if any(c in a[2] for c in '\t\n\r'):
                    return False
        elif e[0] == 'T' and '\r' in e[1]:
            return False
    return True


_NAME = None


def _xml_chars(s):
    return all(c in '\t\n\r' or 0x20 <= ord(c) <= 0xd7ff or 0xe000 <= ord(c) <= 0xfffd or 0x10000 <= ord(c) for c in s)


def tree_in_domain(tree):
    """builder trees the property speaks about: XML names without colon, namespace URIs XML can declare,
    distinct attribute names, XML characters (keeps the shrinker from leaving the domain)"""
    import re
    global _NAME
    if _NAME is None:
        _NAME = re.compile('^[A-Za-z_\u00c0-\u02ff\u0370-\u1fff\u3000-\ud7ff][A-Za-z0-9_.\\-\u00b7\u00c0-\u02ff\u0300-\u1fff\u3000-\ud7ff]*$')
    def name_ok(n, attr=False):
        if not (isinstance(n, list) and len(n) == 2 and all(isinstance(x, str) for x in n)):
            return False
        ns, loc = n
        if not _NAME.match(loc) or not _xml_chars(ns):
            return False
        if ns in ('http://www.w3.org/2000/xmlns/',) or (ns == gen_xml.XML_NS and not attr):
            return False
        if attr and not ns and loc == 'xmlns':
            return False
        return True
    def ok(n):
        if n.get('t') == 't':
            # a zero-length string is no character data: XML has no empty text node, so a stream holding an empty
            # TEXT event has no parsed counterpart (`<u></u>` is read back as `<u/>`); the generator writes 1-7 characters
            return isinstance(n.get('s'), str) and n['s'] != '' and _xml_chars(n['s'])
        if n.get('t') != 'e' or not name_ok(n.get('name')):
            return False
        seen = set()
        for a in n.get('attrs', []):
            if not (isinstance(a, list) and len(a) == 2 and name_ok(a[0], True) and isinstance(a[1], str) and _xml_chars(a[1])):
                return False
            if tuple(a[0]) in seen:
                return False
            seen.add(tuple(a[0]))
        return all(ok(k) for k in n.get('kids', []))
    try:
        return ok(tree)
    except Exception:  # noqa
        return False


def check_stream(case, stream, first, fails, res=None):
    """the property on one genshi stream whose canonical events are `first`"""
    def bad(what, expected, observed):
        fails.append({'case': case, 'what': what, 'expected': expected, 'observed': observed})

    try:
        text = _render(stream, None)
    except Exception as ex:  # noqa
        bad('serialising raises', 'output', '%s: %s' % (type(ex).__name__, ex))
        return
    try:
        again = gen_xml.expat_events(text)
    except gen_xml.NotWellFormed as ex:
        bad('output is well-formed', 'expat accepts', 'NotWellFormed: %s in %r' % (ex, text[:300]))
        return
    if again != first:
        bad('re-parse of the output equals the first parse', first, {'events': again, 'text': text[:300]})
        return
    # idempotence: serialise(parse(serialise s)) = serialise s
    try:
        from genshi.input import XML
        text2 = _render(XML(text), None)
    except Exception as ex:  # noqa
        bad('genshi re-parses its own output', 'stream', '%s: %s' % (type(ex).__name__, ex))
        return
    if text2 != text:
        bad('serialising twice is idempotent', text[:400], text2[:400])
        return
    markup = _markup_chars(first)
    k = len(text)
    n = len(EXTRA_ENCODINGS)
    for enc in ENCODINGS + [EXTRA_ENCODINGS[k % n]]:
        if res is not None:
            res.count('oracle-enc:' + enc)
        if not _encodable(markup, enc):
            if res is not None:
                res.count('enc-skipped-unencodable-markup:' + enc)
            continue
        try:
            data = _render(stream, enc)
            got = gen_xml.expat_events(data.decode(enc))
        except gen_xml.NotWellFormed as ex:
            bad('output in %s is well-formed' % enc, 'expat accepts', 'NotWellFormed: %s' % ex)
            return
        except Exception as ex:  # noqa
            bad('serialising in %s raises' % enc, 'output', '%s: %s' % (type(ex).__name__, ex))
            return
        if got != first:
            bad('re-parse of the %s output equals the first parse' % enc, first, {'events': got, 'bytes': repr(data[:300])})
            return
        if enc in ('ascii', 'latin-1'):
            lim = 128 if enc == 'ascii' else 256
            if any(b >= lim for b in data) if enc == 'ascii' else False:
                bad('ascii output is ascii', 'bytes < 128', repr(data[:200]))
                return


def build_et(tree):
    """builder tree (gen_xml.gen_tree) -> xml.etree.ElementTree element: string children become text / tail"""
    import xml.etree.ElementTree as etree

    def mk(n):
        el = etree.Element(gen_xml.qname_text(*n['name']), dict((gen_xml.qname_text(*a), v) for a, v in n['attrs']))
        last = None
        for k in n['kids']:
            if k['t'] == 'e':
                last = mk(k)
                el.append(last)
            elif last is None:
                el.text = (el.text or '') + k['s']
            else:
                last.tail = (last.tail or '') + k['s']
        return el
    return mk(tree)


def oracle_case(case, res=None):
    """returns the first failure dict or None. case: {'kind':'doc','text':...} | {'kind':'tree','tree':...}
    | {'kind':'events','events':[wire events]}"""
    from genshi.input import XML
    from genshi.core import Stream
    fails = []
    if case['kind'] == 'doc':
        try:
            stream = XML(case['text'])
        except Exception as ex:  # noqa
            # not a well-formed document: outside the property
            if res is not None:
                res.count('doc-not-wellformed')
            return None
        first = gen_xml.canon_events(stream)
        if not in_domain(first):
            if res is not None:
                res.count('outside-domain')
            return None
        check_stream(case, stream, first, fails, res)
    elif case['kind'] == 'tree':
        if not tree_in_domain(case['tree']):
            if res is not None:
                res.count('outside-domain')
            return None
        el = gen_xml.build(case['tree'])
        first = gen_xml.tree_events(case['tree'])
        if not in_domain(first):
            return None
        got = gen_xml.canon_events(el.generate())
        if got != first:
            fails.append({'case': case, 'what': 'builder stream denotes the tree', 'expected': first, 'observed': got})
        else:
            check_stream(case, Stream(list(el.generate())), first, fails, res)
    elif case['kind'] == 'et-tree':
        # the same trees as ElementTree elements through genshi.input.ET (namespaces in `{ns}tag` names, no
        # namespace events): "streams built programmatically from namespace-qualified names"
        if not tree_in_domain(case['tree']):
            if res is not None:
                res.count('outside-domain')
            return None
        from genshi.input import ET
        first = gen_xml.tree_events(case['tree'])
        if not in_domain(first):
            return None
        events = list(ET(build_et(case['tree'])))
        got = gen_xml.canon_events(events)
        if got != first:
            fails.append({'case': case, 'what': 'ET stream denotes the element tree', 'expected': first, 'observed': got})
        else:
            check_stream(case, Stream(events), first, fails, res)
    elif case['kind'] == 'bytes-doc':
        # the encoded output read by a parser that is NOT told the encoding (known finding C02-decl-encoding-echo)
        try:
            stream = XML(case['text'])
        except Exception:  # noqa
            return None
        first = gen_xml.canon_events(stream)
        data = _render(stream, case['encoding'])
        try:
            got = gen_xml.expat_events(data)
        except gen_xml.NotWellFormed as ex:
            fails.append({'case': case, 'what': 'encoded output is well-formed for a parser that reads the bytes',
                          'expected': 'expat accepts', 'observed': 'NotWellFormed: %s in %r' % (ex, data[:200])})
        else:
            if got != first:
                fails.append({'case': case, 'what': 're-parse of the bytes equals the first parse', 'expected': first,
                              'observed': got})
    elif case['kind'] == 'events':
        stream = Stream(evwire.unstream(case['events']))
        first = gen_xml.canon_events(stream)
        if not in_domain(first):
            return None
        check_stream(case, stream, first, fails, res)
    else:
        raise ValueError(case['kind'])
    return fails[0] if fails else None


# --------------------------------------------------------------------------
# correspondence with the Lean model (gdrv)

C02 = Atom('C02')


def _attrs_wire(attrs):
    return [[str(k), '\x00' if v is None else str(v)] for k, v in attrs]


def fev_wire(ev):
    """an event after NamespaceFlattener -> wire value (names are plain strings)"""
    from genshi.core import START, END
    from genshi.output import EMPTY
    kind, data = ev[0], ev[1]
    if kind is START:
        return [Atom('S'), str(data[0]), _attrs_wire(data[1])]
    if kind is EMPTY:
        return [Atom('EM'), str(data[0]), _attrs_wire(data[1])]
    if kind is END:
        return [Atom('E'), str(data)]
    return evwire.ev(ev)


def xev_wire(ev):
    from genshi.output import EMPTY
    if ev[0] is EMPTY:
        return [Atom('EM'), evwire.qn(ev[1][0]), [[evwire.qn(k), str(v)] for k, v in ev[1][1]]]
    if str(ev[0]) == 'START_NS' and ev[1][1] is None:
        return [Atom('NS'), str(ev[1][0]), '\x00']
    return evwire.ev(ev)


def rev_wire(events):
    """canonical events (gen_xml vocabulary) -> the wire form of the Lean reader's answer"""
    out = []
    for e in events:
        k = e[0]
        if k == 'S':
            # the reader keeps document order of attributes; compare as sorted sets on both sides
            out.append([Atom('S'), [e[1], e[2]], [[[a[0], a[1]], a[2]] for a in e[3]]])
        elif k == 'E':
            out.append([Atom('E'), [e[1], e[2]]])
        elif k == 'T':
            out.append([Atom('T'), e[1]])
        elif k == 'C':
            out.append([Atom('C'), e[1]])
        elif k == 'PI':
            out.append([Atom('PI'), e[1], e[2]])
        elif k == 'SC':
            out.append(Atom('SC'))
        elif k == 'EC':
            out.append(Atom('EC'))
        elif k == 'XD':
            out.append([Atom('XD'), e[1], proto.N if e[2] is None else e[2], Atom(str(int(e[3])))])
        elif k == 'DT':
            out.append([Atom('DT'), e[1], proto.N if e[2] is None else e[2], proto.N if e[3] is None else e[3]])
    return out


def _sort_rev(ans):
    """sort the attribute list of every S item of a decoded reader answer"""
    if not (isinstance(ans, list) and len(ans) == 2 and ans[0] == 'ok'):
        return ans
    out = []
    for e in ans[1]:
        if isinstance(e, list) and e and e[0] == 'S':
            e = [e[0], e[1], sorted(e[2])]
        out.append(e)
    return [ans[0], out]


NONE_URI = '\x00'


def wire_stream(events):
    """evwire.stream, with Python's None as the URI of START_NS sent as the reserved string U+0000
    (see Genshi.Xml.noneUri)"""
    out = evwire.stream(events)
    for i, e in enumerate(events):
        if str(e[0]) == 'START_NS' and e[1][1] is None:
            out[i] = [Atom('NS'), str(e[1][0]), NONE_URI]
    return out


def real_emptytag(events):
    from genshi.output import EmptyTagFilter
    return [xev_wire(e) for e in EmptyTagFilter()(iter(events))]


def real_flatten(events, pref=None):
    from genshi.output import EmptyTagFilter, NamespaceFlattener
    try:
        return [fev_wire(e) for e in NamespaceFlattener(prefixes=pref)(EmptyTagFilter()(iter(events)))]
    except Exception as ex:  # noqa
        return Atom('raise:' + type(ex).__name__)


def real_ser(events):
    from genshi.output import XMLSerializer
    try:
        return [Atom('ok'), ''.join(XMLSerializer(strip_whitespace=False)(iter(events)))]
    except Exception as ex:  # noqa
        return Atom('raise')


_RANGES = {}


def enc_ranges(enc):
    if enc not in _RANGES:
        from harness import extract_xml
        _RANGES[enc] = [list(r) for r in extract_xml._ranges(enc)]
    return _RANGES[enc]


def real_enc(text, enc):
    from genshi.output import encode
    return encode(iter([text]), method='xml', encoding=enc).decode(enc)


def real_read(text):
    try:
        return [Atom('ok'), rev_wire(gen_xml.expat_events(text))]
    except gen_xml.NotWellFormed:
        return proto.N


# --------------------------------------------------------------------------
# XMLParser's layer over expat: the `_handle_*` callbacks, `_coalesce`; `ET()`

CB_NAMES = ['a', 'b', 'u}a', 'u}a}p', '{x', 'http://www.w3.org/XML/1998/namespace}lang', 'p:a', '}', 'u}', '']
CB_OTHER = ['&nbsp;', '&eacute;', '&foo;', '&;', '&', '<!ELEMENT a EMPTY>', '', '&amp', '&euro;', ' ', '&lt;', '&Aacute;',
            '&aacute', 'x&nbsp;']


def gen_cbs(rng):
    """a callback sequence as expat might deliver it (and some it never would): wire form"""
    out = []
    for _ in range(rng.randrange(1, 12)):
        r = rng.random()
        if r < 0.2:
            attrs = [[rng.choice(CB_NAMES), rng.choice(WILD_TXT)] for _ in range(rng.choice([0, 0, 1, 2, 3]))]
            out.append([Atom('SE'), rng.choice(CB_NAMES), attrs])
        elif r < 0.32:
            out.append([Atom('EE'), rng.choice(CB_NAMES)])
        elif r < 0.55:
            out.append([Atom('D'), rng.choice(WILD_TXT)])
        elif r < 0.60:
            out.append([Atom('XD'), rng.choice(['1.0', '1.1']), rng.choice([proto.N, 'utf-8', 'latin-1']),
                        Atom(str(rng.choice([-1, 0, 1])))])
        elif r < 0.66:
            out.append([Atom('DT'), rng.choice(['a', 'html', 'x:r']), rng.choice([proto.N, 'x.dtd', 'a"b']),
                        rng.choice([proto.N, '-//X//Y', ''])])
        elif r < 0.74:
            out.append([Atom('NS'), rng.choice([proto.N, 'p', '', 'xml']), rng.choice([proto.N, 'u', '', 'u1'])])
        elif r < 0.79:
            out.append([Atom('ENS'), rng.choice([proto.N, 'p', ''])])
        elif r < 0.84:
            out.append(Atom('SC'))
        elif r < 0.89:
            out.append(Atom('EC'))
        elif r < 0.92:
            out.append([Atom('PI'), rng.choice(['a', 'php']), rng.choice(WILD_TXT)])
        elif r < 0.95:
            out.append([Atom('C'), rng.choice(WILD_TXT)])
        else:
            out.append([Atom('O'), rng.choice(CB_OTHER)])
    return out


def _un(x):
    return None if isinstance(x, Atom) and x == 'N' else x


def real_cbs(cbs):
    """the real `_handle_*` methods called directly on a fresh XMLParser, its queue through the real `_coalesce`"""
    from io import StringIO
    from xml.parsers import expat
    from genshi.input import XMLParser, _coalesce
    p = XMLParser(StringIO(''))
    ok = True
    try:
        for c in cbs:
            k = str(c[0]) if isinstance(c, list) else str(c)
            if k == 'SE':
                p._handle_start(c[1], [x for kv in c[2] for x in kv])
            elif k == 'EE':
                p._handle_end(c[1])
            elif k == 'D':
                p._handle_data(c[1])
            elif k == 'XD':
                p._handle_xml_decl(c[1], _un(c[2]), int(str(c[3])))
            elif k == 'DT':
                p._handle_doctype(c[1], _un(c[2]), _un(c[3]), 0)
            elif k == 'NS':
                p._handle_start_ns(_un(c[1]), _un(c[2]))
            elif k == 'ENS':
                p._handle_end_ns(_un(c[1]))
            elif k == 'SC':
                p._handle_start_cdata()
            elif k == 'EC':
                p._handle_end_cdata()
            elif k == 'PI':
                p._handle_pi(c[1], c[2])
            elif k == 'C':
                p._handle_comment(c[1])
            elif k == 'O':
                p._handle_other(c[1])
    except expat.error:
        ok = False
    return [B(ok), wire_stream(list(_coalesce(iter(p._queue))))]


def recorded_parse(text):
    """XML parsing with every expat callback recorded (a subclass whose `_handle_*` log their arguments and then
    call the real method).  -> (callbacks in wire form, events | None when ParseError)"""
    from io import StringIO
    from genshi.input import XMLParser, ParseError
    log = []

    class Rec(XMLParser):
        pass

    def hook(name, conv):
        orig = getattr(XMLParser, name)

        def h(self, *a):
            log.append(conv(*a))
            return orig(self, *a)
        setattr(Rec, name, h)
    o = lambda x: proto.N if x is None else x
    hook('_handle_start', lambda tag, attrib: [Atom('SE'), tag, [[attrib[i], attrib[i + 1]] for i in range(0, len(attrib) - 1, 2)]])
    hook('_handle_end', lambda tag: [Atom('EE'), tag])
    hook('_handle_data', lambda t: [Atom('D'), t])
    hook('_handle_xml_decl', lambda v, e, s: [Atom('XD'), v, o(e), Atom(str(int(s)))])
    hook('_handle_doctype', lambda n, sy, pu, internal: [Atom('DT'), n, o(sy), o(pu)])
    hook('_handle_start_ns', lambda p, u: [Atom('NS'), o(p), o(u)])
    hook('_handle_end_ns', lambda p: [Atom('ENS'), o(p)])
    hook('_handle_start_cdata', lambda: Atom('SC'))
    hook('_handle_end_cdata', lambda: Atom('EC'))
    hook('_handle_pi', lambda t, d: [Atom('PI'), t, d])
    hook('_handle_comment', lambda t: [Atom('C'), t])
    hook('_handle_other', lambda t: [Atom('O'), t])
    try:
        events = list(Rec(StringIO(text)))
    except ParseError:
        events = None
    return log, events


def gen_etree(rng, depth=2):
    """what ET() reads of an ElementTree element: [tag, [[k, v]...], text|None, [kids], tail|None]"""
    tag = rng.choice(['a', '{u}a', '{{u}a', 'b', '{u1}x', '{}a', 'u}a'])
    attrs = []
    seen = set()
    for _ in range(rng.choice([0, 0, 1, 2])):
        k = rng.choice(['id', '{u}x', '{{v}y', 'class', '{http://www.w3.org/XML/1998/namespace}lang'])
        if k not in seen:
            seen.add(k)
            attrs.append([k, rng.choice(WILD_TXT)])
    kids = [gen_etree(rng, depth - 1) for _ in range(rng.randrange(0, 3))] if depth > 0 else []
    return [tag, attrs, rng.choice([None, '', 't', 'a<b', ' ']), kids, rng.choice([None, None, '', 'tail', '\n'])]


def real_et(tree):
    import xml.etree.ElementTree as etree
    from genshi.input import ET

    def build(t):
        el = etree.Element(t[0], dict((k, v) for k, v in t[1]))
        el.text = t[2]
        el.tail = t[4]
        for k in t[3]:
            el.append(build(k))
        return el
    return evwire.stream(list(ET(build(tree))))


def _etree_wire(t):
    return [t[0], t[1], proto.N if t[2] is None else t[2], [_etree_wire(k) for k in t[3]], proto.N if t[4] is None else t[4]]


class Corr(object):
    """collects request lines and the real answers; one gdrv run per shard"""

    def __init__(self, res):
        self.res = res
        self.lines = []
        self.meta = []

    def add(self, stream, case, line, real, post=None):
        self.lines.append(line)
        self.meta.append((stream, case, real, post))

    def add_events(self, events, case, pref=None, tag=''):
        w = wire_stream(events)
        if any(isinstance(x, list) and x and x[0] == 'OTHER' for x in w):
            self.res.count('corr-skipped-unknown-kind')
            return
        self.add('emptytag' + tag, case, proto.line(C02, Atom('emptytag'), w), real_emptytag(events))
        d = {gen_xml.XML_NS: 'xml'}
        d.update(pref or {})
        prefw = sorted([u, p] for u, p in d.items())
        self.add('flatten' + tag, case, proto.line(C02, Atom('flatten'), prefw, w), real_flatten(events, pref))
        if pref is None:
            self.add('ser' + tag, case, proto.line(C02, Atom('xser'), w), real_ser(events))
        # how much of the generated input lies inside the hypothesis of xml_roundtrip_events
        self.add('domain' + tag, case, proto.line(C02, Atom('domain'), prefw, w), None, post='domain')

    def add_text(self, text, case, tag=''):
        if _skipped_entity_risk(text):
            self.res.count('read-skipped-doctype-with-undefined-entity')
            return
        self.add('read' + tag, case, proto.line(C02, Atom('read'), text), real_read(text), post=_sort_rev)

    def add_reparse(self, text, case, tag=''):
        """the specification-side parse (reparseX o tokenize) against XMLParser + EmptyTagFilter"""
        from genshi.input import XML
        from genshi.output import EmptyTagFilter
        try:
            real = [Atom('ok'), [xev_wire(e) for e in EmptyTagFilter()(iter(list(XML(text))))]]
        except Exception:  # noqa
            real = proto.N
        self.add('reparse' + tag, case, proto.line(C02, Atom('reparse'), text), real, post='reparse')

    def add_enc(self, text, enc, case, tag=''):
        self.add('encode' + tag, case, proto.line(C02, Atom('enc'), enc_ranges(enc), text), real_enc(text, enc))

    def finish(self):
        answers = proto.run_lines(self.lines)
        for ans, (stream, case, real, post) in zip(answers, self.meta):
            self.res.streams[stream] = self.res.streams.get(stream, 0) + 1
            if ans == 'unmodelled':
                self.res.count('model:unmodelled')
                continue
            try:
                model = proto.dec(ans) if ans not in ('bad-op', 'bad-line') else Atom(ans)
            except Exception:  # noqa
                model = Atom(ans)
            if ans == '( )':
                model = []
            if post == 'domain':
                ind, holds = (str(model[0]) == 'T'), (str(model[1]) == 'T')
                self.res.count('theorem-domain:%s:%s' % (stream, 'inside' if ind else 'outside'))
                if ind and not holds:
                    self.res.disagreements.append({'stream': stream, 'case': case,
                                                   'model': 'inside docOK but resolve(flatten) != canon',
                                                   'real': 'theorem xml_roundtrip_events'})
                if len(model) >= 4:
                    intext, tholds = (str(model[2]) == 'T'), (str(model[3]) == 'T')
                    self.res.count('theorem-text-domain:%s:%s' % (stream, 'inside' if intext else 'outside'))
                    if intext and not tholds:
                        self.res.disagreements.append({'stream': stream, 'case': case,
                                                       'model': 'inside docOK and bodyOK but read(serialize) != canon',
                                                       'real': 'theorem xml_roundtrip_partial'})
                if len(model) >= 6:
                    inasc, aholds = (str(model[4]) == 'T'), (str(model[5]) == 'T')
                    self.res.count('theorem-text-domain-ascii:%s:%s' % (stream, 'inside' if inasc else 'outside'))
                    if inasc and not aholds:
                        self.res.disagreements.append({'stream': stream, 'case': case,
                                                       'model': 'inside docOK, docTextOK, repMarkup(ascii) but read(encode(serialize)) != canon',
                                                       'real': 'theorem xml_roundtrip_partial'})
                if len(model) >= 9:
                    ininp = str(model[8]) == 'T'
                    self.res.count('theorem-input-text-domain:%s:%s' % (stream, 'inside' if ininp else 'outside'))
                    if ininp and not (len(model) >= 10 and str(model[9]) == 'T'):
                        self.res.disagreements.append({'stream': stream, 'case': case,
                                                       'model': 'inside docOK and inputTextOKm but read(serialize) != mergeR(canon)',
                                                       'real': 'theorem xml_roundtrip'})
                if len(model) >= 8:
                    inid, iholds = (str(model[6]) == 'T'), (str(model[7]) == 'T')
                    self.res.count('theorem-idem-domain:%s:%s' % (stream, 'inside' if inid else 'outside'))
                    if inid and not iholds:
                        self.res.disagreements.append({'stream': stream, 'case': case,
                                                       'model': 'inside docOK and idemOK but flatten(reparse(flatten)) != flatten',
                                                       'real': 'theorem ser_idempotent_partial'})
                if len(model) >= 15:
                    inb, bholds = (str(model[10]) == 'T'), (str(model[11]) == 'T')
                    self.res.count('theorem-idem-builder-domain:%s:%s' % (stream, 'inside' if inb else 'outside'))
                    if inb and not bholds:
                        self.res.disagreements.append({'stream': stream, 'case': case,
                                                       'model': 'inside docOK and builderShaped but flatten(reparse(flatten)) != flatten (mod None/"")',
                                                       'real': 'theorem ser_idempotent_builder_events'})
                    inbt, inpt, tih = (str(model[12]) == 'T'), (str(model[13]) == 'T'), (str(model[14]) == 'T')
                    self.res.count('theorem-idem-text-domain:%s:%s' % (
                        stream, 'builder' if inbt else 'parsed' if inpt else 'outside'))
                    if (inbt or inpt) and not tih:
                        self.res.disagreements.append({'stream': stream, 'case': case,
                                                       'model': 'inside the text-level idempotence hypotheses (ascii) but ser(parseText(enc(ser))) != ser',
                                                       'real': 'theorem ser_idempotent_builder / ser_idempotent_parsed_text'})
                if len(model) >= 17:
                    insrc, sholds = (str(model[15]) == 'T'), (str(model[16]) == 'T')
                    self.res.count('theorem-idem-source-domain:%s:%s' % (
                        stream, 'inside' if insrc else 'no-start-end-fails' if (inbt or inpt) else 'outside'))
                    if insrc and not sholds:
                        self.res.disagreements.append({'stream': stream, 'case': case,
                                                       'model': 'inside the hypotheses of ser_idempotent_*_source (ascii) but ser(parseSource(enc(ser))) != ser',
                                                       'real': 'theorem ser_idempotent_builder_source / ser_idempotent_parsed_text_source'})
                continue
            if post == 'reparse':
                # third field: does `parseText` (no `<a></a>` -> `<a/>`) give the same answer as `parseSource`?
                if isinstance(model, list) and len(model) == 3:
                    self.res.count('%s:parseText-%s' % (stream, 'same' if str(model[2]) == 'T' else 'differs'))
                    model = model[:2]
                post = None
            if post:
                model = post(model)
                real = post(real)
            if model != real:
                if len(self.res.disagreements) < 50:
                    self.res.disagreements.append({'stream': stream, 'case': case, 'model': repr(model)[:600],
                                                   'real': repr(real)[:600]})
                else:
                    self.res.count('more-disagreements')


# --------------------------------------------------------------------------
# generation of cases

WILD_NS = ['', 'u1', 'u2', 'p', gen_xml.XML_NS, 'http://www.w3.org/1999/xhtml']
WILD_PFX = ['', 'p', 'q', 'ns1', 'ns2', 'xml', 'u1']
WILD_LOC = ['a', 'b', 'x', 'p:a', 'xmlns', 'xmlns:p', 'ns1:x']
WILD_TXT = ['', 'a', 'a<b', '&amp;', ']]>', '"\'', 'é€\U0001f600', ' \n', '--', '?>', 'x\ty', 'a<b']


def gen_wild(rng, n=None):
    """arbitrary event sequences: unbalanced, namespace events anywhere, odd names; exercises the
    models outside the domain of the theorems (bug-compatibility). Wire form."""
    n = n if n is not None else rng.randrange(1, 12)
    out = []
    stack = []
    for _ in range(n):
        r = rng.random()
        q = [rng.choice(WILD_NS), rng.choice(WILD_LOC[:4] if rng.random() < 0.8 else WILD_LOC)]
        if r < 0.28:
            attrs = []
            for _ in range(rng.choice([0, 0, 1, 2, 3])):
                attrs.append([[rng.choice(WILD_NS), rng.choice(WILD_LOC)], rng.choice(WILD_TXT)])
            out.append([Atom('S'), q, attrs])
            stack.append(q)
        elif r < 0.50:
            if stack and rng.random() < 0.85:
                out.append([Atom('E'), stack.pop()])
            else:
                out.append([Atom('E'), q])
        elif r < 0.64:
            out.append([Atom('NS'), rng.choice(WILD_PFX), rng.choice(WILD_NS)])
        elif r < 0.74:
            out.append([Atom('ENS'), rng.choice(WILD_PFX)])
        elif r < 0.86:
            out.append([Atom('T'), rng.choice(WILD_TXT), B(rng.random() < 0.2)])
        elif r < 0.89:
            out.append([Atom('C'), rng.choice(WILD_TXT)])
        elif r < 0.92:
            out.append([Atom('PI'), rng.choice(['a', 'xml', 'php']), rng.choice(WILD_TXT)])
        elif r < 0.94:
            out.append(Atom('SC'))
        elif r < 0.96:
            out.append(Atom('EC'))
        elif r < 0.98:
            out.append([Atom('XD'), '1.0', rng.choice([proto.N, 'utf-8', '']), Atom(str(rng.choice([-1, 0, 1, 2])))])
        else:
            out.append([Atom('DT'), rng.choice(['a', 'html', '']), rng.choice([proto.N, 'pub', '']),
                        rng.choice([proto.N, 'sys', 'a"b', ''])])
    if rng.random() < 0.7:
        while stack:
            out.append([Atom('E'), stack.pop()])
    return out


def _skipped_entity_risk(text):
    """with a DOCTYPE that names an external subset expat does not treat an undefined entity as an
    error (it might be declared there); the reader's language has no DOCTYPE-dependent rules"""
    import re
    if '<!DOCTYPE' not in text:
        return False
    return any(m not in ('amp', 'lt', 'gt', 'quot', 'apos') for m in re.findall(r'&([^#;&<>\s"\']*);', text))


def mutate(rng, text):
    """one small edit of serializer output, to compare accept/reject of the Lean reader and expat"""
    if not text:
        return '<'
    alphabet = '<>&"\'=/ ;#x-]?![a:1'
    i = rng.randrange(len(text))
    r = rng.random()
    if r < 0.4:
        return text[:i] + text[i + 1:]
    if r < 0.7:
        return text[:i] + rng.choice(alphabet) + text[i:]
    if r < 0.9:
        return text[:i] + rng.choice(alphabet) + text[i + 1:]
    j = rng.randrange(len(text))
    i, j = min(i, j), max(i, j)
    return text[:i] + text[j:]


def _wire_json(w):
    """wire value -> JSON-able (atoms tagged) for replay files"""
    if isinstance(w, Atom):
        return {'atom': str(w)}
    if isinstance(w, list):
        return [_wire_json(x) for x in w]
    return w


def _json_wire(j):
    if isinstance(j, dict):
        return Atom(j['atom'])
    if isinstance(j, list):
        return [_json_wire(x) for x in j]
    return j


def stats_key(doc):
    return '+'.join(sorted(gen_xml.doc_stats(doc)))


_TAG_RE = re.compile(r'<([^/!?\s>][^\s/>]*)((?:\s+[^\s=]+="[^"]*")*)\s*(/?)>|</[^>]*>')
_ATTR_RE = re.compile(r'([^\s=]+)="([^"]*)"')


def builder_output_shape(text):
    """which namespace constructs the flattener wrote for a builder tree (read off the real output):
    distinct URIs, declarations below the root that re-bind or undeclare the default namespace,
    made-up prefixes for attributes / elements"""
    tags = set()
    uris = set()
    depth = 0
    for m in _TAG_RE.finditer(text):
        if m.group(0).startswith('</'):
            depth -= 1
            continue
        name, attrs, empty = m.group(1), m.group(2) or '', m.group(3)
        for a, v in _ATTR_RE.findall(attrs):
            if a == 'xmlns':
                if v:
                    uris.add(v)
                if depth > 0:
                    tags.add('default-undeclared' if not v else 'default-rebound')
            elif a.startswith('xmlns:'):
                uris.add(v)
                tags.add('made-up-prefix')
            elif ':' in a and not a.startswith('xml:'):
                tags.add('ns-attr-made-up-prefix')
        if ':' in name:
            tags.add('element-with-prefix')
        if not empty:
            depth += 1
    if len(uris) >= 2:
        tags.add('uris>=2')
    if len(uris) >= 3:
        tags.add('uris>=3')
    return tags


def _with_empty_text(tree, rng):
    """a copy of a builder tree with empty strings among the children (every childless element gets one with
    probability 1/2: `tag.a('')`)"""
    if tree['t'] != 'e':
        return tree
    kids = []
    for k in tree['kids']:
        if rng.random() < 0.3:
            kids.append({'t': 't', 's': ''})
        kids.append(_with_empty_text(k, rng))
    if not kids and rng.random() < 0.5:
        kids.append({'t': 't', 's': ''})
    return dict(tree, kids=kids)


def shard(arg):
    import random
    from genshi.input import XML
    from genshi.core import Stream
    seed, idx, ndocs, ntrees, nwild, opts = arg
    rng = random.Random('%s/%s/C02' % (seed, idx))
    res = Result()
    corr = Corr(res)
    texts = []
    for i in range(ndocs):
        o = {}
        r = rng.random()
        if r < 0.15:
            o = {'ns': 'none'}
        elif r < 0.3:
            o = {'ns': 'simple'}
        if rng.random() < 0.2:
            o['nonascii'] = rng.choice(['all', 'none'])
        if rng.random() < 0.1:
            o['depth'] = 5
            o['width'] = 3
        if i % 4 == 1 or opts.get('stress'):
            # runs of adjacent character data: CDATA sections next to each other / to text / to references, empty
            # sections, `]]>` split over two sections (gen_xml._gen_run); counters doc:cdata-*
            o['cdata_runs'] = 0.35 if i % 4 == 1 else opts['stress']
        if i % 8 == 3:
            # xmlns:xml="http://www.w3.org/XML/1998/namespace" on some elements (inside `nsDeclOK` since the
            # hypothesis was weakened; the flattener must drop the declaration and keep `xml:` usable)
            o['xml_prefix_decl'] = 0.25
        doc = gen_xml.gen_doc(rng, **o)
        text = gen_xml.write_doc(doc)
        case = {'kind': 'doc', 'text': text}
        res.evaluations += 1
        tags = gen_xml.doc_stats(doc)
        for t in tags:
            res.count('doc:' + t)
        f = oracle_case(case, res)
        if f:
            res.failures.append(f)
        if tags & {'rebound-prefix', 'rebound-default', 'undeclared-default', 'several-prefixes-per-uri', 'ns-attr',
                   'cdata', 'references'}:
            res.nontrivial.add(stats_key(doc) + '/' + str(len(text) // 40))
        if len(res.samples) < 2:
            res.samples.append(case)
        try:
            events = list(XML(text))
        except Exception:  # noqa
            res.count('generator-ill-formed')
            continue
        if gen_xml.canon_events(events) != gen_xml.expected_events(doc):
            res.count('first-parse-differs-from-generating-tree')
            res.notes.append('first parse differs from the generating tree: %r' % text[:200])
        corr.add_events(events, case)
        if i % 4 in (1, 2):
            # the callbacks expat really makes for this document (recorded), through the model of the layer,
            # against the events XMLParser delivers; every 8th document with an undefined entity put in
            t2 = text
            if i % 8 == 2:
                t2 = text.replace('><', '>&nosuchentity;<', 1) if rng.random() < 0.5 else text.replace('</', '&zzz;</', 1)
            log, evs = recorded_parse(t2)
            # the foreign DTD (HTML entities) comes through `_handle_other` token by token, ~1 800 calls per
            # document that enqueue nothing: the first 8 are sent to the model, the rest counted (the made-up
            # sequences of stream `cbs` hold such texts too)
            keep, nother = [], 0
            for c in log:
                if isinstance(c, list) and c[0] == 'O' and not c[1].startswith('&'):
                    nother += 1
                    if nother > 8:
                        res.count('cbs-expat:default-handler-calls-not-sent')
                        continue
                keep.append(c)
            log = keep
            for c in log:
                res.count('cbs-expat:callback:%s' % (str(c[0]) if isinstance(c, list) else str(c)))
            if evs is None and not (log and isinstance(log[-1], list) and log[-1][0] == 'O' and log[-1][1].startswith('&')):
                # expat's own verdict (e.g. an undefined entity under standalone="yes"), not the layer's
                res.count('cbs-expat:expat-error')
            elif evs is None:
                res.count('cbs-expat:parse-error')
                corr.add('cbs-expat', {'kind': 'doc', 'text': t2}, proto.line(C02, Atom('cbs'), log), Atom('F'),
                         post=lambda a: a[0] if isinstance(a, list) else a)
            else:
                corr.add('cbs-expat', {'kind': 'doc', 'text': t2}, proto.line(C02, Atom('cbs'), log),
                         [B(True), wire_stream(evs)])
        if i % 4 == 0:
            out = ''.join(_ser(events))
            texts.append(out)
            corr.add_text(out, case)
            corr.add_reparse(out, {'kind': 'read', 'text': out})
            enc = ALL_ENCODINGS[(i // 4) % len(ALL_ENCODINGS)]
            corr.add_enc(out, enc, {'kind': 'enc', 'text': out, 'enc': enc})
    # encode() against the model on texts drawn from the borders of each codec's repertoire (first / last
    # code point of every extracted range and their neighbours), so that a table that is off by one shows
    for enc in ALL_ENCODINGS:
        pool = set()
        for lo, hi in enc_ranges(enc):
            for cp in (lo - 1, lo, hi, hi + 1):
                if 0x20 <= cp < 0x110000 and not 0xd800 <= cp < 0xe000:
                    pool.add(chr(cp))
        pool = sorted(pool) + list('<&>"a')
        for _ in range(2):
            t = ''.join(rng.choice(pool) for _ in range(rng.randrange(4, 24)))
            real = real_enc(t, enc)
            raw = any(ord(c) > 127 for c in real)
            res.count('enc-border:%s' % ('refs+raw' if '&#' in real and raw else 'refs' if '&#' in real else
                                          'raw' if raw else 'ascii'))
            corr.add_enc(t, enc, {'kind': 'enc', 'text': t, 'enc': enc}, tag='-border')
    # source documents without HTML entities through the reader (single quotes, hex references, spacing)
    for i in range(ndocs // 4):
        doc = gen_xml.gen_doc(rng, html_entities=False, **({'cdata_runs': 0.35} if i % 2 else {}))
        text = gen_xml.write_doc(doc)
        corr.add_text(text, {'kind': 'read', 'text': text}, tag='-source')
        # `parseText` (the specification-side account of XMLParser + EmptyTagFilter) on source documents, not only on
        # serializer output: single quotes, references of every spelling, declarations in any attribute position
        corr.add_reparse(text, {'kind': 'read', 'text': text}, tag='-source')
    # accept/reject agreement of the Lean reader and expat on damaged texts.  ASCII only: the reader does not
    # carry the Unicode name tables (any non-ASCII XML character is a name character for it)
    for i in range(ndocs // 4):
        doc = gen_xml.gen_doc(rng, html_entities=False, nonascii='none')
        t = gen_xml.write_doc(doc)
        if rng.random() < 0.5:
            try:
                t = ''.join(_ser(list(XML(t))))
            except Exception:  # noqa
                pass
        for _ in range(rng.choice([1, 1, 2, 3])):
            t = mutate(rng, t)
        if all(ord(c) < 128 for c in t):
            corr.add_text(t, {'kind': 'read', 'text': t}, tag='-mutated')
    for i in range(ntrees):
        tree = gen_xml.gen_tree(rng, depth=rng.choice([1, 2, 3, 4]))
        case = {'kind': 'tree', 'tree': tree}
        res.evaluations += 1
        f = oracle_case(case, res)
        if f:
            res.failures.append(f)
        nss = set()

        def walk(n):
            if n['t'] == 'e':
                nss.add(n['name'][0])
                for a in n['attrs']:
                    nss.add('@' + a[0][0])
                for k in n['kids']:
                    walk(k)
        walk(tree)
        res.count('tree:namespaces=%d' % min(len(nss), 5))
        if len(nss) > 1:
            res.nontrivial.add('tree/' + json.dumps(tree, sort_keys=True)[:200])
        if i % 3 == 2:
            # the same tree as an ElementTree element through ET(): oracle, and the filters' models on its stream
            ecase = {'kind': 'et-tree', 'tree': tree}
            res.evaluations += 1
            res.count('et-tree:oracle')
            f = oracle_case(ecase, res)
            if f:
                res.failures.append(f)
            from genshi.input import ET
            corr.add_events(list(ET(build_et(tree))), ecase, tag='-et')
        events = list(gen_xml.build(tree).generate())
        corr.add_events(events, case, tag='-builder')
        if i % 6 == 1:
            # the same tree with empty strings put in (outside the oracle's domain: XML has no empty text node): the
            # models on `<a></a>` — serializer, `parseSource` against the real parser chain (EMPTY), the side
            # condition `noStartEndX` of ser_idempotent_builder_source
            t2 = _with_empty_text(tree, rng)
            ev2 = list(gen_xml.build(t2).generate())
            c2 = {'kind': 'tree-emptytext', 'tree': t2}
            corr.add_events(ev2, c2, tag='-builder-emptytext')
            try:
                corr.add_reparse(''.join(_ser(ev2)), c2, tag='-emptytext')
            except Exception:  # noqa
                res.count('tree:serializer-raised')
        if i % 5 == 0:
            corr.add_events(events, case, pref={'u1': 'k', 'u2': '', 'urn:x:y': 'ns1'}, tag='-builder-pref')
        # what the flattener had to make up for this tree (measured on the real output), and the second pass:
        # the parser's view of that output against `parseText`, and the real flattener on the parsed stream
        # (made-up declarations met as explicit ones) against the model
        try:
            out = ''.join(_ser(events))
        except Exception:  # noqa
            res.count('tree:serializer-raised')
            continue
        shape = builder_output_shape(out)
        for t in shape:
            res.count('tree-out:' + t)
        if {'default-rebound', 'ns-attr-made-up-prefix', 'uris>=2'} <= shape:
            res.count('tree-out:all-three')
        if tree_in_domain(tree) and i % 3 == 0:
            corr.add_reparse(out, {'kind': 'read', 'text': out})
            try:
                events2 = list(XML(out))
            except Exception:  # noqa
                res.count('tree:output-not-parsed')
                continue
            corr.add_events(events2, {'kind': 'doc', 'text': out}, tag='-builder-second')
    for i in range(nwild):
        w = gen_wild(rng)
        case = {'kind': 'wild', 'events': _wire_json(w)}
        events = evwire.unstream(w)
        res.evaluations += 1
        pref = None
        if rng.random() < 0.2:
            pref = rng.choice([{'u1': 'k'}, {'u1': '', 'u2': 'q'}, {'u1': 'ns1'}, {}])
        corr.add_events(events, case, pref=pref, tag='-wild')
        res.count('wild:len=%d' % min(len(w) // 4 * 4, 12))
    # genshi's parser layer pieces
    from genshi.input import _coalesce
    from genshi.core import QName
    for i in range(nwild // 4):
        w = gen_wild(rng)
        events = evwire.unstream(w)
        corr.add('coalesce', {'kind': 'wild', 'events': _wire_json(w)}, proto.line(C02, Atom('coalesce'), w),
                 evwire.stream(list(_coalesce(iter(events)))))
        s = rng.choice(['a', '{u}a', 'u}a', '{{u}a', '{u}a}b', '{}a', 'a{b', '}', '{', ''])
        corr.add('qname', {'kind': 'qname', 'text': s}, proto.line(C02, Atom('qname'), s), evwire.qn(QName(s)))
    # XMLParser's layer over expat (`_handle_*`, `_coalesce`): callback sequences made up here, handed to the real
    # methods directly; and `ET()` on made-up ElementTree elements
    for i in range(nwild // 4):
        cbs = gen_cbs(rng)
        case = {'kind': 'cbs', 'cbs': _wire_json(cbs)}
        real = real_cbs(cbs)
        kinds = set(str(c[0]) if isinstance(c, list) else str(c) for c in cbs)
        res.count('cbs:%s' % ('undefined-entity' if real[0] == 'F' else 'entity' if 'O' in kinds else 'plain'))
        corr.add('cbs', case, proto.line(C02, Atom('cbs'), cbs), real)
        t = gen_etree(rng)
        corr.add('et', {'kind': 'et', 'tree': t}, proto.line(C02, Atom('et'), _etree_wire(t)), real_et(t))
    corr.finish()
    return res


def _ser(events):
    from genshi.output import XMLSerializer
    return XMLSerializer(strip_whitespace=False)(iter(events))


def run(ctx):
    nsh = 16
    ndocs = ctx.n(320, 6000)
    ntrees = ctx.n(130, 2500)
    nwild = ctx.n(260, 4000)
    args = [(ctx.seed, i, ndocs, ntrees, nwild, {}) for i in range(nsh)]
    res = Result()
    for r in pmap('harness.props.c02', 'shard', args):
        res.merge(r)
    res.rule = ('generated well-formed documents (nested / re-bound / undeclared default namespaces, several prefixes per URI, '
                'mixed content, references, comments, PIs, CDATA, declaration, doctype) and builder trees from arbitrary qualified '
                'names (every third also as an ElementTree element through ET()), each rendered unencoded and in utf-8, ascii, latin-1, utf-16 and re-read by expat; non-trivial = document '
                'with a re-bound/undeclared/aliased namespace, namespaced attribute, CDATA (every fourth document with runs of '
                'adjacent character data: CDATA sections next to each other, to text and to references, empty sections, "]]>" '
                'split over two sections) or reference (distinct by construct set '
                'and size class) or tree with more than one namespace (distinct by content)')
    res.samples = res.samples[:6]
    return res


def search(ctx, res, broken):
    """failing-input search: the disagreeing cases first (through the oracle on the real code; an event sequence
    of the correspondence-only streams is written out as an XML document first, `events_to_doc`), then a larger
    seeded budget of documents and trees: half of the shards with the ordinary mix (namespace-heavy), half with
    every document full of adjacent character data (`stress`: the parser layer's seams)"""
    found = []
    for d in res.disagreements[:200]:
        case = d.get('case') or {}
        f = replay(ctx, case)
        if f:
            found.append(f)
    if found:
        return found
    args = [(ctx.seed + 1000 + i, i, 700, 300 if i % 2 == 0 else 0, 0, {'stress': 0.5} if i % 2 else {})
            for i in range(16)]
    for r in pmap('harness.props.c02', 'shard', args):
        found.extend(r.failures)
    return found


def _xml_clean(s):
    return ''.join(c for c in s if c in '\t\n' or 0x20 <= ord(c) <= 0xd7ff or 0xe000 <= ord(c) <= 0xfffd
                   or 0x10000 <= ord(c))


def events_to_doc(w):
    """an arbitrary event sequence (wire form, as generated by `gen_wild`) written out as a well-formed XML
    document in the ordinary way, keeping as much of its shape as XML allows: elements get plain names and are
    closed at the end, TEXT is escaped, START_CDATA / END_CDATA become section markers (an END_CDATA without a
    section open gives an empty section, a START_CDATA inside a section closes it and opens the next), text
    inside a section that contains `]]>` is split over two sections, comments and PIs are made legal, the rest
    is dropped.  Independent of genshi's serializer."""
    out = ['<r>']
    depth = 0
    cd = False
    for e in w:
        k = str(e[0]) if isinstance(e, list) else str(e)
        if k == 'SC':
            out.append(']]><![CDATA[' if cd else '<![CDATA[')
            cd = True
        elif k == 'EC':
            out.append(']]>' if cd else '<![CDATA[]]>')
            cd = False
        elif k == 'T':
            t = _xml_clean(str(e[1])).replace('\r', '')
            if cd:
                out.append(t.replace(']]>', ']]]]><![CDATA[>'))
            else:
                out.append(t.replace('&', '&amp;').replace('<', '&lt;').replace(']]>', ']]&gt;'))
        elif cd:
            continue
        elif k == 'S':
            out.append('<e>')
            depth += 1
        elif k == 'E':
            if depth:
                out.append('</e>')
                depth -= 1
        elif k == 'C':
            t = _xml_clean(str(e[1])).replace('\r', '').replace('--', '- -')
            out.append('<!--%s-->' % (t + ' ' if t.endswith('-') else t))
        elif k == 'PI':
            t = _xml_clean(str(e[2])).replace('\r', '').replace('?>', '? >').lstrip()
            out.append('<?p%s?>' % (' ' + t if t else ''))
    if cd:
        out.append(']]>')
    out.append('</e>' * depth + '</r>')
    return ''.join(out)


def replay(ctx, case):
    kind = case.get('kind')
    if kind in ('doc', 'tree', 'events', 'bytes-doc', 'et-tree'):
        return oracle_case(case)
    if kind == 'wild':
        # correspondence-only input (arbitrary event sequence): outside the property as it stands; judge the
        # XML document that spells the same sequence
        try:
            text = events_to_doc(_json_wire(case['events']))
        except Exception:  # noqa
            return None
        return oracle_case({'kind': 'doc', 'text': text})
    if kind in ('read', 'enc') and isinstance(case.get('text'), str):
        # a text of the reader / encode streams: if it is a well-formed document the property speaks about it
        return oracle_case({'kind': 'doc', 'text': case['text']})
    return None

"""C02 — XML serialisation is a right inverse of XML parsing.

Oracle on the real code (never uses the Lean model): `XML(text).render('xml',
strip_whitespace=False, encoding=e)` is re-read by an independent expat run in namespace mode
and compared with the first parse (qualified names, attribute sets, text, comments, PIs, CDATA,
declaration, doctype; prefixes and declarations ignored), for e in utf-8, ascii, latin-1, utf-16
and for unencoded output; well-formedness = expat accepts; idempotence = serialising the re-parse
gives the same text.  Builder trees (no namespace events) likewise, against the tree itself.

Correspondence: the same event streams go through `gdrv` (Lean model of EmptyTagFilter,
NamespaceFlattener, XMLSerializer, encode, and the spec-side reader) and are diffed with the real
filters' output at three observation points (flattened events, serialised text, encoded text),
and the Lean reader is diffed with expat on the serialiser's output.
"""
import json
from harness import gen_xml, proto, evwire
from harness.framework import Result, pmap
from harness.proto import Atom, B

PROP = 'C02'
ENCODINGS = ['utf-8', 'ascii', 'latin-1', 'utf-16']
TRUSTED = [
    'modelled, not verified: genshi/output.py EmptyTagFilter, NamespaceFlattener, XMLSerializer, encode(); '
    'genshi/input.py XMLParser callbacks and _coalesce (hand-written Lean model tied by correspondence on generated streams)',
    'not modelled, only exercised: expat/pyexpat (both as genshi\'s tokenizer and as the oracle\'s independent reader), '
    'the codecs (utf-8, ascii, latin-1, utf-16) — the model sees an encoding as the predicate "representable"',
    'the spec-side reader Genshi.Xml.Reader is validated against expat on serializer output by correspondence, not proved against the XML recommendation',
    'strings with lone surrogates are outside Lean Char (and outside XML)',
]
ASSUMPTIONS = [
    'the consumer of encoded output knows the encoding out of band (the oracle decodes with the codec that encoded; '
    'the XML declaration event is echoed verbatim by the serializer whatever the output encoding)',
    'domain exclusions of the statement: no TAB/LF/CR in attribute values, no CR in text, no unencodable characters in comments/PIs/CDATA',
    'documents have no internal DTD subset (the DOCTYPE event cannot carry it); names are XML names without ":" in local parts',
    'builder trees: attribute/element local names are XML names, no attribute is literally called xmlns or xmlns:*',
]


def _render(stream, encoding):
    return stream.render('xml', strip_whitespace=False, encoding=encoding)


def _encodable(s, enc):
    try:
        s.encode(enc)
        return True
    except UnicodeEncodeError:
        return False


def _markup_chars(events):
    """the characters that sit in comments, PIs, CDATA sections and names (no character references there)"""
    out = []
    in_cd = False
    for e in events:
        k = e[0]
        if k == 'SC':
            in_cd = True
        elif k == 'EC':
            in_cd = False
        elif k == 'T' and in_cd:
            out.append(e[1])
        elif k == 'C':
            out.append(e[1])
        elif k == 'PI':
            out.append(e[1] + e[2])
        elif k == 'S':
            out.append(e[1] + e[2] + ''.join(a[0] + a[1] for a in e[3]))
        elif k == 'DT':
            out.append(''.join(x or '' for x in e[1:]))
    return ''.join(out)


def in_domain(events):
    """the statement's exclusions: TAB/LF/CR in attribute values, CR in text"""
    for e in events:
        if e[0] == 'S':
            for a in e[3]:
                if any(c in a[2] for c in '\t\n\r'):
                    return False
        elif e[0] == 'T' and '\r' in e[1]:
            return False
    return True


def check_stream(case, stream, first, fails, res=None):
    """the property on one genshi stream whose canonical events are `first`"""
    def bad(what, expected, observed):
        fails.append({'case': case, 'what': what, 'expected': expected, 'observed': observed})

    try:
        text = _render(stream, None)
    except Exception as ex:  # noqa
        bad('serialising raises', 'output', '%s: %s' % (type(ex).__name__, ex))
        return
    try:
        again = gen_xml.expat_events(text)
    except gen_xml.NotWellFormed as ex:
        bad('output is well-formed', 'expat accepts', 'NotWellFormed: %s in %r' % (ex, text[:300]))
        return
    if again != first:
        bad('re-parse of the output equals the first parse', first, {'events': again, 'text': text[:300]})
        return
    # idempotence: serialise(parse(serialise s)) = serialise s
    try:
        from genshi.input import XML
        text2 = _render(XML(text), None)
    except Exception as ex:  # noqa
        bad('genshi re-parses its own output', 'stream', '%s: %s' % (type(ex).__name__, ex))
        return
    if text2 != text:
        bad('serialising twice is idempotent', text[:400], text2[:400])
        return
    markup = _markup_chars(first)
    for enc in ENCODINGS:
        if not _encodable(markup, enc):
            if res is not None:
                res.count('enc-skipped-unencodable-markup:' + enc)
            continue
        try:
            data = _render(stream, enc)
            got = gen_xml.expat_events(data.decode(enc))
        except gen_xml.NotWellFormed as ex:
            bad('output in %s is well-formed' % enc, 'expat accepts', 'NotWellFormed: %s' % ex)
            return
        except Exception as ex:  # noqa
            bad('serialising in %s raises' % enc, 'output', '%s: %s' % (type(ex).__name__, ex))
            return
        if got != first:
            bad('re-parse of the %s output equals the first parse' % enc, first, {'events': got, 'bytes': repr(data[:300])})
            return
        if enc in ('ascii', 'latin-1'):
            lim = 128 if enc == 'ascii' else 256
            if any(b >= lim for b in data) if enc == 'ascii' else False:
                bad('ascii output is ascii', 'bytes < 128', repr(data[:200]))
                return


def oracle_case(case, res=None):
    """returns the first failure dict or None. case: {'kind':'doc','text':...} | {'kind':'tree','tree':...}
    | {'kind':'events','events':[wire events]}"""
    from genshi.input import XML
    from genshi.core import Stream
    fails = []
    if case['kind'] == 'doc':
        try:
            stream = XML(case['text'])
        except Exception as ex:  # noqa
            # not a well-formed document: outside the property
            if res is not None:
                res.count('doc-not-wellformed')
            return None
        first = gen_xml.canon_events(stream)
        if not in_domain(first):
            if res is not None:
                res.count('outside-domain')
            return None
        check_stream(case, stream, first, fails, res)
    elif case['kind'] == 'tree':
        el = gen_xml.build(case['tree'])
        first = gen_xml.tree_events(case['tree'])
        if not in_domain(first):
            return None
        got = gen_xml.canon_events(el.generate())
        if got != first:
            fails.append({'case': case, 'what': 'builder stream denotes the tree', 'expected': first, 'observed': got})
        else:
            check_stream(case, Stream(list(el.generate())), first, fails, res)
    elif case['kind'] == 'events':
        stream = Stream(evwire.unstream(case['events']))
        first = gen_xml.canon_events(stream)
        if not in_domain(first):
            return None
        check_stream(case, stream, first, fails, res)
    else:
        raise ValueError(case['kind'])
    return fails[0] if fails else None

"""C16 — concurrent loads are safe.

Real threads run `TemplateLoader.load` on one loader under the deterministic scheduler
(harness/sched.py: one thread at a time, hand-over only at source lines of loader.py / util.py
according to an explicit schedule).  Nothing in the repository is touched: `loader._lock` is
wrapped in a cooperative proxy around the lock object the code created (so a lock of another kind
shows), `loader._cache` is replaced by a recording subclass of the repository's LRUCache, and
`loader.load` is shadowed on the instance by a recording wrapper.

For every explored schedule
* the oracle (search half, no model): no deadlock, every call returns a correct template for the
  name it asked for (or the expected exception), every cache operation happened with the lock
  held, afterwards the bounded-LRU structure invariant holds;
* trace validation (correspondence half): the recorded events are fed to `gdrv C16 trace`, which
  accepts only executions of the Lean interleaving model and returns the model's final state, to
  be compared with the real cache order, identities and per-thread results; the recorded cache
  operations are replayed on the concrete LRU model (`gdrv C15 lru`) and the complete linked
  structure is compared.

Schedules: all with <= `bound` preemptions (quick 2 on the short scenarios, thorough 3), plus
seeded random preemption lists on the long / 3-4 thread scenarios.
"""
import json, os, random, shutil
from harness import proto, sched, stage, lockwatch
from harness import gen_lru as G
from harness.framework import Result, pmap, Infra
from harness.proto import Atom, B, N

PROP = 'C16'
TRUSTED = [
    'the interleaving model is at the granularity of the atomic steps call/acquire/lookup/decide/parse/callback/store/release/return; the real threads are preempted at source-line granularity inside genshi/template/loader.py and genshi/util.py only',
    'assumed, not modelled: the GIL, atomicity of single byte codes and of dict operations, threading.RLock itself (wrapped, not replaced), the memory model of CPython',
    'the scheduler (harness/sched.py, sys.monitoring LINE events) and the recording proxies are harness code',
    'lock order: every lock a genshi module creates is wrapped by harness/lockwatch.py (proxy for the name threading in the genshi modules, module-level lock objects replaced by one proxy each); which locks exist and how their acquisitions nest is observed on the explored runs only; the lock model (Genshi/Model/LockOrder.lean) has re-entrant locks only and is tied by replaying the recorded lock events of every run (stream lock-model) and of seeded programs over real threading.RLocks (stream lock-model-synthetic)',
    'modelled, not verified: TemplateLoader.load / LRUCache (as in C15), Template._prepare only as "the callback performs these nested loads"',
]
ASSUMPTIONS = [
    'files do not change while the threads run (modifications happen in the set-up phase), except in the scenarios with a writer thread, which replaces a file (rename over the name) at every yield point of a load: those runs are judged by the oracle only (any version the file had is a correct result; a load after quiescence must return the current one)',
    'includes form a tree (no cycles), static hrefs, and are prepared under the lock by the callback (callback = lambda t: t.stream)',
    'schedules are explored up to a preemption bound and by seeded sampling: partial by nature',
    'a cycle in the observed held -> wanted lock graph without a common gate lock is reported as a potential deadlock even when no explored schedule exhibits it (no analysis of object publication / happens-before)',
]

DIR = 0


# --------------------------------------------------------------------------
# scenarios

def tname(b):
    return 't%d.txt' % b


XI = 'http://www.w3.org/2001/XInclude'


def file_text(b, f, markup=False):
    if markup:
        inc = ''.join('<xi:include href="%s"/>' % tname(i) for i in f.get('includes', []))
        return '<div xmlns:xi="%s">T%d v%d%s%s' % (XI, b, f['content'], inc, '' if f.get('bad') else '</div>')
    inc = ''.join(' {%% include %s %%}' % tname(i) for i in f.get('includes', []))
    return 'T%d v%d%s%s' % (b, f['content'], ' ${1+}' if f.get('bad') else '', inc)


def expected_render(files, b, markup=False):
    f = files[b]
    if markup:
        return '<div>T%d v%d%s</div>' % (b, f['content'], ''.join(expected_render(files, i, True) for i in f.get('includes', [])))
    return 'T%d v%d%s' % (b, f['content'], ''.join(' ' + expected_render(files, i) for i in f.get('includes', [])))


def L(b):
    return ['L', b]


SCENARIOS = [
    {'name': 'same-cold', 'cap': 2, 'auto_reload': False, 'callback': False,
     'files': {0: {'content': 10}}, 'setup': [], 'threads': [[0], [0]], 'bound': 2},
    {'name': 'hits-inner-node', 'cap': 3, 'auto_reload': False, 'callback': False,
     'files': {0: {'content': 10}, 1: {'content': 11}, 2: {'content': 12}},
     'setup': [L(0), L(1), L(2)], 'threads': [[1], [0]], 'bound': 2},
    {'name': 'evict-race', 'cap': 1, 'auto_reload': False, 'callback': False,
     'files': {0: {'content': 10}, 1: {'content': 11}}, 'setup': [], 'threads': [[0], [1]], 'bound': 2},
    {'name': 'reload-race', 'cap': 2, 'auto_reload': True, 'callback': False,
     'files': {0: {'content': 10}}, 'setup': [L(0), ['W', 0, 20], ], 'threads': [[0], [0]], 'bound': 2},
    {'name': 'nested-include', 'cap': 3, 'auto_reload': False, 'callback': True,
     'files': {0: {'content': 10, 'includes': [1]}, 1: {'content': 11}}, 'setup': [],
     'threads': [[0], [1]], 'bound': 2},
    {'name': 'failing', 'cap': 2, 'auto_reload': False, 'callback': False,
     'files': {0: {'content': 10}, 1: {'content': 11, 'bad': True}}, 'setup': [],
     'threads': [[5, 0], [1, 0]], 'bound': 2},
    {'name': 'two-each', 'cap': 2, 'auto_reload': False, 'callback': True,
     'files': {0: {'content': 10, 'includes': [2]}, 1: {'content': 11}, 2: {'content': 12}}, 'setup': [],
     'threads': [[0, 1], [1, 0]], 'bound': 1, 'sample': 150},
    {'name': 'hits-update-item', 'cap': 4, 'auto_reload': False, 'callback': False,
     'files': dict((i, {'content': 10 + i}) for i in range(4)),
     'setup': [L(0), L(1), L(2), L(3)], 'threads': [[1, 2], [2, 0]], 'bound': 2},
]
# a writer thread replaces a file (new file renamed over the name) while another thread loads it:
# thread programs may contain ['W', base, content]; the writer has no yield points of its own, so
# a preemption [[k, writer]] lets the replacement land exactly at yield point k of the load
SCENARIOS.append(
    {'name': 'replace-during-load', 'cap': 2, 'auto_reload': True, 'callback': False,
     'files': {0: {'content': 10}}, 'setup': [], 'threads': [[0], [['W', 0, 20]]], 'bound': 1})
SCENARIOS.append(
    {'name': 'replace-during-reload', 'cap': 2, 'auto_reload': True, 'callback': False,
     'files': {0: {'content': 10}, 1: {'content': 11}}, 'setup': [L(0), L(1), ['T', 0]],
     'threads': [[0, 1], [['W', 0, 20]]], 'bound': 1})

# threads that render / touch `.stream` of templates loaded in the set-up phase (prepare-time
# inlining of static includes re-enters `load` from OUTSIDE the loader lock) while other threads
# load uncached names with loader callbacks that register filters / directives
# (`Translator().setup` -> `filters.insert`, `add_directives`).  Thread program items:
# ['R', b] renders the template the set-up phase loaded for b, ['S', b] touches its `.stream`.
# `callback`: 'setup' = Translator().setup(t); 'filters' = t.filters.append(identity);
# 'setup+stream' = setup, then t.stream (prepare under the loader lock).
# Judged by the oracle and the lock model (`gdrv C16 locks`); the load-level trace validation
# covers programs of loads only.
SCENARIOS_RENDER = [
    {'name': 'render-vs-load', 'cap': 3, 'auto_reload': False, 'callback': 'setup', 'markup': True,
     'files': {0: {'content': 10, 'includes': [1]}, 1: {'content': 11}, 2: {'content': 12}},
     'setup': [L(0)], 'threads': [[['R', 0]], [2]], 'bound': 2},
    {'name': 'render-vs-render', 'cap': 2, 'auto_reload': False, 'callback': 'setup', 'markup': True,
     'files': {0: {'content': 10, 'includes': [1]}, 1: {'content': 11}, 2: {'content': 12, 'includes': [1, 3]},
               3: {'content': 13}},
     'setup': [L(0), L(2)], 'threads': [[['R', 0], 3], [['S', 2], ['R', 2]]], 'bound': 1, 'sample': 100},
    {'name': 'stream-vs-load-text', 'cap': 2, 'auto_reload': False, 'callback': 'filters',
     'files': {0: {'content': 10, 'includes': [1]}, 1: {'content': 11}, 2: {'content': 12, 'includes': [1]}},
     'setup': [L(0)], 'threads': [[['S', 0], ['R', 0]], [2, ['R', 2]]], 'bound': 1, 'sample': 100},
    {'name': 'prepare-in-callback-vs-render', 'cap': 3, 'auto_reload': False, 'callback': 'setup+stream', 'markup': True,
     'files': {0: {'content': 10, 'includes': [1]}, 1: {'content': 11}, 2: {'content': 12, 'includes': [1]}},
     'setup': [L(1)], 'threads': [[0, ['R', 0]], [2, ['R', 1]]], 'bound': 1, 'sample': 100},
]

SCENARIOS_MANY = [
    {'name': 'three-threads', 'cap': 2, 'auto_reload': True, 'callback': False,
     'files': {0: {'content': 10}, 1: {'content': 11}, 2: {'content': 12}}, 'setup': [L(0), ['T', 0]],
     'threads': [[0, 1], [1, 2], [2, 0]], 'bound': 1, 'sample': 100},
    {'name': 'four-threads', 'cap': 2, 'auto_reload': False, 'callback': True,
     'files': {0: {'content': 10, 'includes': [1]}, 1: {'content': 11, 'includes': [2]}, 2: {'content': 12},
               3: {'content': 13}},
     'setup': [], 'threads': [[0, 3], [1, 0], [2, 1], [3, 2]], 'bound': 0, 'sample': 200},
]


def all_scenarios(thorough):
    out = []
    for s in SCENARIOS + SCENARIOS_RENDER + SCENARIOS_MANY:
        s = json.loads(json.dumps(s))
        s['files'] = dict((int(k), v) for k, v in s['files'].items())
        if thorough and not has_writer(s):
            if s['bound'] == 2:
                s['bound'] = 3
            else:
                s['sample'] = s.get('sample', 0) * 20
        out.append(s)
    return out


def has_writer(s):
    return any(isinstance(x, list) and x[0] == 'W' for prog in s['threads'] for x in prog)


def load_programs_only(s):
    """the load-level interleaving model (`gdrv C16 trace` / `nested`) covers thread programs of
    loads on text templates whose callback is absent or `lambda t: t.stream`"""
    return (not has_writer(s) and not s.get('markup') and s['callback'] in (False, True) and
            all(isinstance(x, int) for prog in s['threads'] for x in prog))


def norm_scenario(s):
    s = dict(s)
    s['files'] = dict((int(k), v) for k, v in s['files'].items())
    return s


# --------------------------------------------------------------------------
# one scheduled run of the real loader

_env = {}


def env():
    """per-process set-up: the traced files and a scratch directory"""
    if not _env:
        import genshi.template.loader as LM
        import genshi.util as UM
        _env['files'] = [os.path.abspath(LM.__file__), os.path.abspath(UM.__file__)]
        _env['root'] = os.path.join(proto.ROOT, '.build', 'c16-%d' % os.getpid())
        _env['current'] = [None]
        _env['written'] = None
        _env['watch'] = [None]
    return _env


def cleanup():
    if _env.get('root'):
        shutil.rmtree(_env['root'], ignore_errors=True)


def write_files(root, scn, files):
    os.makedirs(root, exist_ok=True)
    for fn in os.listdir(root):
        os.remove(os.path.join(root, fn))
    for i, (b, f) in enumerate(sorted(files.items())):
        p = os.path.join(root, tname(b))
        with open(p, 'w') as fh:
            fh.write(file_text(b, f, scn.get('markup')))
        os.utime(p, (1000000 + i + 1, 1000000 + i + 1))


class Obs(object):
    """everything recorded during one run"""

    def __init__(self):
        self.events = []        # (tid, label…) in global order: the trace for the model
        self.cache_ops = []     # ('G'|'P', key-index, obj, lock-owned)
        self.unlocked = []      # cache operations performed without owning the lock
        self.inst = []          # templates in order of instantiation
        self.keys = {}          # cache key (str) -> small int
        self.returns = {}       # tid -> list of ('ok', template) | ('err', class name)
        self.loader = None
        self.numbering = None
        self.versions = {}      # base -> contents the file had while the threads ran
        self.preloaded = {}     # base -> template the set-up phase loaded
        self.watch = None       # lockwatch.Watch of this run

    def obj(self, t):
        for i, x in enumerate(self.inst):
            if x is t:
                return i
        return -1

    def key(self, k):
        return self.keys.setdefault(k, len(self.keys))


def build(scn, obs, e):
    """fresh loader with the recording proxies; runs the set-up phase serially"""
    from genshi.template.loader import TemplateLoader
    from genshi.template import NewTextTemplate, MarkupTemplate
    from genshi.util import LRUCache
    root = e['root']
    markup = bool(scn.get('markup'))
    # every lock a genshi module creates (or created at import time) is wrapped and watched
    obs.watch = lockwatch.Watch(len(scn['threads']))
    e['watch'][0] = obs.watch
    lockwatch.instrument(lambda: e['current'][0], lambda: e['watch'][0])
    files = dict((b, dict(f)) for b, f in scn['files'].items())
    write_files(root, scn, files)
    clock = [len(files) + 2]
    cur = e['current']

    class CountText(MarkupTemplate if markup else NewTextTemplate):
        def __init__(self, *a, **kw):
            (MarkupTemplate if markup else NewTextTemplate).__init__(self, *a, **kw)
            obs.inst.append(self)

    def passthrough(stream, ctxt=None):
        return stream
    kind = scn['callback']
    if kind is True:
        callback = lambda t: t.stream
    elif kind == 'setup':
        from genshi.filters.i18n import Translator
        callback = lambda t: Translator().setup(t)
    elif kind == 'filters':
        callback = lambda t: t.filters.append(passthrough)
    elif kind == 'setup+stream':
        from genshi.filters.i18n import Translator

        def callback(t):
            Translator().setup(t)
            t.stream
    elif not kind:
        callback = None
    else:
        raise ValueError('callback kind %r' % (kind,))
    if kind not in (False, True):
        lockwatch.instrument(lambda: e['current'][0], lambda: e['watch'][0])

    num = G.Numbering()
    obs.numbering = num

    def me():
        s = cur[0]
        return s.me() if s is not None else None

    class RecCache(LRUCache):
        def __getitem__(self, key):
            owned = loader._lock._is_owned() if me() is not None else True
            try:
                v = LRUCache.__getitem__(self, key)
            except KeyError:
                obs.cache_ops.append(('G', obs.key(key), None, owned))
                if me() is not None:
                    obs.events.append((me(), 'get', None))
                if not owned:
                    obs.unlocked.append(('get', key, me()))
                raise
            obs.cache_ops.append(('G', obs.key(key), obs.obj(v), owned))
            if me() is not None:
                obs.events.append((me(), 'get', obs.obj(v)))
            if not owned:
                obs.unlocked.append(('get', key, me()))
            return v

        def __setitem__(self, key, value):
            owned = loader._lock._is_owned() if me() is not None else True
            if me() is not None:
                obs.events.append((me(), 'put', obs.obj(value)))
            obs.cache_ops.append(('P', obs.key(key), obs.obj(value), owned))
            if not owned:
                obs.unlocked.append(('set', key, me()))
            new = num.before_put(self, key)
            LRUCache.__setitem__(self, key, value)
            num.after_put(self, key, new)

    loader = TemplateLoader([root], auto_reload=scn['auto_reload'], max_cache_size=scn['cap'],
                            default_class=CountText, callback=callback)
    # the lock object the code created (already handed out through the watched factory)
    loader._lock = sched.SchedLock(lambda: cur[0], lockwatch.unwrap(loader._lock), name='loader._lock',
                                   hook=lambda tid, lab: obs.events.append((tid, lab)),
                                   order=lambda: e['watch'][0])
    obs.watch.lock_id(loader._lock)          # lock 0 = the loader lock
    loader._cache = RecCache(scn['cap'])
    real_load = loader.load

    def load(filename, relative_to=None, cls=None, encoding=None):
        tid = me()
        if tid is not None:
            obs.events.append((tid, 'call'))
        try:
            t = real_load(filename, relative_to=relative_to, cls=cls, encoding=encoding)
        except sched._Abort:
            raise
        except Exception as ex:  # noqa
            if tid is not None:
                obs.events.append((tid, 'ret', 'err', type(ex).__name__))
            raise
        if tid is not None:
            obs.events.append((tid, 'ret', 'ok', obs.obj(t)))
        return t
    loader.load = load
    obs.loader = loader
    # set-up phase (serial, main thread)
    for op in scn['setup']:
        if op[0] == 'L':
            try:
                obs.preloaded[op[1]] = loader.load(tname(op[1]))
            except Exception:  # noqa
                pass
        elif op[0] in ('W', 'T'):
            b = op[1]
            if op[0] == 'W':
                files[b] = dict(files.get(b, {}), content=op[2])
                with open(os.path.join(root, tname(b)), 'w') as fh:
                    fh.write(file_text(b, files[b], markup))
            p = os.path.join(root, tname(b))
            os.utime(p, (1000000 + clock[0], 1000000 + clock[0]))
            clock[0] += 1
    obs.final_files = files
    for b, f in files.items():
        obs.versions[b] = [f['content']]

    def replace_file(b, content):
        """write the new version aside and rename it over the name (the open file object of a
        load that is under way keeps the old content)"""
        files[b] = dict(files.get(b, {}), content=content)
        p = os.path.join(root, tname(b))
        with open(p + '.new', 'w') as fh:
            fh.write(file_text(b, files[b], markup))
        os.utime(p + '.new', (1000000 + clock[0], 1000000 + clock[0]))
        clock[0] += 1
        os.replace(p + '.new', p)
        obs.versions.setdefault(b, []).append(content)
    obs.replace_file = replace_file
    return loader


def run_schedule(scn, schedule, record_where=False):
    e = env()
    obs = Obs()
    loader = build(scn, obs, e)

    def body(names, tid):
        def f():
            out = obs.returns.setdefault(tid, [])
            for b in names:
                if isinstance(b, list) and b[0] in ('R', 'S'):
                    t = obs.preloaded.get(b[1])
                    try:
                        if t is None:
                            # not loaded in the set-up phase: the thread's own earlier load
                            t = [v for k, v in out if k == 'ok' and os.path.basename(v.filepath) == tname(b[1])][-1]
                        if b[0] == 'R':
                            out.append(('rendered', t.generate().render(encoding=None)))
                        else:
                            t.stream
                            out.append(('streamed', None))
                    except sched._Abort:
                        raise
                    except Exception as ex:  # noqa
                        out.append(('err', type(ex).__name__))
                    continue
                if isinstance(b, list):
                    obs.replace_file(b[1], b[2])
                    out.append(('wrote', b[2]))
                    continue
                try:
                    out.append(('ok', loader.load(tname(b))))
                except sched._Abort:
                    raise
                except Exception as ex:  # noqa
                    out.append(('err', type(ex).__name__))
            return None
        return f
    s = sched.Scheduler([body(names, i) for i, names in enumerate(scn['threads'])], e['files'], schedule,
                        timeout=20.0, record_where=record_where)
    e['current'][0] = s
    try:
        run = s.execute()
    except sched.SchedTimeout as ex:
        raise Infra('scheduler: %s (scenario %s, schedule %r)' % (ex, scn['name'], schedule))
    finally:
        e['current'][0] = None
        # what follows (the oracle renders templates in the main thread) is not part of the run
        obs.watch.freeze()
    return run, obs


# --------------------------------------------------------------------------
# the oracle (search half)

def judge(scn, schedule, run, obs):
    # `observable`: the failure is one of the property's own clauses (deadlock, wrong template,
    # broken structure); shrinking keeps it that way
    case = {'kind': 'sched', 'scenario': scn, 'schedule': schedule, 'observable': True}

    def bad(what, expected, observed):
        return {'case': case, 'what': what, 'expected': expected, 'observed': observed}
    mk = bool(scn.get('markup'))
    w = obs.watch
    cyc = w.cycle() if w is not None else None
    if run.deadlock is not None:
        f = bad('no call deadlocks', 'all threads finish',
                'deadlock at yield point %d: blocked %s' % (run.deadlock['step'], json.dumps(run.deadlock['blocked'], sort_keys=True)))
        if cyc:
            f['observed'] += '; lock-order cycle: ' + json.dumps(w.describe(cyc), sort_keys=True)
        return f
    if run.errors:
        t = sorted(run.errors)[0]
        return bad('thread %d ends normally' % t, 'no exception', '%s: %s' % (type(run.errors[t]).__name__, run.errors[t]))
    files = obs.final_files
    for tid, names in enumerate(scn['threads']):
        got = obs.returns.get(tid, [])
        if len(got) != len(names):
            return bad('thread %d performs all its loads' % tid, len(names), len(got))
        for b, (kind, val) in zip(names, got):
            if isinstance(b, list) and b[0] in ('R', 'S'):
                exp = ('rendered', expected_render(files, b[1], mk)) if b[0] == 'R' else ('streamed', None)
                if (kind, val) != exp:
                    return bad('thread %d: %s of the loaded template %s' % (tid, 'rendering' if b[0] == 'R' else '.stream', tname(b[1])),
                               list(exp), [kind, val])
                continue
            if isinstance(b, list):
                continue
            if len(obs.versions.get(b, [])) > 1 and kind == 'ok':
                # the file was replaced while the threads ran: any version it had is correct
                try:
                    text = val.generate().render(encoding=None)
                except Exception as ex:  # noqa
                    text = 'render raises %s' % type(ex).__name__
                allowed = []
                for c in obs.versions[b]:
                    fv = dict(files)
                    fv[b] = dict(files[b], content=c)
                    allowed.append(expected_render(fv, b, mk))
                if text not in allowed or os.path.basename(val.filepath) != tname(b):
                    return bad('thread %d: load(%s) returns a version the file had' % (tid, tname(b)), allowed, text)
                continue
            f = files.get(b)
            if f is None:
                exp = ('err', 'TemplateNotFound')
            elif f.get('bad'):
                exp = ('err', 'TemplateSyntaxError')
            else:
                exp = ('ok', expected_render(files, b, mk))
            if kind == 'ok':
                try:
                    obs_val = ('ok', val.generate().render(encoding=None))
                except Exception as ex:  # noqa
                    obs_val = ('ok', 'render raises %s' % type(ex).__name__)
                if os.path.basename(val.filepath) != tname(b):
                    obs_val = ('ok', 'template of file %s' % os.path.basename(val.filepath))
            else:
                obs_val = (kind, val)
            if obs_val != exp:
                return bad('thread %d: load(%s) returns a correct template for the name it asked for' % (tid, tname(b)),
                           list(exp), list(obs_val))
    cache = obs.loader._cache
    broken = G.structure_ok(cache)
    if broken:
        return bad('afterwards the cache is a well-formed bounded LRU list', 'every cached key reachable exactly once from head to tail, size within the bound', broken)
    lk = obs.loader._lock
    if lk.depth != 0 or lk.owner is not None:
        return bad('the lock is free at the end', 'depth 0', 'depth %d owner %r' % (lk.depth, lk.owner))
    if scn['auto_reload']:
        # with automatic reloading a call made after the threads are done sees what the files hold now
        for b in sorted(k for k, v in obs.versions.items() if len(v) > 1):
            try:
                text = obs.loader.load(tname(b)).generate().render(encoding=None)
            except Exception as ex:  # noqa
                text = 'raises %s' % type(ex).__name__
            if text != expected_render(files, b, mk):
                return bad('a load after the threads are done returns the current content of %s (auto_reload)' % tname(b),
                           expected_render(files, b, mk), text)
    if cyc:
        # no call deadlocked under this schedule, but the threads (set-up phase included) took
        # locks in orders that form a cycle: two threads on these paths can block each other for
        # ever.  Soft: the exploration goes on looking for the schedule that exhibits the deadlock.
        f = bad('no call deadlocks: the order in which locks are taken while others are held is acyclic',
                'no cycle in the held -> wanted graph over all locks genshi creates',
                'potential deadlock: ' + json.dumps(w.describe(cyc), sort_keys=True))
        f['soft'] = True
        f['case'] = dict(case, observable=False)
        return f
    if obs.unlocked:
        # nothing observable went wrong under this schedule, but the cache was touched by a thread
        # that did not hold the loader lock (asserted by the instrumented cache subclass)
        f = bad('every cache operation happens with the loader lock held', 'lock owned',
                'cache.%s(%s) by thread %s without the lock' % obs.unlocked[0])
        f['soft'] = True
        f['case'] = dict(case, observable=False)
        return f
    return None


# --------------------------------------------------------------------------
# trace validation against the Lean model

def wire_req(scn, b, nested):
    f = scn['files'].get(b, {})
    kids = []
    if scn['callback'] and not scn['auto_reload']:
        kids = [wire_req(scn, i, True) for i in f.get('includes', [])]
    rel = [Atom('A'), DIR, B(False)] if nested else N
    return [Atom('Q'), b, B(False), N, rel, 0, 0, B(False), N, kids]


def trace_line(scn, obs):
    setup = []
    for i, (b, f) in enumerate(sorted(scn['files'].items())):
        setup.append([Atom('W'), DIR, B(False), b, f['content'], B(bool(f.get('bad')))])
    for op in scn['setup']:
        if op[0] == 'L':
            setup.append([Atom('L'), op[1], B(False), N, N, 0, 0, B(False), N])
        elif op[0] == 'W':
            f = scn['files'].get(op[1], {})
            setup.append([Atom('W'), DIR, B(False), op[1], op[2], B(bool(f.get('bad')))])
        elif op[0] == 'T':
            setup.append([Atom('T'), DIR, B(False), op[1]])
    progs = [[wire_req(scn, b, False) for b in names] for names in scn['threads']]
    evs = []
    for ev in obs.events:
        tid, lab = ev[0], ev[1]
        if lab == 'get':
            evs.append([tid, Atom('get'), N if ev[2] is None else ev[2]])
        elif lab == 'put':
            evs.append([tid, Atom('put'), ev[2]])
        elif lab == 'ret':
            evs.append([tid, Atom('ret'), Atom(ev[2]), Atom(ev[3]) if ev[2] == 'err' else ev[3]])
        else:
            evs.append([tid, Atom(lab)])
    return proto.line(Atom('C16'), Atom('trace'), scn['cap'], B(scn['auto_reload']), B(scn['callback']),
                      [[Atom('D'), DIR, B(False)]], setup, progs, evs)


def expected_trace_answer(scn, obs):
    """what gdrv answers if the real run is an execution of the model with the same final state"""
    cache = obs.loader._cache
    order = []
    for k in cache:
        order.append(k)
        if len(order) > len(cache._dict) + 2:
            break
    items = []
    for k in order:
        b = int(os.path.basename(k)[1:-4])
        items.append([[N, B(False), b], obs.obj(cache._dict[k].value) if k in cache._dict else -1])
    completed = []
    # top-level results in the order of release: reconstruct from the events
    depth = {}
    for ev in obs.events:
        tid, lab = ev[0], ev[1]
        if lab == 'call':
            depth[tid] = depth.get(tid, 0) + 1
        elif lab == 'ret':
            depth[tid] -= 1
    # completed log = order of top-level 'rel' events; results from the matching 'ret'
    pending = {}
    d = {}
    out = []
    for ev in obs.events:
        tid, lab = ev[0], ev[1]
        if lab == 'call':
            d[tid] = d.get(tid, 0) + 1
        elif lab == 'rel' and d.get(tid, 0) == 1:
            out.append([tid, None])
            pending[tid] = len(out) - 1
        elif lab == 'ret':
            if d.get(tid, 0) == 1 and tid in pending:
                out[pending.pop(tid)][1] = [Atom('ok'), ev[3]] if ev[2] == 'ok' else [Atom('err'), Atom(ev[3])]
            d[tid] -= 1
    completed = [[t, r] for t, r in out]
    return proto.enc([Atom('ok'), items, completed, len(obs.inst), B(True)])


def lock_line(w, run):
    """the lock actions of all threads (main thread = thread n: the set-up phase) in their global
    order for `gdrv C16 locks`, and the answer expected if the real run is an execution of the
    model with several re-entrant locks: accepted, the same final holdings, deadlock iff the
    scheduler found one, and the programs respect the numbering iff the observed graph is acyclic"""
    progs = [[[Atom('A' if k == 'A' else 'R'), l] for k, l in p] for p in w.model_progs()]
    events = [[t, Atom(k), l] for t, k, l in w.events]
    rank = w.rank()
    final = []
    for t in range(w.n + 1):
        final.append([list(reversed(w.held.get(t, []))), 1 if t in w.pending else 0])
    edges = []
    for p in w.model_progs():
        held = []
        for k, l in p:
            if k == 'A':
                if l not in held:
                    for h in dict.fromkeys(held):
                        if [h, l] not in edges:
                            edges.append([h, l])
                held.insert(0, l)
            elif l in held:
                held.remove(l)
    exp = [Atom('ok'), final, B(run.deadlock is not None), B(rank is not None), edges]
    return (proto.line(Atom('C16'), Atom('locks'), progs, events, rank if rank is not None else [0] * len(w.names)),
            proto.enc(exp))


def lru_replay_lines(scn, obs):
    """the recorded cache operations replayed on the concrete LRU model: request + expected answer"""
    ops = []
    outs = []
    for kind, k, o, _ in obs.cache_ops:
        if kind == 'G':
            ops.append(['G', k])
            outs.append('KE' if o is None else ('v', o))
        else:
            ops.append(['P', k, o])
            outs.append('U')
    nkeys = max(1, len(obs.keys))
    cache = obs.loader._cache

    class KeyView(object):
        """the real cache seen with small-int keys"""
    # dump with keys mapped to their small ints
    inv = obs.keys
    size = len(cache._dict)
    fwd = G.walk(cache.head, 'nxt', size + 2)
    bwd = G.walk(cache.tail, 'prv', size + 2)
    o = obs.numbering.of
    nodes = 'loop' if fwd is None else [[o(n), o(n.prv), o(n.nxt), inv.get(n.key, -1), obs.obj(n.value)] for n in fwd]
    back = 'loop' if bwd is None else [o(n) for n in bwd]
    byint = dict((inv[k], v) for k, v in cache._dict.items() if k in inv)
    d = [[k, o(byint[k])] for k in range(nkeys) if k in byint]
    dmp = [o(cache.head), o(cache.tail), size, nodes, back, d]
    items = [(inv.get(n.key, -1), obs.obj(n.value)) for n in (fwd or [])]
    return G.model_line(scn['cap'], nkeys, ops), G.expected_answer(outs, dmp, items)


# --------------------------------------------------------------------------
# exploration

def explore_shard(arg):
    """arg: (scenario, mode, param, seed). mode 'first': all schedules with <= bound preemptions whose
    first preemption is one of param (list of [step, tid]); includes the empty schedule if
    param is None.  mode 'random': param random preemption lists."""
    scn, mode, param, seed = arg
    scn = norm_scenario(scn)
    res = Result()
    lines, expect, cases = [], [], []
    lru_lines, lru_expect = [], []
    lock_lines, lock_expect, lock_cases = [], [], []
    stop = [False]
    soft = []

    def make_run(schedule):
        return run_schedule(scn, schedule)

    def on_run(schedule, run, obs):
        res.evaluations += 1
        res.count('runs:' + scn['name'])
        res.count('switches', run.switches)
        if any(e[1] == 'blk' for e in obs.events):
            res.count('runs-with-a-blocked-acquire')
        snap = None
        # every run, deadlocked ones included: the recorded lock actions against the lock model
        ll = lock_line(obs.watch, run)
        lock_lines.append(ll[0])
        lock_expect.append(ll[1])
        lock_cases.append(list(schedule))
        res.count('locks-seen:%d' % len(obs.watch.names))
        if obs.watch.edges:
            res.count('runs-with-nested-acquisitions-of-different-locks')
        if any(isinstance(x, list) and x[0] in ('R', 'S') for prog in scn['threads'] for x in prog):
            res.count('runs-with-render/stream-threads')
        if has_writer(scn):
            # the interleaving model keeps the files fixed while threads run (C15's LoaderRace
            # model and `racing_write_is_linearizable` cover the replacement): oracle only
            res.count('runs-with-a-writer-thread (oracle only)')
        elif not load_programs_only(scn):
            res.count('runs-judged-by-oracle-and-lock-model-only')
        elif run.deadlock is None and not run.errors:
            # what the model is asked, taken before the oracle renders anything
            try:
                snap = (trace_line(scn, obs), expected_trace_answer(scn, obs)) + lru_replay_lines(scn, obs)
            except Exception as ex:  # noqa: a structure too broken to describe; the oracle reports it
                snap = None
        f = judge(scn, list(schedule), run, obs)
        if f:
            if f.get('soft'):
                # keep looking for a schedule under which something observable goes wrong
                soft.append(f)
                return len(soft) > 400
            res.failures.append(f)
            stop[0] = len(res.failures) >= 3
            return stop[0]
        if run.switches:
            res.nontrivial.add('%s:%s' % (scn['name'], json.dumps(schedule)))
        if snap is not None:
            lines.append(snap[0])
            expect.append(snap[1])
            cases.append(list(schedule))
            lru_lines.append(snap[2])
            lru_expect.append(snap[3])
        return False
    try:
        if mode == 'first':
            if param is None:
                run, obs = make_run([])
                on_run([], run, obs)
            else:
                first = set((s, t) for s, t in param)
                # the empty schedule is only needed to enumerate; do not count it again
                base_run, _ = make_run([])
                for (s, t) in sorted(first):
                    if stop[0]:
                        break
                    if s <= base_run.steps and t in base_run.alts[s - 1]:
                        def rec(schedule, depth):
                            run, obs = make_run(schedule)
                            if on_run(schedule, run, obs):
                                return True
                            if depth >= scn['bound'] or run.deadlock:
                                return False
                            for i in range(schedule[-1][0], run.steps):
                                for t2 in run.alts[i]:
                                    if rec(schedule + [[i + 1, t2]], depth + 1):
                                        return True
                            return False
                        rec([[s, t]], 1)
        elif mode == 'list':
            for schedule in param:
                run, obs = make_run(schedule)
                on_run(schedule, run, obs)
        else:
            rng = random.Random('%s/%s/%s/C16' % (seed, scn['name'], param))
            base_run, _ = make_run([])
            n = len(scn['threads'])
            for _ in range(param):
                if stop[0]:
                    break
                k = rng.choice([1, 2, 2, 3, 3, 4, 6])
                steps = sorted(rng.sample(range(1, max(2, base_run.steps + 1)), min(k, base_run.steps)))
                schedule = [[s, rng.randrange(n)] for s in steps]
                run, obs = make_run(schedule)
                on_run(schedule, run, obs)
    finally:
        cleanup()
    res.failures.extend(soft[:1])
    if lock_lines:
        answers = proto.run_lines(lock_lines)
        for sch, ans, exp in zip(lock_cases, answers, lock_expect):
            res.streams['lock-model'] = res.streams.get('lock-model', 0) + 1
            if ans != exp:
                res.disagreements.append({'stream': 'lock-model',
                                          'case': {'kind': 'sched', 'scenario': scn, 'schedule': sch},
                                          'model': ans[:1200], 'real': exp[:1200]})
    if lines:
        answers = proto.run_lines(lines)
        for sch, ans, exp in zip(cases, answers, expect):
            res.streams['trace-validation'] = res.streams.get('trace-validation', 0) + 1
            if ans != exp:
                res.disagreements.append({'stream': 'trace-validation',
                                          'case': {'kind': 'sched', 'scenario': scn, 'schedule': sch},
                                          'model': ans[:1200], 'real': exp[:1200]})
        answers = proto.run_lines(lru_lines)
        for sch, ans, exp in zip(cases, answers, lru_expect):
            res.streams['linked-structure'] = res.streams.get('linked-structure', 0) + 1
            if ans != exp:
                res.disagreements.append({'stream': 'linked-structure',
                                          'case': {'kind': 'sched', 'scenario': scn, 'schedule': sch},
                                          'model': ans[:1200], 'real': exp[:1200]})
    return res


def nested_serial(arg):
    """the sequential specification with nested loads (`loadN`, theorem each_load_correct_nested)
    against the real loader: the top-level loads of a scenario performed one after the other by
    one thread, in a seeded order, includes re-entering `load` from the callback"""
    scn, seed = arg
    scn = norm_scenario(scn)
    res = Result()
    if not load_programs_only(scn):
        return res
    lines, expect, cases = [], [], []
    try:
        for k in range(6):
            rng = random.Random('%s/%s/%d/C16-nested' % (seed, scn['name'], k))
            loads = [(tid, b) for tid, names in enumerate(scn['threads']) for b in names]
            if k:
                rng.shuffle(loads)
                loads = loads + [rng.choice(loads) for _ in range(rng.randrange(0, 4))]
            e = env()
            obs = Obs()
            loader = build(scn, obs, e)
            results = []
            for tid, b in loads:
                try:
                    t = loader.load(tname(b))
                    results.append([tid, [Atom('ok'), obs.obj(t)]])
                except Exception as ex:  # noqa
                    results.append([tid, [Atom('err'), Atom('CallbackError' if not isinstance(ex, (IOError, OSError)) and
                                                             type(ex).__name__ not in ('TemplateNotFound', 'TemplateSyntaxError', 'TemplateError')
                                                             else type(ex).__name__)]])
            res.evaluations += 1
            res.count('nested-serial:' + scn['name'])
            cache = loader._cache
            order = []
            for key in cache:
                order.append(key)
                if len(order) > len(cache._dict) + 2:
                    break
            items = [[[N, B(False), int(os.path.basename(key)[1:-4])],
                      obs.obj(cache._dict[key].value) if key in cache._dict else -1] for key in order]
            lk = loader._lock
            ncb = len(obs.inst) if scn['callback'] else 0
            setup = [[Atom('W'), DIR, B(False), b, f['content'], B(bool(f.get('bad')))]
                     for b, f in sorted(scn['files'].items())]
            for op in scn['setup']:
                if op[0] == 'L':
                    setup.append([Atom('L'), op[1], B(False), N, N, 0, 0, B(False), N])
                elif op[0] == 'W':
                    setup.append([Atom('W'), DIR, B(False), op[1], op[2], B(bool(scn['files'].get(op[1], {}).get('bad')))])
                elif op[0] == 'T':
                    setup.append([Atom('T'), DIR, B(False), op[1]])
            lines.append(proto.line(Atom('C16'), Atom('nested'), scn['cap'], B(scn['auto_reload']), B(scn['callback']),
                                    [[Atom('D'), DIR, B(False)]], setup,
                                    [[tid, wire_req(scn, b, False)] for tid, b in loads]))
            expect.append(proto.enc([Atom('ok'), items, results, len(obs.inst), lk.depth, ncb]))
            cases.append([[tid, b] for tid, b in loads])
            if any(scn['files'].get(b, {}).get('includes') for _, b in loads) and scn['callback'] and not scn['auto_reload']:
                res.count('nested-serial:with includes')
    finally:
        cleanup()
    answers = proto.run_lines(lines)
    for ld, ans, exp in zip(cases, answers, expect):
        res.streams['nested-serial'] = res.streams.get('nested-serial', 0) + 1
        if ans != exp:
            res.disagreements.append({'stream': 'nested-serial', 'case': {'kind': 'selfcheck', 'variant': 'nested-serial',
                                                                         'scenario': scn['name'], 'loads': ld},
                                      'model': ans[:1200], 'real': exp[:1200]})
    return res


def gen_lock_prog(rng, nlocks, ordered, depth=0):
    """a balanced program of lock actions: nested blocks `A l … R l` (re-entrant re-acquisitions
    included), now and then released in acquisition order instead of nested; `ordered`: locks
    are only acquired in increasing order while others are held (a rank exists)"""
    out = []
    for _ in range(rng.choice([1, 1, 2]) if depth else rng.choice([1, 2, 2, 3])):
        l = rng.randrange(nlocks)
        out.append((l, gen_lock_prog(rng, nlocks, ordered, depth + 1) if depth < 2 and rng.random() < 0.6 else []))
    return out


def flatten_lock_prog(rng, tree, ordered, held=()):
    acts = []
    for l, inner in tree:
        if ordered and held and l not in held and l < max(held):
            l = max(held)
        body = flatten_lock_prog(rng, inner, ordered, held + (l,))
        if body and body[0][0] == 'A' and rng.random() < 0.2:
            # hand-over-hand: A l, A m, R l, …, R m
            acts += [('A', l), body[0], ('R', l)] + body[1:]
        else:
            acts += [('A', l)] + body + [('R', l)]
    return acts


def lock_synthetic(arg):
    """the model with several re-entrant locks against real `threading.RLock`s: seeded thread
    programs over 2-3 locks run by 2-3 real threads under seeded preemption lists; the recorded
    lock events must be an execution of the model, the model's deadlock verdict must be the
    scheduler's, and a run whose programs have a rank must not deadlock (the theorem's instance)"""
    seed, count = arg
    import threading
    from harness import lockprog
    res = Result()
    lines, expect, cases = [], [], []
    files = [os.path.abspath(lockprog.__file__)]
    cur = [None]
    wref = [None]
    for k in range(count):
        rng = random.Random('%s/%d/C16-locks' % (seed, k))
        nthreads = rng.choice([2, 2, 3])
        nlocks = rng.choice([2, 2, 3])
        ordered = rng.random() < 0.3
        progs = [flatten_lock_prog(rng, gen_lock_prog(rng, nlocks, ordered), ordered) for _ in range(nthreads)]
        total = sum(len(p) for p in progs)
        steps = sorted(rng.sample(range(1, 2 * total + 2), min(rng.choice([0, 1, 2, 3, 4, 6, 8]), 2 * total)))
        schedule = [[st, rng.randrange(nthreads)] for st in steps]
        if rng.random() < 0.35:
            # fine-grained round robin: the interleaving in which opposite orders meet
            stride = rng.choice([1, 2, 3, 4])
            schedule = [[st, (st // stride) % nthreads] for st in range(1, 3 * total, stride)]
        w = lockwatch.Watch(nthreads)
        wref[0] = w
        locks = [sched.SchedLock(lambda: cur[0], threading.RLock(), name='lock%d' % i, order=lambda: wref[0])
                 for i in range(nlocks)]
        for lk in locks:
            w.lock_id(lk)
        s = sched.Scheduler([(lambda p=p: lockprog.run_prog(locks, p)) for p in progs], files, schedule, timeout=20.0)
        cur[0] = s
        try:
            run = s.execute()
        except sched.SchedTimeout as ex:
            raise Infra('scheduler: %s (synthetic lock programs %r, schedule %r)' % (ex, progs, schedule))
        finally:
            cur[0] = None
            w.freeze()
        res.evaluations += 1
        case = {'kind': 'locks', 'programs': [[list(a) for a in p] for p in progs], 'nlocks': nlocks, 'schedule': schedule}
        ln, exp = lock_line(w, run)
        lines.append(ln)
        expect.append(exp)
        cases.append(case)
        res.count('lock-synthetic:%s' % ('deadlock' if run.deadlock else 'completes'))
        res.count('lock-synthetic:%s' % ('rank exists' if w.rank() is not None else 'cyclic order'))
        if any(e[1] == 'blk' for e in w.events):
            res.count('lock-synthetic:a thread was blocked')
        if run.switches:
            res.nontrivial.add('locks:' + json.dumps(case, sort_keys=True))
        if run.errors:
            t = sorted(run.errors)[0]
            res.failures.append({'case': case, 'what': 'synthetic lock program runs', 'expected': 'no exception',
                                 'observed': '%s: %s' % (type(run.errors[t]).__name__, run.errors[t])})
    for case, ans, exp in zip(cases, proto.run_lines(lines), expect):
        res.streams['lock-model-synthetic'] = res.streams.get('lock-model-synthetic', 0) + 1
        if ans != exp:
            res.disagreements.append({'stream': 'lock-model-synthetic', 'case': dict(case, kind='selfcheck', variant='lock-model-synthetic'),
                                      'model': ans[:1200], 'real': exp[:1200]})
    return res


def validator_selfcheck(_):
    """the trace validator must reject traces that are not executions of the model: a second
    thread acquiring a held lock, a cache operation without the lock, a wrong stored object, a
    missing release; and must not call a truncated trace complete"""
    scn = norm_scenario(all_scenarios(False)[4])
    res = Result()
    try:
        try:
            run, obs = run_schedule(scn, [[30, 1]])
        except Infra:
            raise
        good = list(obs.events)

        def ask(evs):
            obs.events = evs
            return proto.run_lines([trace_line(scn, obs)])[0]
        if run.deadlock or run.errors or not ask(good).startswith('( ok'):
            # the code under test does not follow the model under this schedule: that is reported
            # by the oracle / the trace-validation stream, not by the self-check of the validator
            return res
        variants = {}
        if (1, 'blk') in good:
            b = list(good)
            b[b.index((1, 'blk'))] = (1, 'acq')
            variants['two-holders'] = (b, '( reject')
        if (0, 'acq') in good:
            variants['no-acquire'] = ([e for e in good if e != (0, 'acq')], '( reject')
        puts = [e for e in good if e[1] == 'put']
        if puts:
            variants['wrong-object'] = ([(e[0], 'put', e[2] + 7) if e == puts[0] else e for e in good], '( reject')
        if (0, 'rel') in good:
            b = list(good)
            b.remove((0, 'rel'))
            variants['no-release'] = (b, '( reject')
        variants['truncated'] = (good[:-3], '( incomplete')
        for name, (evs, want) in sorted(variants.items()):
            ans = ask(evs)
            res.streams['validator-selfcheck'] = res.streams.get('validator-selfcheck', 0) + 1
            if not ans.startswith(want):
                res.disagreements.append({'stream': 'validator-selfcheck', 'case': {'kind': 'selfcheck', 'variant': name},
                                          'model': ans[:300], 'real': want})
    finally:
        cleanup()
    return res


def scenario_len(scn):
    """number of yield points and the alternatives at each, of the unpreempted run"""
    scn = norm_scenario(scn)
    try:
        run, obs = run_schedule(scn, [], record_where=True)
    finally:
        cleanup()
    return {'steps': run.steps, 'alts': [list(a) for a in run.alts], 'where': run.where[:400]}


def corpus_args(ctx, scns):
    """corpus/C16/*.json: (scenario name, schedule) pairs that once exposed something; run first"""
    import glob
    byname = dict((s['name'], s) for s in scns)
    per = {}
    for path in sorted(glob.glob(os.path.join(proto.ROOT, 'corpus', 'C16', '*.json'))):
        with open(path) as f:
            c = json.load(f)
        if c['scenario'] in byname:
            per.setdefault(c['scenario'], []).append(c['schedule'])
    return [(byname[n], 'list', sch, ctx.seed) for n, sch in sorted(per.items())]


def shards(ctx, scns):
    infos = pmap('harness.props.c16', 'scenario_len', scns)
    args = corpus_args(ctx, scns)
    for scn, info in zip(scns, infos):
        if scn['bound'] >= 1:
            firsts = [[i + 1, t] for i, alts in enumerate(info['alts']) for t in alts]
            args.append((scn, 'first', None, ctx.seed))
            chunk = max(1, len(firsts) // (12 if scn['bound'] >= 2 else 2))
            for i in range(0, len(firsts), chunk):
                args.append((scn, 'first', firsts[i:i + chunk], ctx.seed))
        else:
            args.append((scn, 'first', None, ctx.seed))
        if scn.get('sample'):
            per = max(1, scn['sample'] // 4)
            for j in range(4):
                args.append((scn, 'random', per, '%s-%d' % (ctx.seed, j)))
    return args, infos


def run(ctx):
    res = Result()
    scns = all_scenarios(ctx.thorough)
    args, infos = shards(ctx, scns)
    for r in pmap('harness.props.c16', 'explore_shard', args):
        res.merge(r)
    for r in pmap('harness.props.c16', 'validator_selfcheck', [0]):
        res.merge(r)
    for r in pmap('harness.props.c16', 'lock_synthetic', [('%s-%d' % (ctx.seed, j), ctx.n(100, 1500)) for j in range(4)]):
        res.merge(r)
    for r in pmap('harness.props.c16', 'nested_serial', [(scn, ctx.seed) for scn in scns]):
        res.merge(r)
    res.failures.sort(key=lambda f: 1 if f.get('soft') else 0)
    inner = 0
    for scn, info in zip(scns, infos):
        res.count('yield-points:' + scn['name'], info['steps'])
        inner += sum(1 for w in info['where'] if w and w[0] == 'util.py')
    res.count('yield-points-inside-util.py (unpreempted runs)', inner)
    res.rule = ('scenarios x schedules: every schedule with <= bound preemptions at line granularity inside loader.py/util.py '
                '(bound 2 quick / 3 thorough on the two-thread single-load scenarios, 1 on the longer ones) plus seeded random '
                'preemption lists on the longer and the 3-4 thread scenarios; non-trivial = at least one hand-over happened; '
                'distinct by (scenario, schedule)')
    res.samples = [{'scenario': s['name'], 'threads': s['threads'], 'yield_points': i['steps']} for s, i in zip(scns, infos)][:8]
    return res


def search(ctx, res, broken):
    found = []
    for d in res.disagreements[:50]:
        f = replay(ctx, d['case'])
        if f:
            found.append(f)
    if found:
        return found
    scns = all_scenarios(True)
    args = []
    for scn in scns:
        for j in range(2):
            args.append((scn, 'random', 300, '%s-search-%d' % (ctx.seed, j)))
    for r in pmap('harness.props.c16', 'explore_shard', args):
        found.extend(r.failures)
    return found


def replay(ctx, case):
    if case.get('kind') == 'selfcheck':
        return None
    if case.get('kind') != 'sched':
        raise ValueError(case.get('kind'))
    scn = norm_scenario(case['scenario'])
    schedule = [[int(s), int(t)] for s, t in case['schedule']]
    preloaded = set(op[1] for op in scn['setup'] if isinstance(op, list) and op and op[0] == 'L')
    for prog in scn['threads']:
        for i, x in enumerate(prog):
            if isinstance(x, list) and len(x) == 2 and x[0] in ('R', 'S') and not (
                    (x[1] in preloaded or x[1] in [y for y in prog[:i] if isinstance(y, int)]) and x[1] in scn['files']
                    and not scn['files'][x[1]].get('bad')):
                # renders a template nobody loaded
                raise ValueError('not a thread program')
    for prog in scn['threads']:
        for x in prog:
            # shrinking produces thread programs that are no programs
            if not (isinstance(x, int) or (isinstance(x, list) and len(x) == 3 and x[0] == 'W' and
                                           isinstance(x[1], int) and isinstance(x[2], int)) or
                    (isinstance(x, list) and len(x) == 2 and x[0] in ('R', 'S') and isinstance(x[1], int))):
                raise ValueError('not a thread program')
    try:
        run, obs = run_schedule(scn, schedule)
        f = judge(scn, schedule, run, obs)
        if f and f.get('soft') and case.get('observable'):
            return None
        return f
    finally:
        cleanup()

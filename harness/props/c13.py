"""C13 — embedded Python code is regenerated faithfully or rejected.

Oracle on the real code (independent of the Lean model): the source that genshi regenerates is
parsed again by CPython and its abstract syntax must equal CPython's own parse of the original
(after undoing the documented lookup rewriting); any exception while the template code is
constructed counts as "rejected", which the property allows.

Correspondence: the Lean `gen` (Genshi.Py.gen) against `ASTCodeGenerator(tree).code` as token
streams, and the Lean `pyParse` against `ast.parse`."""
import ast, copy, json, warnings
from harness import proto, gen_pyexpr as G
from harness.framework import Result, pmap
from harness.proto import Atom

PROP = 'C13'
warnings.simplefilter('ignore', SyntaxWarning)
TRUSTED = [
    'modelled, not verified: genshi/template/astutil.py ASTCodeGenerator (hand-written Lean model Genshi.Py.gen, tied by token-stream correspondence on generated trees and on every top-level statement of the stdlib + genshi)',
    'CPython is the definition of Python syntax: ast.parse / tokenize / compile / ast.unparse are trusted; the Lean parser pyParse is validated against ast.parse, not derived from it',
    'the text -> token step (CPython tokenizer) is outside the model: the model generates tokens, the correspondence compares tokenize(real text) with them',
]
ASSUMPTIONS = [
    'Constant.kind (the u prefix of u"...") and type comments are lexical remnants without effect and are ignored when trees are compared',
    'constants are those a parser can produce (non-negative numbers, str, bytes, True/False/None/...); Constant nodes built by hand with other values are outside the statement',
    'the original source does not itself use the helper names _lookup_name/_lookup_attr/_lookup_item/__data__',
]


# --------------------------------------------------------------------------
# oracle

class _Norm(ast.NodeTransformer):
    def visit_Constant(self, node):
        if getattr(node, 'kind', None) is not None:
            node = ast.Constant(node.value)
        return node


def norm_dump(tree):
    tree = _Norm().visit(copy.deepcopy(tree))
    return ast.dump(tree)


class _Unrewrite(ast.NodeTransformer):
    """undo the documented rewriting: _lookup_name(__data__, 'x') -> x, _lookup_attr(v, 'a') -> v.a,
    _lookup_item(v, (k,)) -> v[k]"""

    def visit_Call(self, node):
        self.generic_visit(node)
        f = node.func
        if isinstance(f, ast.Name) and not node.keywords:
            a = node.args
            if f.id == '_lookup_name' and len(a) == 2 and isinstance(a[0], ast.Name) and a[0].id == '__data__' \
                    and isinstance(a[1], ast.Constant) and isinstance(a[1].value, str):
                return ast.Name(a[1].value, ast.Load())
            if f.id == '_lookup_attr' and len(a) == 2 and isinstance(a[1], ast.Constant) and isinstance(a[1].value, str):
                return ast.Attribute(a[0], a[1].value, ast.Load())
            if f.id == '_lookup_item' and len(a) == 2 and isinstance(a[1], ast.Tuple) and len(a[1].elts) == 1:
                return ast.Subscript(a[0], a[1].elts[0], ast.Load())
        return node


def regen_raw(src, mode):
    """('ok', code) | ('rejected', why) for ASTCodeGenerator on CPython's tree of src"""
    from genshi.template.astutil import ASTCodeGenerator
    tree = ast.parse(src, mode=mode)
    try:
        code = ASTCodeGenerator(tree).code
    except Exception as e:  # noqa: any exception is a rejection
        return 'rejected', 'gen:' + type(e).__name__
    return 'ok', code


def regen_api(src, mode):
    """regenerated source as produced inside Expression(src) / Suite(src) (captured by a recording
    subclass put in place of eval.ASTCodeGenerator), or ('rejected', why)"""
    from genshi.template import eval as ev, astutil
    captured = []

    class Rec(astutil.ASTCodeGenerator):
        def __init__(self, tree):
            astutil.ASTCodeGenerator.__init__(self, tree)
            captured.append(self.code)
    saved = ev.ASTCodeGenerator
    ev.ASTCodeGenerator = Rec
    try:
        try:
            (ev.Expression if mode == 'eval' else ev.Suite)(src)
        except Exception as e:  # noqa
            return 'rejected', 'construct:' + type(e).__name__
    finally:
        ev.ASTCodeGenerator = saved
    if len(captured) != 1:
        return 'rejected', 'no-code'
    return 'ok', captured[0]


def oracle_case(case):
    """failure dict or None"""
    if case.get('via') == 'effect':
        return oracle_effect(case)
    if case.get('via') == 'scope':
        return oracle_scope(case)
    if case.get('via') == 'leaves':
        return oracle_leaves(case)
    src, mode, via = case['src'], case['mode'], case.get('via', 'raw')
    try:
        if via == 'api':
            from genshi.template.eval import _parse
            orig = _parse(src, mode)
        else:
            orig = ast.parse(src, mode=mode)
    except (SyntaxError, ValueError, RecursionError, MemoryError):
        return None          # not Python: nothing to be faithful to
    st, code = (regen_api if via == 'api' else regen_raw)(src, mode)
    if st == 'rejected':
        return None
    try:
        back = ast.parse(code, mode=mode)
    except (SyntaxError, ValueError, RecursionError, MemoryError):
        return None          # regenerated source does not compile: construction fails loudly
    if via == 'api':
        back = _Unrewrite().visit(back)
    want, got = norm_dump(orig), norm_dump(back)
    if want != got:
        return {'case': case, 'what': 'regenerated source has the abstract syntax of the original (%s path)' % via,
                'expected': want[:1500], 'observed': got[:1500], 'regenerated': code[:600]}
    return None


# -- execution effect of code blocks: Suite(src).execute(data) against CPython's exec(src)

def _canon_ns(ns):
    from harness.props import c03
    out = {}
    for k in sorted(ns):
        if k == '__builtins__':
            continue
        v = ns[k]
        if type(v).__name__ == 'module':
            out[k] = ['module', v.__name__]
        else:
            out[k] = c03.canon(v)
    return out


class _Timeout(BaseException):
    pass


def _with_alarm(fn, seconds=10):
    """safety net against a non-terminating generated program (they are bounded by construction): the
    case is then skipped, never judged"""
    import signal

    def handler(signum, frame):
        raise _Timeout()
    try:
        old = signal.signal(signal.SIGALRM, handler)
    except ValueError:        # not in the main thread
        return fn()
    signal.alarm(seconds)
    try:
        return fn()
    finally:
        signal.alarm(0)
        signal.signal(signal.SIGALRM, old)


def effect_outcome(run, ns):
    try:
        _with_alarm(run)
        st = ['ok']
    except RecursionError:
        raise
    except Exception as e:  # noqa
        name = type(e).__name__
        # an undefined name: NameError for Python, UndefinedError for the (strict) template lookup
        st = ['err', 'NameError' if name in ('UndefinedError', 'UnboundLocalError') else name]
    return [st, _canon_ns(ns)]


SECOND_PYTHON = 'python3-vt'       # CPython 3.11 of the sandbox (no PEP 709 comprehension inlining)
NOTES = {}                          # counters of oracle decisions, merged into res.dist by shard()


def _note(key):
    NOTES[key] = NOTES.get(key, 0) + 1


def second_opinion(case):
    """the canonical effect of exec()ing the ORIGINAL source on the context data under the other CPython of
    the sandbox, or None when that interpreter is not available / fails"""
    import os, shutil, subprocess
    exe = shutil.which(SECOND_PYTHON)
    if exe is None:
        return None
    script = os.path.join(os.path.dirname(os.path.dirname(os.path.abspath(__file__))), 'effect_second_opinion.py')
    try:
        p = subprocess.run([exe, '-B', script], input=json.dumps({'src': case['src'], 'data': case['data']}).encode('utf-8'),
                           stdout=subprocess.PIPE, stderr=subprocess.PIPE, timeout=60)
        if p.returncode != 0:
            return None
        ans = json.loads(p.stdout.decode('utf-8'))
        if tuple(ans['version']) >= (3, 12):
            return None
        return ans['effect']
    except Exception:  # noqa: no second opinion
        return None


INLINED_COMPS = (ast.ListComp, ast.SetComp, ast.DictComp)


def inlining_sensitive(src):
    """syntactic guard (used when no second interpreter is available): some function reads a name it does
    not bind, and that name is also the iteration variable of a list / set / dict comprehension standing
    directly in that function -- the shape on which CPython 3.12's comprehension inlining (PEP 709) turns
    the read of the global into an UnboundLocalError"""
    try:
        tree = ast.parse(src)
    except SyntaxError:
        return False

    def own_nodes(fn):
        """nodes of the function's own scope, with the comprehensions standing directly in it"""
        todo = list(fn.body) if isinstance(fn.body, list) else [fn.body]
        comps, nodes = [], []
        while todo:
            n = todo.pop()
            if isinstance(n, (ast.FunctionDef, ast.AsyncFunctionDef, ast.Lambda, ast.ClassDef)):
                continue
            if isinstance(n, INLINED_COMPS):
                comps.append(n)
                continue
            nodes.append(n)
            todo.extend(ast.iter_child_nodes(n))
        return nodes, comps

    for fn in ast.walk(tree):
        if not isinstance(fn, (ast.FunctionDef, ast.AsyncFunctionDef, ast.Lambda)):
            continue
        nodes, comps = own_nodes(fn)
        a = fn.args
        bound = set(x.arg for x in a.posonlyargs + a.args + a.kwonlyargs + [y for y in (a.vararg, a.kwarg) if y])
        bound |= set(n.id for n in nodes if isinstance(n, ast.Name) and not isinstance(n.ctx, ast.Load))
        for c in comps:
            itervars = set(n.id for g in c.generators for n in ast.walk(g.target) if isinstance(n, ast.Name))
            outside = set(n.id for n in nodes if isinstance(n, ast.Name) and isinstance(n.ctx, ast.Load))
            for c2 in comps:
                if c2 is not c:
                    outside |= set(n.id for n in ast.walk(c2) if isinstance(n, ast.Name) and isinstance(n.ctx, ast.Load))
            outside |= set(n.id for n in ast.walk(c.generators[0].iter) if isinstance(n, ast.Name))
            if (itervars & outside) - bound:
                return True
    return False


def oracle_effect(case):
    """executing the code block has exactly the effect of executing the original code: same final
    namespace (or same exception and namespace at that point) as exec() of the source with the context
    data as module namespace"""
    import builtins
    from genshi.template.eval import Suite
    from harness.props import c03
    src = case['src']
    try:
        code = compile(src, '<reference>', 'exec')
    except (SyntaxError, ValueError, RecursionError, MemoryError):
        return None
    try:
        suite = Suite(src)
    except Exception:  # noqa: rejected at construction
        return None
    g = c03.build_data(case['data'])
    g['__builtins__'] = builtins
    try:
        want = effect_outcome(lambda: exec(code, g), g)
    except (c03.TooBig, RecursionError, _Timeout):
        return None
    if want[0] == ['err', 'NameError'] and 'cannot access local variable' in _last_error_text(code, case):
        # UnboundLocalError: CPython 3.12.1 raises it spuriously for a global name that is also the loop
        # variable of an (inlined) comprehension elsewhere in the same function; such cases are not judged
        return None
    d = c03.build_data(case['data'])
    try:
        got = effect_outcome(lambda: suite.execute(d), d)
    except (RecursionError, _Timeout):
        return None
    if got != want:
        # "what Python computes" must not depend on the CPython version: CPython 3.12 inlines comprehensions
        # (PEP 709) and then raises UnboundLocalError where the original program reads a global that is also
        # the iteration variable of another comprehension of the same function (possibly swallowed by the
        # program's own try/except, so the status alone does not show it).  Ask the other interpreter.
        other = second_opinion(case)
        if other is not None:
            if _json_eq(other, got):
                _note('effect:cpython-version-dependent')
                return None
        elif inlining_sensitive(src):
            _note('effect:cpython-version-dependent:syntactic-guard')
            return None
        return {'case': case, 'what': 'Suite(src).execute(data) has the effect of exec(src) on the context data',
                'expected': want, 'observed': got}
    return None


def _json_eq(a, b):
    return json.loads(json.dumps(a)) == json.loads(json.dumps(b))


# -- name resolution of code blocks against CPython's own compiler: every name the compiler resolves as a
#    local (cell, free) variable of a function must still be one in the code genshi compiles, and every other
#    name load must go through the lookup functions

SCOPE_HELPERS = frozenset(['__data__', '_lookup_name', '_lookup_attr', '_lookup_item', 'UndefinedError'])
# known finding C03-constant-names: these two names are never looked up
SCOPE_KNOWN = frozenset(['NotImplemented', 'Ellipsis'])
SCOPE_IMPLICIT = frozenset(['__name__', '__qualname__', '__module__', '__annotations__', '__classcell__', '__class__', '__doc__'])


def _code_children(c):
    import types
    return [k for k in c.co_consts if isinstance(k, types.CodeType)]


def _class_bound(tree):
    """{(class name, first line): names bound anywhere in the class body (not in nested scopes)}"""
    out = {}
    for node in ast.walk(tree):
        if not isinstance(node, ast.ClassDef):
            continue
        names = set()
        todo = list(node.body)
        while todo:
            n = todo.pop()
            if isinstance(n, (ast.FunctionDef, ast.AsyncFunctionDef, ast.ClassDef)):
                names.add(n.name)
                todo.extend(n.decorator_list)
                continue
            if isinstance(n, (ast.Lambda, ast.ListComp, ast.SetComp, ast.DictComp, ast.GeneratorExp)):
                continue
            if isinstance(n, ast.Name) and not isinstance(n.ctx, ast.Load):
                names.add(n.id)
            elif isinstance(n, (ast.Import, ast.ImportFrom)):
                for a in n.names:
                    names.add((a.asname or a.name).split('.')[0])
            elif isinstance(n, ast.ExceptHandler) and n.name:
                names.add(n.name)
            todo.extend(ast.iter_child_nodes(n))
        for ln in set([node.lineno] + [d.lineno for d in node.decorator_list]):
            out[(node.name, ln)] = names
    return out


def scope_problems(src, mode='exec'):
    """('skip' | 'rejected' | 'ok' | 'bad', problems)"""
    import dis
    from genshi.template.eval import Suite, Expression
    if mode == 'eval':
        src = src.strip()
    try:
        ref = compile(src, '<reference>', mode)
    except (SyntaxError, ValueError, RecursionError, MemoryError):
        return 'skip', []
    try:
        real = (Suite(src) if mode == 'exec' else Expression(src)).code
    except Exception:  # noqa: rejected
        return 'rejected', []
    problems = []
    skipped = []
    try:
        cls_bound = _class_bound(ast.parse(src, mode=mode))
    except (SyntaxError, ValueError, RecursionError):
        cls_bound = {}

    def walk(o, t, path, enclosing=frozenset()):
        oc, tc = _code_children(o), _code_children(t)
        if [c.co_name for c in oc] != [c.co_name for c in tc]:
            # the compiler drops unreachable code (after an unconditional raise / return) and with it the
            # code objects in it, not always alike for the two texts: not judged (the tree oracle compares
            # the structure)
            skipped.append(path)
            return
        ins = list(dis.get_instructions(t))
        if t.co_flags & 1:      # CO_OPTIMIZED: function, lambda, generator expression
            lo = set(o.co_varnames) | set(o.co_cellvars) | set(o.co_freevars)
            lt = set(t.co_varnames) | set(t.co_cellvars) | set(t.co_freevars)
            if lo != lt:
                problems.append(['locals', path, sorted(lo - lt), sorted(lt - lo)])
            g = set(i.argval for i in ins if i.opname in ('LOAD_GLOBAL', 'STORE_GLOBAL', 'DELETE_GLOBAL', 'LOAD_NAME'))
            g -= SCOPE_HELPERS | SCOPE_KNOWN
            # (a plain `super` is what the compiler needs to see for the zero-argument form)
            g -= set(['super']) if '__class__' in lt else set()
            if g:
                problems.append(['not-looked-up', path, sorted(g)])
        else:                   # module / class body: names bound there may be read directly
            # (names rebound or deleted in a class body are resolved at run time, known finding
            #  C13-class-body-rebinding: not judged here)
            stored = set(i.argval for i in ins if i.opname in ('STORE_NAME', 'DELETE_NAME', 'IMPORT_NAME', 'IMPORT_FROM'))
            stored |= cls_bound.get((o.co_name, o.co_firstlineno), set())
            loads = set(i.argval for i in ins if i.opname in ('LOAD_NAME', 'LOAD_GLOBAL'))
            loads -= stored | SCOPE_HELPERS | SCOPE_KNOWN | SCOPE_IMPLICIT
            # (the same finding when the rebinding is in code the compiler drops: the name is a local of an
            #  enclosing function, yet the compiler reads it with LOAD_NAME in the class body)
            o_loads = set(i.argval for i in dis.get_instructions(o) if i.opname == 'LOAD_NAME')
            loads -= (enclosing & o_loads)
            if loads:
                problems.append(['not-looked-up', path, sorted(loads)])
        if o.co_flags & 1:
            enclosing = enclosing | set(o.co_varnames) | set(o.co_cellvars) | set(o.co_freevars)
        for a, b in zip(oc, tc):
            walk(a, b, path + [a.co_name], enclosing)
    walk(ref, real, [])
    return ('bad' if problems else ('unreachable-code' if skipped else 'ok')), problems


def oracle_scope(case):
    st, problems = scope_problems(case['src'])
    if st != 'bad':
        return None
    return {'case': case, 'what': "names are resolved as CPython's compiler resolves them: function locals stay locals, every "
                                  'other name load goes through the lookup functions',
            'expected': 'no difference', 'observed': problems[:4]}


def effect_kind(case):
    import builtins
    from harness.props import c03
    from genshi.template.eval import Suite
    try:
        code = compile(case['src'], '<reference>', 'exec')
        Suite(case['src'])
    except Exception:  # noqa
        return 'rejected'
    g = c03.build_data(case['data'])
    g['__builtins__'] = builtins
    try:
        return effect_outcome(lambda: exec(code, g), g)[0][-1]
    except (c03.TooBig, RecursionError, _Timeout):
        return 'skipped'


def _last_error_text(code, case):
    import builtins
    from harness.props import c03
    g = c03.build_data(case['data'])
    g['__builtins__'] = builtins
    try:
        exec(code, g)
    except Exception as e:  # noqa
        return str(e)
    return ''


def outcome_kind(case):
    """for the distribution: same / rejected-* """
    src, mode, via = case['src'], case['mode'], case.get('via', 'raw')
    st, code = (regen_api if via == 'api' else regen_raw)(src, mode)
    if st == 'rejected':
        return 'rejected:' + code
    try:
        ast.parse(code, mode=mode)
    except SyntaxError:
        return 'rejected:regenerated-syntax-error'
    return 'accepted'


# --------------------------------------------------------------------------
# generation

def gen_cases(rng, n_expr, n_stmt):
    cases = []
    eg = G.ExprGen(rng, unsupported=0.03, yield_=True, maxdepth=4)
    tries = 0
    while len(cases) < n_expr and tries < n_expr * 4:
        tries += 1
        eg.bound = []
        eg.maxdepth = rng.choice([2, 3, 4, 5])
        tree = eg.expr(0)
        src = G.unparse_ok(ast.Expression(tree), 'eval')
        if src is None:
            continue
        cases.append({'mode': 'eval', 'src': src, 'via': rng.choice(['raw', 'raw', 'api'])})
    sg = G.StmtGen(rng, G.ExprGen(rng, unsupported=0.02, yield_=True, maxdepth=2), unsupported=0.03)
    tries = 0
    m = 0
    while m < n_stmt and tries < n_stmt * 4:
        tries += 1
        sg.eg.bound = []
        body = [sg.stmt(0) for _ in range(rng.choice([1, 1, 2]))]
        src = G.unparse_ok(ast.Module(body, []), 'exec')
        if src is None:
            continue
        m += 1
        cases.append({'mode': 'exec', 'src': src, 'via': rng.choice(['raw', 'raw', 'api'])})
    return cases


HAND = [
    # (mode, src): constructs named by the property text / DESIGN.md section 6
    ('eval', '(-2) ** 2'), ('eval', '(not a) == b'), ('eval', '(not a) + 1'), ('eval', '(-x)[0]'), ('eval', '(-x).attr'),
    ('eval', '(-x)(1)'), ('eval', 'x >= (not y)'), ('eval', 'not (not x)'), ('eval', '-(-1)'), ('eval', 'a ** -b'),
    ('eval', 'lambda a, /, b: a'), ('eval', 'lambda *, k: k'), ('eval', 'lambda a=1, *, k: k'), ('eval', 'lambda *a, k=2, **kw: k'),
    ('eval', '1e999'), ('eval', '1e999j'), ('eval', '...'), ('eval', 'x[...]'), ('eval', '(1).real'), ('eval', "u'abc'"),
    ('eval', 'f(x for x in y)'), ('eval', '{**d}'), ('eval', '{1, 2}'), ('eval', 'x[1:2, 3]'), ('eval', 'x[a, b]'),
    ('eval', '[x async for x in y]'), ('eval', 'x if (yield) else y'), ('eval', 'lambda: (yield)'), ('eval', 'a < b < c'),
    ('eval', '(a < b) < c'), ('eval', 'a and (b and c)'), ('eval', '(a and b) and c'), ('eval', 'a ** b ** c'), ('eval', '(a ** b) ** c'),
    ('eval', 'a if b else c if d else e'), ('eval', '(a if b else c) if d else e'), ('eval', 'f(k=1, *a)'), ('eval', 'a @ b'),
    ('exec', 'x = (yield y) + 1'), ('exec', 'def f(a, /, b): pass'), ('exec', 'def f(a, *, b=1): pass'),
    ('exec', 'class A(B, metaclass=M): pass'), ('exec', '@d\nclass A: pass'), ('exec', '@d\ndef f(): pass'),
    ('exec', 'def f(a: int) -> str: pass'), ('exec', 'def f(a=1, *, b): pass'), ('exec', 'class A(**k): pass'),
    ('exec', 'global x'), ('exec', 'x = ...'),
    ('exec', 'try:\n  pass\nexcept E as e:\n  pass'), ('exec', 'from . import x'), ('exec', 'with a as (b, c): pass'),
    ('exec', 'if a: pass\nelif b: pass\nelse: pass'), ('exec', 'def f(): return (yield)'), ('exec', 'x: int = 1'),
    ('exec', 'for a, b in c: pass\nelse: pass'), ('exec', 'try:\n  pass\nfinally:\n  pass'), ('exec', 'raise E from c'),
]


# Python 3.12 constructs the generator may meet (label, mode, source): each is either regenerated faithfully or rejected
# (tree oracle on raw / api), runs through every model stream, and is counted as py312:<label>:<via>:<outcome> in dist
HAND_312 = [
    ('match', 'exec', 'match x:\n    case 1:\n        pass\n    case [a, *b]:\n        pass\n    case {"k": v, **r}:\n        pass\n    case P(x=1) | None:\n        pass\n    case _ if g:\n        pass'),
    ('walrus', 'eval', '(y := f(x))'), ('walrus', 'eval', '[y for x in z if (y := x)]'), ('walrus', 'exec', 'while (n := f()): pass'),
    ('fstring', 'eval', "f'{a}'"), ('fstring', 'eval', "f'{a!r:>{w}}'"), ('fstring', 'eval', "f'{d[\"k\"]}'"),
    ('fstring', 'eval', "f'{x:{y}.{z}}'"), ('fstring', 'eval', "f'{f\"{a}\"}'"), ('fstring', 'eval', "f'{a=}'"),
    ('async-comp', 'eval', '[x async for x in y]'), ('async-comp', 'eval', '(x async for x in y)'),
    ('async-comp', 'eval', '(x async for x in y if x async for z in x)'), ('await', 'eval', '[await x for x in y]'),
    ('async-comp', 'eval', '{x async for x in y}'), ('async-def', 'exec', 'async def f():\n    return [x async for x in y]'),
    ('async-def', 'exec', 'async def f():\n    async with a as b: pass\n    async for x in y: pass\n    await z'),
    ('star-index', 'eval', 'a[*b]'), ('star-index', 'eval', 'a[*b, c]'), ('star-index', 'eval', 'a[1:2, *b]'),
    ('star-index', 'exec', 'a[*b] = 1'), ('star-index', 'exec', 'del a[*b]'),
    ('star-return', 'exec', 'def f():\n    return *a, b'), ('star-return', 'exec', 'def f():\n    yield *a, b'),
    ('star-return', 'exec', 'def f():\n    return 1, *a'), ('star-return', 'exec', 'for x in *a, b: pass'), ('star-return', 'exec', 'x = *a, b'),
    ('posonly', 'exec', 'def f(a, /, b, *, c): pass'), ('posonly', 'eval', 'lambda a, /, b=1, *, c: a'), ('posonly', 'exec', 'def f(a=1, /): pass'),
    ('posonly', 'exec', 'def f(a, /, *args, **kw): pass'), ('posonly', 'exec', 'def f(a: int = 1, /, b: str = 2, *c: int, d: int = 3, **e: int) -> int: pass'),
    ('type-alias', 'exec', 'type X = int'), ('type-alias', 'exec', 'type X[T] = list[T]'),
    ('type-params', 'exec', 'def f[T](x: T) -> T: pass'), ('type-params', 'exec', 'class A[T]: pass'), ('type-params', 'exec', 'def f[*Ts, **P](): pass'),
    ('except-star', 'exec', 'try:\n    pass\nexcept* E:\n    pass'), ('except-star', 'exec', 'try:\n    pass\nexcept* (A, B) as e:\n    pass'),
    ('annassign', 'exec', 'x: int = 1'), ('annassign', 'exec', 'x: int'), ('nonlocal', 'exec', 'def f():\n    x = 1\n    def g():\n        nonlocal x'),
    ('yield-from', 'exec', 'def f():\n    yield from g()'), ('matmult', 'eval', 'a @ b'), ('matmult', 'exec', 'a @= b'),
    ('set', 'eval', '{1, 2}'), ('set', 'eval', '{k: v for k, v in x}'), ('set', 'eval', '{*a, *b}'), ('dict-unpack', 'eval', '{**a, "k": 1}'),
    ('paren-with', 'exec', 'with (a as b, c as d): pass'), ('call-star', 'eval', 'f(*a, **k)'), ('call-star', 'eval', 'f(**a, **b)'),
    ('number', 'eval', '1_000'), ('number', 'eval', '0x_ff'), ('number', 'eval', '1e400'), ('number', 'eval', '-1e400'), ('number', 'eval', '1j'),
    ('string', 'eval', "b'a' b'b'"), ('string', 'eval', "'a' 'b'"), ('ellipsis', 'eval', '...'), ('ellipsis', 'eval', 'a[...]'), ('ellipsis', 'eval', 'a[..., 1]'),
    ('import', 'exec', 'import a.b.c as d'), ('import', 'exec', 'from .. import x'), ('import', 'exec', 'from .a import *'), ('import', 'exec', 'from a import (b, c)'),
    ('class', 'exec', '@a.b(c)\n@d\nclass X(Y, metaclass=M, **kw): pass'), ('raise', 'exec', 'raise E from None'),
    ('try', 'exec', 'def f():\n    try:\n        pass\n    except E:\n        pass\n    return x'),
    ('try', 'exec', 'try:\n    pass\nfinally:\n    pass\nx'), ('try', 'exec', 'try:\n    a\nexcept E:\n    b\nelse:\n    c\nfinally:\n    d'),
    ('try', 'exec', 'if a:\n    try:\n        b\n    except:\n        c\nelse:\n    d'),
    ('yield', 'eval', '(yield)'), ('yield', 'eval', 'lambda: (yield)'), ('slice', 'eval', 'x[a:b:c]'), ('slice', 'eval', 'x[::]'), ('slice', 'eval', 'x[a,]'),
    ('tuple', 'eval', 'x[()]'), ('tuple', 'eval', '()'), ('tuple', 'eval', '(a,)'), ('tuple', 'eval', '[*a]'), ('tuple', 'eval', '(*a, b)'),
]

HAND_EFFECT = [
    ('x = 1\ndef f(): return x\nx = 2\nr = f()', {}),
    ('def f(n):\n    if n <= 0: return 0\n    return n + f(n - 1)\nr = f(3)', {}),
    ('try:\n    r = 1 // 0\nexcept ZeroDivisionError:\n    r = -1\nfinally:\n    s = 2', {}),
    ('import math\nfrom math import floor as fl\nr = fl(math.pi)', {}),
    ('def f():\n    k = 3\n    return [i * k for i in range(3)]\nr = f()', {'k': 2}),
    ('def f(a, *b, c=1, **d): return (a, b, c, d)\nr = f(1, 2, c=3, e=4)', {}),
    ('n = 0\nwhile n < 3:\n    n += 1\nelse:\n    r = n', {}),
    ('lam = lambda q: q + a\nr = lam(1)', {'a': 1}),
    ('def outer():\n    v = 1\n    def inner(): return v + 1\n    return inner()\nr = outer()', {}),
    ('class K:\n    a = 1\n    b = a + 1\n    def m(self): return self.b\nr = K().m()', {}),
    ('def f(p, q=a):\n    t = p + q\n    return t\nr = f(1)', {'a': 2}),
    ('@dec\ndef f(): return 1\nr = f', {'dec': {'$fn': 'ident'}}),
    ('def f():\n    with ctx(a) as w:\n        pass\n    return w\nr = f()', {'ctx': {'$cm': 1}, 'a': 4, 'w': 0}),
    ('with ctx(a) as w, ctx(w) as z:\n    r = (w, z)', {'ctx': {'$cm': 1}, 'a': 4}),
    ('s = "a\tb"\nif 1:\n\tt = "c\td"\n\tif 2:\n\t    u = "e\t"\n', {}),
    ('class A:\n    def m(self): return 1\nclass B(A):\n    def m(self): return super().m() + 1\nr = B().m()', {}),
    ('def f():\n    def g(p: a, *q: a, k: a = 1) -> a:\n        return p\n    return sorted(g.__annotations__.items())\nr = f()', {'a': 4}),
]


HAND_SCOPE = [
    'class A:\n    def m(self): return 1\nclass B(A):\n    def m(self): return super().m() + 1\n',
    'def f():\n    with cm() as w:\n        pass\n    return w\n',
    'def f():\n    def g(p: T, *q: T, k: T = 1) -> T:\n        return p\n    return g\n',
    'def f():\n    def g(): return n\n    n = 5\n    return g()\n',
    'class K:\n    a = 1\n    def m(self): return a\n',
    'def f(a, /, b, *c, d, **e):\n    return (a, b, c, d, e, x)\n',
    'def f():\n    import os.path\n    return os.path.sep\n',
    'class A:\n    import os.path, m.x as y\n    s = (os, y)\n',
    'def f():\n    import os.path as p, sys\n    from os import sep\n    return (p, sys, sep, os)\n',
    'def f():\n    for i, (j, *k) in z:\n        pass\n    return (i, j, k)\n',
    'def f():\n    x = [a for a in b if a for c in a]\n    return (x, a, b, c)\n',
    'def f():\n    try:\n        t = 1\n    except E:\n        u = 2\n    else:\n        v = 3\n    finally:\n        w = 4\n    return (t, u, v, w, E)\n',
    'def f():\n    class C(B, metaclass=M):\n        y = x\n        def m(self, d=y): return (y, d, C)\n    return C\n',
    'def f():\n    del n\n    return n\n',
    'f = lambda a, b=c, *d, e=g, **h: (a, b, c, d, e, g, h)\n',
    'def f():\n    return (lambda: q)() + (lambda q: q)(1) + len([q for q in r])\n',
    '@deco(arg)\ndef f(): return deco\n',
]

def feature_key(case):
    """non-triviality: the set of node types of the original tree (more than a bare atom)"""
    try:
        tree = ast.parse(case['src'], mode=case['mode'])
    except SyntaxError:
        return None
    kinds = sorted(set(type(n).__name__ for n in ast.walk(tree)) - {'Load', 'Store', 'Del', 'Module', 'Expression', 'Expr'})
    if len(kinds) < 3:
        return None
    return case['mode'] + ':' + ','.join(kinds)


def in_hypothesis(case):
    """known finding C13-type-params: PEP 695 type parameter lists are dropped; the generators stay
    outside that class (the listed witness is replayed separately)"""
    try:
        tree = ast.parse(case['src'], mode=case['mode'])
    except (SyntaxError, ValueError, RecursionError, MemoryError):
        return True
    return not any(getattr(n, 'type_params', None) for n in ast.walk(tree))


def run_cases(cases, res, tag):
    for c in cases:
        if not in_hypothesis(c):
            res.count('%s:outside-hypothesis:type-params' % tag)
            continue
        res.evaluations += 1
        k = feature_key(c)
        if k:
            res.nontrivial.add(k)
        try:
            f = oracle_case(c)
            res.count('%s:%s:%s' % (tag, c['mode'], outcome_kind(c)))
        except RecursionError:
            res.count('%s:recursion-limit' % tag)
            continue
        if f:
            res.failures.append(f)


def leaf_failure(case, tree, toks, code=None):
    """the leaf oracle on one tree and the tokens of its regenerated source: every identifier, literal,
    operator and clause keyword of the tree (harness/py_leaves.py, written against the Python grammar)
    occurs in the regenerated source, in order — demanded only of accepted programs (the source compiles)"""
    from harness import py_leaves
    want = py_leaves.leaves_of(tree, case['mode'])
    if want is None:
        return None
    k = py_leaves.missing_leaf(want, toks)
    if k is None:
        return None
    if code is None:
        from genshi.template.astutil import ASTCodeGenerator
        code = ASTCodeGenerator(tree).code
    try:
        compile(code, '<regenerated>', case['mode'])
    except (SyntaxError, ValueError, RecursionError, MemoryError):
        return None          # rejected: construction fails loudly
    return {'case': {'mode': case['mode'], 'src': case['src'], 'via': 'leaves', 'tree': case.get('via', 'raw')},
            'what': 'every identifier, literal, operator and clause keyword of the tree occurs in the regenerated source, in order',
            'expected': 'leaf #%d %r (of %r)' % (k, want[k], want[:60]), 'observed': repr(toks)[:1500],
            'regenerated': code[:600]}


def oracle_leaves(case):
    c = {'mode': case['mode'], 'src': case['src'], 'via': case.get('tree', 'raw')}
    tree = trees_of(c)
    if tree is None:
        return None
    real = real_gen(tree)
    if real[0] != 'ok':
        return None
    return leaf_failure(c, tree, [t for _, l in real[1] for t in l])


def real_gen(tree):
    """('ok', lines) | ('raises', exception class) | ('untokenizable', code) for the real generator on a tree"""
    from genshi.template.astutil import ASTCodeGenerator
    try:
        code = ASTCodeGenerator(tree).code
    except RecursionError:
        raise
    except Exception as e:  # noqa
        return 'raises', type(e).__name__
    ls = G.tokens_of(code)
    if ls is None:
        return 'untokenizable', code
    return 'ok', ls, code


def trees_of(case):
    """the tree(s) the generator sees for a case: CPython's parse tree (raw) or the transformed tree (api)"""
    src, mode, via = case['src'], case['mode'], case.get('via', 'raw')
    try:
        if via == 'api':
            from genshi.template import eval as ev
            node = ev._parse(src, mode)
            xf = ev.ExpressionASTTransformer if mode == 'eval' else ev.TemplateASTTransformer
            return xf().visit(node)
        return ast.parse(src, mode=mode)
    except RecursionError:
        raise
    except Exception:  # noqa
        return None


def wire_request(tree, mode):
    if mode == 'eval':
        return proto.line(Atom('C13'), Atom('gen'), G.to_wire(tree.body))
    return proto.line(Atom('C13'), Atom('genS'), [G.to_wire(s) for s in tree.body])


def norm_consts(x):
    """model tree -> the same tree with every constant text replaced by repr(value) (0x10 -> 16, "a" -> 'a')"""
    if isinstance(x, list):
        if len(x) == 3 and x[0] == 'Const' and isinstance(x[0], Atom) and isinstance(x[2], str) and not isinstance(x[2], Atom):
            if x[1] in ('TRUE', 'FALSE', 'NONE', 'ELLIPSIS'):
                return x
            try:
                return G.const_wire(ast.literal_eval(x[2]))
            except Exception:  # noqa
                return x
        return [norm_consts(y) for y in x]
    return x


def has_atom(x, names):
    if isinstance(x, list):
        return any(has_atom(y, names) for y in x)
    return isinstance(x, Atom) and x in names


def compare_parse(cases, res):
    """Lean pyParse vs ast.parse on the token stream of the original source (eval mode), and the
    executable form of the theorem parse_gen: pyParse (gen tree) = tree in the model"""
    lines, meta = [], []
    for c in cases:
        if c['mode'] != 'eval':
            continue
        try:
            tree = ast.parse(c['src'], mode='eval')
            want = G.to_wire(tree.body)
            toks = G.flat_tokens(c['src'])
        except (SyntaxError, ValueError, RecursionError, MemoryError):
            continue
        if toks is None:
            res.count('parse:untokenizable')
            continue
        lines.append(proto.line(Atom('C13'), Atom('parse'), toks))
        meta.append(('parse', c, want, toks))
        lines.append(proto.line(Atom('C13'), Atom('roundtrip'), want))
        meta.append(('roundtrip', c, want, toks))
    answers = proto.run_lines(lines)
    for (what, c, want, toks), ans in zip(meta, answers):
        if ans == 'unmodelled':
            res.count(what + ':unmodelled')
            continue
        try:
            model = proto.dec(ans)
        except Exception:  # noqa
            model = Atom(ans)
        if what == 'parse':
            res.streams['pyParse-vs-ast.parse'] = res.streams.get('pyParse-vs-ast.parse', 0) + 1
            adjacent_str = any(a[0] == 'STR' and b[0] == 'STR' for a, b in zip(toks, toks[1:]))
            outside = has_atom(want, ('Unsupported', 'Unmodelled')) or adjacent_str
            if model == 'none':
                res.count('parse:model-rejects' + (':outside-grammar' if outside else ''))
                if not outside:
                    res.disagreements.append({'stream': 'pyParse-vs-ast.parse', 'case': c, 'model': 'none', 'real': repr(want)[:600]})
                continue
            got = norm_consts(model[1]) if isinstance(model, list) and len(model) == 2 else model
            res.count('parse:ok')
            if got != want:
                res.disagreements.append({'stream': 'pyParse-vs-ast.parse', 'case': c, 'model': repr(got)[:900], 'real': repr(want)[:900]})
        else:
            if model == 'raises':
                res.count('roundtrip:gen-raises')
                continue
            res.streams['model-roundtrip'] = res.streams.get('model-roundtrip', 0) + 1
            got = norm_consts(model[1]) if isinstance(model, list) and len(model) == 2 else model
            if got == want:
                res.count('roundtrip:identity')
            else:
                # the model says parse . gen is not the identity here; the real code must then reject the
                # tree too (the regenerated text is not Python) -- otherwise the model's reader is too weak
                res.count('roundtrip:not-identity')
                if outcome_kind(dict(c, via='raw')) == 'accepted':
                    res.disagreements.append({'stream': 'model-roundtrip', 'case': c, 'model': repr(got)[:900], 'real': repr(want)[:900]})


def compare_parseS(cases, res):
    """Lean pyParseS on the lines of the *regenerated* source vs ast.parse of that source, and the
    executable form of parseS_genS: pyParseS (genModule stmts) = stmts in the model"""
    from genshi.template.astutil import ASTCodeGenerator
    lines, meta = [], []
    for c in cases:
        if c['mode'] != 'exec' or c.get('via') == 'effect':
            continue
        try:
            tree = trees_of(dict(c, via='raw'))
            if tree is None:
                continue
            code = ASTCodeGenerator(tree).code
            back = ast.parse(code)
            ls = G.tokens_of(code)
            want = [G.to_wire(st) for st in back.body]
            orig = [G.to_wire(st) for st in tree.body]
        except RecursionError:
            continue
        except Exception:  # noqa: rejected by the generator or by the compiler
            continue
        if ls is None:
            continue
        lines.append(proto.line(Atom('C13'), Atom('parseS'), [[d, l] for d, l in ls]))
        meta.append(('parseS', c, want))
        lines.append(proto.line(Atom('C13'), Atom('roundtripS'), orig))
        meta.append(('roundtripS', c, orig))
    answers = proto.run_lines(lines)
    for (what, c, want), ans in zip(meta, answers):
        if ans == 'unmodelled':
            res.count(what + ':unmodelled')
            continue
        try:
            model = proto.dec(ans)
        except Exception:  # noqa
            model = Atom(ans)
        stream = 'pyParseS-vs-ast.parse' if what == 'parseS' else 'model-roundtripS'
        if model == 'raises':
            res.count(what + ':gen-raises')
            continue
        res.streams[stream] = res.streams.get(stream, 0) + 1
        if model == 'none':
            # outside the reader: statements it does not read back (counted; `global`, `except … as`
            # never get here because their regenerated text is not Python)
            res.count(what + ':model-rejects')
            outside = has_atom(want, ('Unsupported', 'Unmodelled', 'UnsupportedStmt')) or has_annotation(want)
            if not outside:
                res.disagreements.append({'stream': stream, 'case': c, 'model': 'none', 'real': repr(want)[:600]})
            continue
        got = norm_consts(model[1]) if isinstance(model, list) and len(model) == 2 else model
        if has_annotation(want):
            # known finding C13-type-params: the list is dropped, the model says so too
            res.count(what + ':type-params')
            continue
        res.count(what + ':ok')
        if got != want:
            res.disagreements.append({'stream': stream, 'case': c, 'model': repr(got)[:900], 'real': repr(want)[:900]})


def has_annotation(w):
    """type parameter lists (known finding): not read back by pyParseS"""
    if isinstance(w, list):
        if w and isinstance(w[0], Atom) and w[0] in ('FunctionDef', 'ClassDef') and w[-1] == 'T':
            return True
        return any(has_annotation(x) for x in w)
    return False


def compare_model(cases, res):
    """Lean gen vs ASTCodeGenerator on the same trees, as token streams"""
    compare_parse(cases, res)
    compare_parseS(cases, res)
    lines, meta, lv, ch = [], [], [], []
    for c in cases:
        try:
            tree = trees_of(c)
            if tree is None:
                continue
            req = wire_request(tree, c['mode'])
            real = real_gen(tree)
        except RecursionError:
            res.count('model:recursion-limit')
            continue
        lines.append(req)
        meta.append((c, real))
        if real[0] == 'ok':
            lv.append((c, tree, [t for _, l in real[1] for t in l]))
        if real[0] in ('ok', 'raises'):
            ch.append((c, tree, real))
    compare_leaves(lv, res)
    compare_chars(ch, res)
    answers = proto.run_lines(lines)
    for (c, real), ans in zip(meta, answers):
        stream = 'gen-' + c['mode']
        if ans == 'unmodelled':
            res.count('model:unmodelled')
            continue
        if real[0] == 'untokenizable':
            res.count('model:real-code-untokenizable')
            continue
        res.streams[stream] = res.streams.get(stream, 0) + 1
        try:
            model = proto.dec(ans)
        except Exception:  # noqa
            model = Atom(ans)
        if real[0] == 'raises':
            want = Atom('raises')
        elif c['mode'] == 'eval':
            want = [Atom('ok'), [t for _, l in real[1] for t in l]]
        else:
            want = [Atom('ok'), [[Atom(str(d)), l] for d, l in real[1]]]
        res.count('model:' + ('raises' if want == 'raises' else 'ok'))
        if model != want:
            res.disagreements.append({'stream': stream, 'case': c, 'model': repr(model)[:600], 'real': repr(want)[:600]})


def compare_chars(items, res):
    """character level: the string the Lean writer model produces (`codeE` / `codeS`, Model/PyLayout.lean) vs
    ASTCodeGenerator(tree).code, compared exactly; and the Lean line-structure reader `retok` on that string vs
    CPython's tokenize (depth of every logical line, and the text of the line tokenizes to the line's tokens)"""
    lines, meta = [], []
    for c, tree, real in items:
        try:
            if c['mode'] == 'eval':
                req = proto.line(Atom('C13'), Atom('code'), G.to_wire(tree.body))
            else:
                req = proto.line(Atom('C13'), Atom('codeS'), [G.to_wire(s) for s in tree.body])
        except RecursionError:
            res.count('chars:recursion-limit')
            continue
        lines.append(req)
        meta.append((c, real))
    answers = proto.run_lines(lines)
    for (c, real), ans in zip(meta, answers):
        stream = 'chars-' + c['mode']
        if ans == 'unmodelled':
            res.count('chars:unmodelled')
            continue
        res.streams[stream] = res.streams.get(stream, 0) + 1
        try:
            model = proto.dec(ans)
        except Exception:  # noqa
            model = Atom(ans)
        if real[0] == 'raises':
            res.count('chars:raises')
            if model != 'raises':
                res.disagreements.append({'stream': stream, 'case': c, 'model': repr(model)[:600], 'real': 'raises ' + real[1]})
            continue
        code = real[2]
        nl = code.count('\n')
        res.count('chars:lines=%s' % ('1' if nl <= 1 else '2-5' if nl <= 5 else '6+'))
        if not (isinstance(model, list) and len(model) >= 2 and model[0] == 'ok' and model[1] == code):
            res.disagreements.append({'stream': stream, 'case': c, 'model': repr(model[:2] if isinstance(model, list) else model)[:900],
                                      'real': repr(code)[:900]})
            continue
        if c['mode'] == 'exec':
            # the reader `retok` against tokenize on the same string
            stream = 'retok-vs-tokenize'
            res.streams[stream] = res.streams.get(stream, 0) + 1
            want = [[d, l] for d, l in real[1]]
            got = model[2] if len(model) > 2 else None
            ok = isinstance(got, list) and len(got) == len(want)
            if ok:
                for (d, l), g in zip(want, got):
                    if str(d) != str(g[0]) or G.flat_tokens(g[1]) != l:
                        ok = False
                        break
            depth = max([d for d, _ in want] or [0])
            res.count('retok:depth=%s' % (depth if depth < 4 else '4+'))
            if '\n    \n' in code or '\n' + ' ' * 8 + '\n' in code:
                res.count('retok:blank-line')
            if not ok:
                res.disagreements.append({'stream': stream, 'case': c, 'model': repr(got)[:900], 'real': repr(want)[:900]})


def compare_leaves(items, res):
    """`leaves` / `leavesB` of the Lean model vs harness/py_leaves.py on the same trees (accepted by the
    real generator), and the leaf oracle on the real code: the leaves are a subsequence of
    tokenize(ASTCodeGenerator(tree).code)"""
    from harness import py_leaves
    lines, meta = [], []
    for c, tree, toks in items:
        if not in_hypothesis(c):
            continue
        try:
            want = py_leaves.leaves_of(tree, c['mode'])
            if c['mode'] == 'eval':
                req = proto.line(Atom('C13'), Atom('leaves'), G.to_wire(tree.body))
            else:
                req = proto.line(Atom('C13'), Atom('leavesS'), [G.to_wire(s) for s in tree.body])
        except RecursionError:
            res.count('leaves:recursion-limit')
            continue
        lines.append(req)
        meta.append((c, tree, toks, want))
    answers = proto.run_lines(lines)
    for (c, tree, toks, want), ans in zip(meta, answers):
        stream = 'leaves-' + c['mode']
        if ans == 'unmodelled':
            res.count('leaves:unmodelled')
            continue
        if ans == 'outside' or want is None:
            res.count('leaves:outside' + ('' if (ans == 'outside') == (want is None) else ':one-side-only'))
            if ans == 'outside' and want is not None:
                # the Lean domain is narrower than the oracle's: still judge the real code
                f = leaf_failure(c, tree, toks)
                if f:
                    res.failures.append(f)
            continue
        res.streams[stream] = res.streams.get(stream, 0) + 1
        try:
            model = proto.dec(ans)
        except Exception:  # noqa
            model = Atom(ans)
        res.count('leaves:n=%s' % ('0-3' if len(want) < 4 else '4-15' if len(want) < 16 else '16+'))
        if model != [Atom('ok'), want]:
            res.disagreements.append({'stream': stream, 'case': c, 'model': repr(model)[:900], 'real': repr([Atom('ok'), want])[:900]})
        res.evaluations += 1
        f = leaf_failure(c, tree, toks)
        if f:
            res.failures.append(f)


# --------------------------------------------------------------------------
# statement mode of TemplateASTTransformer: Lean xformS / Python's scoping rule (specModule, freeGlobals)

def _sym_tree(t):
    """canonical per-scope summary of a symtable: (kind, name, names referenced as globals, children)"""
    import _symtable as _st
    kind = 'module' if t.get_type() == 'module' else ('class' if t.get_type() == 'class' else 'function')
    # (the raw flags: Symbol.is_global() of Lib/symtable.py takes any table *named* "top" for the module)
    gl = []
    for name, flags in t._table.symbols.items():
        scope = (flags >> _st.SCOPE_OFF) & _st.SCOPE_MASK
        if flags & _st.USE and (kind == 'module' or scope in (_st.GLOBAL_IMPLICIT, _st.GLOBAL_EXPLICIT)):
            gl.append(name)
    gl.sort()
    return [kind, t.get_name(), gl, sorted(_sym_tree(c) for c in t.get_children())]


def _canon_tree(w):
    """the Lean ScopeTree answer in the same canonical form (names de-duplicated and sorted)"""
    kind, name, gl, ch = w
    name = 'genexpr' if str(name) == 'listcomp' else str(name)
    return [str(kind), name, sorted(set(str(g) for g in gl) - {'__class__'}), sorted(_canon_tree(c) for c in ch)]


class _ListCompAsGenExp(ast.NodeTransformer):
    """CPython 3.12 merges the symbol table of a list comprehension into the enclosing one (PEP 709); the
    scoping rules of list comprehensions and generator expressions are the same, so the tables are taken
    from the program with every list comprehension written as a generator expression"""

    def visit_ListComp(self, node):
        self.generic_visit(node)
        return ast.GeneratorExp(node.elt, node.generators)


def symtable_tree(tree):
    import symtable
    src = ast.unparse(ast.fix_missing_locations(_ListCompAsGenExp().visit(copy.deepcopy(tree))))
    return _strip_implicit(_sym_tree(symtable.symtable(src, '<s>', 'exec')))


def _strip_implicit(t):
    """symtable artefacts that are no name loads of the program: wherever a function loads the name `super`
    (even a parameter of that name: pyclbr._nest_class) symtable records an implicit use of `__class__`,
    global when the function is not in a class; `__class__` is therefore not compared (on either side)"""
    kind, name, gl, ch = t
    return [kind, 'top' if kind == 'module' else name, [g for g in gl if g != '__class__'],
            sorted(_strip_implicit(c) for c in ch)]


STMT_OUTSIDE = ('Unsupported', 'Unmodelled', 'UnsupportedStmt', 'Global')


def statement_programs(cases):
    """(case, tree, wire of the body) of every exec-mode case that is inside the modelled syntax"""
    out = []
    for c in cases:
        if c['mode'] != 'exec':
            continue
        try:
            tree = ast.parse(c['src'])
            w = [G.to_wire(st) for st in tree.body]
        except (SyntaxError, ValueError, RecursionError, MemoryError):
            continue
        out.append((c, tree, w))
    return out


def compare_xformS(cases, res):
    """four streams on statement programs:
    xformS          Lean model of TemplateASTTransformer (scope stack over statements) vs the real transformer
    specS           Python's scoping rule (Lean specModule, theorem xformS_eq_spec) vs the real transformer,
                    on programs inside okModule
    unxformS        the rewriting undone in the model gives back the program (theorem unxfS_xformS)
    freeGlobals     Lean per-scope global references by Python's rule vs CPython's symtable (no genshi involved)"""
    import symtable
    from genshi.template.eval import TemplateASTTransformer
    lines, meta = [], []
    for c, tree, w in statement_programs(cases):
        if has_atom(w, STMT_OUTSIDE):
            res.count('xformS:outside-syntax')
            continue
        if has_annotation(w):
            # PEP 695 type parameter lists (known finding C13-type-params): not part of the model, and
            # symtable gives them an annotation scope of their own
            res.count('xformS:type-params')
            continue
        if len(c['src']) > 6000:
            res.count('xformS:skipped-large')       # (a whole stdlib class: the cost is in the wire coding)
            continue
        try:
            sym = symtable_tree(tree)
        except (SyntaxError, ValueError, RecursionError):
            sym = None
        try:
            # (the transformer shares / updates some nodes of its input: `w` and `sym` were taken before)
            real = [G.to_wire(st) for st in TemplateASTTransformer().visit(tree).body]
        except RecursionError:
            res.count('xformS:recursion-limit')
            continue
        wtext = proto.enc(w)
        for verb in ('xformS', 'pySpecS', 'unxformS', 'freeGlobals'):
            lines.append('C13 %s %s' % (verb, wtext))
            meta.append((verb, c, w, real, sym))
    answers = proto.run_lines(lines)
    for (verb, c, w, real, sym), ans in zip(meta, answers):
        if ans == 'unmodelled':
            res.count(verb + ':unmodelled')
            continue
        if ans == 'outside':
            res.count(verb + ':outside-domain')
            continue
        model = proto.dec(ans)
        res.streams[verb] = res.streams.get(verb, 0) + 1
        if verb in ('xformS', 'pySpecS'):
            changed = model[1] != w
            res.count('%s:%s' % (verb, 'rewrites' if changed else 'identity'))
            if changed and verb == 'xformS':
                res.nontrivial.add('xformS:' + (feature_key(c) or ''))
            if model[1] != real:
                res.disagreements.append({'stream': verb, 'case': c, 'model': repr(model[1])[:900], 'real': repr(real)[:900]})
        elif verb == 'unxformS':
            res.count('unxformS:ok')
            if model[1] != w:
                res.disagreements.append({'stream': verb, 'case': c, 'model': repr(model[1])[:900], 'real': repr(w)[:900]})
        else:
            if sym is None:
                res.count('freeGlobals:no-symtable')
                continue
            spec = _canon_tree(model[1])
            res.count('freeGlobals:ok')
            if spec != sym:
                res.disagreements.append({'stream': 'freeGlobals-vs-symtable', 'case': c, 'model': repr(spec)[:900], 'real': repr(sym)[:900]})


def shard(arg):
    import random
    seed, idx, n_expr, n_stmt, files = arg
    rng = random.Random('%s/%s/C13' % (seed, idx))
    res = Result()
    cases = gen_cases(rng, n_expr, n_stmt)
    if idx == 0:
        cases = [{'mode': m, 'src': s, 'via': v} for m, s in HAND for v in ('raw', 'api')] + cases
        for lab, m, s_ in HAND_312:
            for v in ('raw', 'api'):
                c = {'mode': m, 'src': s_, 'via': v}
                try:
                    res.count('py312:%s:%s:%s' % (lab, v, outcome_kind(c)))
                except RecursionError:
                    continue
                cases.insert(0, c)
        for s_, d_ in HAND_EFFECT:
            f = oracle_effect({'mode': 'exec', 'via': 'effect', 'src': s_, 'data': d_})
            res.evaluations += 1
            if f:
                res.failures.append(f)
    run_cases(cases, res, 'gen')
    res.samples = cases[:2]
    # execution effect of generated closed programs
    from harness.props import c03
    pg = G.ProgGen(rng)
    n_eff = max(1, n_stmt // 2)
    for _ in range(n_eff):
        src = G.unparse_ok(pg.program(), 'exec')
        if src is None:
            continue
        ec = {'mode': 'exec', 'via': 'effect', 'src': src, 'data': c03.full_data(rng)}
        res.evaluations += 1
        try:
            f = oracle_effect(ec)
            res.count('effect:' + effect_kind(ec))
        except RecursionError:
            res.count('effect:recursion-limit')
            continue
        k = feature_key(ec)
        if k:
            res.nontrivial.add('effect:' + k)
        if f:
            res.failures.append(f)
    corpus = []
    for f in files:
        for seg in G.read_statements(f):
            corpus.append({'mode': 'exec', 'src': seg, 'via': 'raw'})
    run_cases(corpus, res, 'corpus')
    # name resolution against the compiler: corpus statements, generated statements and programs
    scope_srcs = [c['src'] for c in corpus] + [c['src'] for c in cases if c['mode'] == 'exec'] + \
        [s_ for s_, _ in HAND_EFFECT] + HAND_SCOPE
    for _ in range(n_eff):
        src = G.unparse_ok(pg.program(), 'exec')
        if src is not None:
            scope_srcs.append(src)
    for src in scope_srcs:
        sc = {'mode': 'exec', 'via': 'scope', 'src': src}
        res.evaluations += 1
        try:
            st, problems = scope_problems(src)
        except RecursionError:
            res.count('scope:recursion-limit')
            continue
        res.count('scope:' + st)
        if st == 'ok':
            k = feature_key(sc)
            if k:
                res.nontrivial.add('scope:' + k)
        if st == 'bad':
            res.failures.append(oracle_scope(sc))
    compare_model(cases + corpus, res)
    for k_, v_ in sorted(NOTES.items()):
        res.count(k_, v_)
    NOTES.clear()
    # statement mode of the transformer: model, Python's scoping rule, symtable
    sgen = G.ScopeGen(rng)
    scope_cases = []
    for _ in range(max(20, n_stmt)):
        src = G.unparse_ok(sgen.program(), 'exec')
        if src is not None:
            scope_cases.append({'mode': 'exec', 'src': src, 'via': 'scope'})
    for sc in scope_cases[:max(10, n_stmt // 2)]:
        # the scope oracle (code objects of the real code vs CPython's own compilation) on the same programs
        res.evaluations += 1
        try:
            st, problems = scope_problems(sc['src'])
        except RecursionError:
            continue
        res.count('scope:' + st)
        if st == 'bad':
            res.failures.append(oracle_scope(sc))
    compare_xformS(scope_cases + [c for c in cases if c['mode'] == 'exec'] + corpus
                   + [{'mode': 'exec', 'src': s_, 'via': 'scope'} for s_ in scope_srcs[-n_eff:] + HAND_SCOPE], res)
    return res


def run(ctx):
    from harness import stage
    nsh = 16
    files = G.corpus_files(stage.REPO)
    rng = ctx.rng('files')
    genshi_files = [f for f in files if f.startswith(stage.REPO)]
    std = [f for f in files if not f.startswith(stage.REPO)]
    if not ctx.thorough:
        std = rng.sample(std, min(len(std), 96))
    chosen = sorted(genshi_files) + sorted(std)
    per = [chosen[i::nsh] for i in range(nsh)]
    args = [(ctx.seed, i, ctx.n(700, 12000), ctx.n(220, 3500), per[i]) for i in range(nsh)]
    res = Result()
    for r in pmap('harness.props.c13', 'shard', args):
        res.merge(r)
    res.rule = ('expressions/statements from the grammar generator (every operator in every position, all parameter kinds, '
                'comprehensions, calls with star arguments, slices, literals, a few unsupported node types) and every top-level '
                'statement of %d stdlib/genshi files; non-trivial = at least three distinct node types; distinct by node-type set'
                % len(chosen))
    res.samples = res.samples[:6]
    return res


def search(ctx, res, broken):
    found = []
    for d in res.disagreements[:300]:
        c = d.get('case')
        if isinstance(c, dict) and 'src' in c:
            for via in ('raw', 'api') + (('scope',) if c.get('mode') == 'exec' else ()):
                try:
                    f = oracle_case(dict(c, via=via))
                except RecursionError:
                    continue
                if f:
                    found.append(f)
    if found:
        return found
    for s in HAND_SCOPE:
        f = oracle_case({'mode': 'exec', 'via': 'scope', 'src': s})
        if f:
            found.append(f)
    if found:
        return found
    for m, s in HAND:
        for v in ('raw', 'api'):
            f = oracle_case({'mode': m, 'src': s, 'via': v})
            if f:
                found.append(f)
    if found:
        return found
    from harness import stage
    files = [f for f in G.corpus_files(stage.REPO)]
    per = [files[i::16] for i in range(16)]
    args = [(ctx.seed + 1000 + i, i, 6000, 2000, per[i]) for i in range(16)]
    for r in pmap('harness.props.c13', 'shard', args):
        found.extend(r.failures)
    return found


def replay(ctx, case):
    return oracle_case(case)

"""C08 — HTML and XHTML output re-parses to the stream that was serialised.

Oracle on the real code (never uses the model): the html serialisation is read back with
`html.parser`, the xhtml serialisation with expat (namespace processing on); the token sequence is
compared with the one the property text prescribes for the stream (`expected_tokens`: element
tree, attribute values, text; void elements, boolean attributes, raw-text elements, doctype /
XML declaration policy), and the tag syntax (no end tag / self-closed for void elements only) is
checked on the raw output.

Correspondence: (a) the real output against the Lean serializer model (as C09), (b) the Lean
specification-side readers (`gdrv C08 readhtml / readxml`) against html.parser / expat on the
real output — this validates the readers the round-trip theorems are stated with, (c) `expect`:
the right-hand side of the document-level theorems (`html_roundtrip_doc_partial`,
`xhtml_roundtrip_doc_partial`: expected tokens by recursion on the forest), computed by the driver
from the *stream* whenever the stream is inside the theorems' hypotheses (the driver evaluates
them and names the first one that fails), against html.parser / expat on the real output.
"""
import json
from harness import proto, outlib
from harness import gen_streams as G
from harness.framework import Result, pmap
from harness.proto import Atom

PROP = 'C08'
TRUSTED = [
    'modelled, not verified: the html/xhtml serializers and their filters (shared with C09), tied by differential '
    'correspondence; the Lean readers Reader.Html / Reader.Xml are specification-side and validated against '
    'html.parser / expat on serializer output only (they accept the output language, not HTML/XML at large)',
    'not modelled: html.parser (Python 3.12, convert_charrefs) and expat themselves',
    'NamespaceFlattener on the default-namespace-only domain (work package xml owns the rest)',
]
ASSUMPTIONS = [
    'streams are well nested, over the HTML vocabulary, names are lower-case XML names',
    'void elements are empty; script/style contain only text without "</" (html); comments contain no "--" and do not '
    'end in "-"; PI data contains no "?>" (">" under html); text is made of XML Chars without CR',
    'attribute values contain no LF/TAB/CR under xhtml (XML attribute-value normalisation: known finding C08-attr-ws)',
    'a boolean attribute with an empty value may be dropped (html) — the property speaks of non-empty values only',
    'Markup TEXT events hold entity-safe text (no markup)',
]

PROFILES = [
    ('html-vocab', 5, dict(root=True, pool=4, cdata=0.05, comments=0.06, max_nodes=16, safe_text=0.05)),
    ('xhtml-ns', 3, dict(ns='xhtml', root=True, pool=4, cdata=0.08, comments=0.05, max_nodes=14)),
    ('xhtml-ns-events', 1, dict(ns='xhtml', root=True, ns_events=True, pool=4, max_nodes=12)),
    ('prolog', 2, dict(pool=3, prolog=0.8, root=True, max_nodes=8, comments=0.05, pis=0.06, cdata=0.06)),
    ('ws', 1, dict(root=True, pool=3, texts='ws', max_nodes=12)),
    # builder-style streams (no START_NS events) that mix XHTML-namespaced and un-namespaced elements: the
    # flattener makes up xmlns="…" / xmlns="" at every change of namespace; few tags and attributes, so that the
    # identical start tag recurs on both sides of such a scope boundary (seeded C08-4: the flattener's name cache
    # reused across the boundary); the expat re-parse is compared by qualified names
    ('mixed-ns', 3, dict(ns='mixed', root=True, pool=2, max_nodes=16, attr_counts=[0, 0, 0, 1],
                         tags=['div', 'p', 'b', 'span', 'a', 'br'])),
    ('mixed-ns-vocab', 1, dict(ns='mixed', root=True, pool=3, max_nodes=14, cdata=0.05, comments=0.05)),
    # LF/TAB/CR in attribute values and CR in text: outside the xhtml round trip (XML normalisation, finding
    # C08-attr-ws / C08-text-cr); the Lean readers are still compared with html.parser / expat there
    ('xml-ws', 1, dict(root=True, pool=3, attr_ws=True, text_cr=True, max_nodes=10)),
]
DOCTYPE_OPTS = [None, None, ['name', 'html'], ['name', 'xhtml-strict'], ['name', 'html5'], ['name', 'XHTML11'],
                ['tuple', 'html', None, 'about:legacy-compat'],
                ['tuple', 'html', '-//W3C//DTD HTML 4.01//EN', 'http://www.w3.org/TR/html4/strict.dtd'],
                ['tuple', 'html', None, 'sys"tem.dtd']]


def pick_profile(rng):
    tot = sum(w for _, w, _ in PROFILES)
    r = rng.random() * tot
    for name, w, kn in PROFILES:
        r -= w
        if r <= 0:
            return name, kn
    return PROFILES[-1][0], PROFILES[-1][2]


# --------------------------------------------------------------------------
# the domain of the property (hypotheses of the round-trip theorems)

def xml_char_ok(s):
    for c in s:
        o = ord(c)
        if not (o in (9, 10, 13) or 0x20 <= o <= 0xd7ff or 0xe000 <= o <= 0xfffd or 0x10000 <= o <= 0x10ffff):
            return False
    return True


def in_domain(js, method, cfg=None):
    """None when the stream is inside the hypotheses, else the name of the excluded class"""
    stack = []
    started = False
    have_dt = bool(cfg and cfg.get('doctype'))
    for i, e in enumerate(js):
        if e[0] == 'XD' and i > 0 and js[0][0] != 'XD' and method == 'xhtml':
            return 'xmldecl-not-first'
        if e[0] == 'DT':
            if started and not have_dt and method == 'xhtml':
                return 'doctype-after-root'
            if not have_dt and method == 'xhtml' and e[2] and not e[3]:
                return 'doctype-public-without-system'
            if not have_dt and method == 'html' and ('>' in (e[2] or '') or '>' in (e[3] or '')):
                # an HTML parser ends the declaration at the first '>' (known finding C08-doctype-gt-html)
                return 'doctype-gt'
            have_dt = True
        if e[0] in ('S', 'T', 'SC'):
            started = True
    if method == 'xhtml':
        # an XML parser reads documents: one root element, nothing but white space, comments and PIs around it
        depth = roots = 0
        for e in js:
            if e[0] == 'S':
                roots += depth == 0
                depth += 1
            elif e[0] == 'E':
                depth -= 1
            elif depth == 0 and (e[0] in ('SC', 'EC') or (e[0] == 'T' and e[1].strip(' \t\n\r'))):
                return 'not-a-document'
        if roots != 1:
            return 'not-a-document'
    rawrun = ''
    incd = False
    cdrun = ''
    for e in js:
        if e[0] == 'SC':
            if incd:
                return 'cdata-unbalanced'
            incd = True
            cdrun = ''
        elif e[0] == 'EC':
            if not incd:
                return 'cdata-unbalanced'
            incd = False
        elif incd and e[0] != 'T':
            return 'cdata-unbalanced'
        elif incd:
            cdrun += e[1]
            if ']]>' in cdrun:
                return 'cdata-end-in-text'
    if incd:
        return 'cdata-unbalanced'
    for i, e in enumerate(js):
        k = e[0]
        if k != 'E' and i > 0 and js[i - 1][0] == 'S' and js[i - 1][1][1] in G.VOID:
            return 'void-not-empty'
        if k in ('DT', 'XD') and stack and stack[-1] in G.RAWTEXT:
            return 'markup-in-rawtext'
        if k == 'T' and stack and stack[-1] in G.RAWTEXT:
            rawrun += e[1]
            if method == 'html' and ('</' in rawrun or rawrun.endswith('<')):
                return 'rawtext-endtag'
        elif k in ('S', 'E'):
            rawrun = ''
        if k == 'S':
            stack.append(e[1][1])
            for a, v in e[2]:
                if not xml_char_ok(v):
                    return 'non-xml-char'
                if method == 'xhtml' and any(c in v for c in '\n\t\r'):
                    return 'attr-ws'
        elif k == 'E':
            if stack:
                stack.pop()
        elif k == 'T':
            if not xml_char_ok(e[1]):
                return 'non-xml-char'
            if method == 'xhtml' and '\r' in e[1]:
                return 'text-cr'
            if stack and stack[-1] in G.RAWTEXT and '</' in e[1] and method == 'html':
                return 'rawtext-endtag'
            if stack and stack[-1] in G.RAWTEXT and e[2]:
                return 'markup-text-in-rawtext'
        elif k == 'C':
            if '--' in e[1] or e[1].endswith('-') or not xml_char_ok(e[1]):
                return 'comment-dashes'
            if method == 'html' and (e[1].startswith('>') or e[1].startswith('->')):
                return 'comment-abrupt'
            if stack and stack[-1] in G.RAWTEXT:
                return 'markup-in-rawtext'
        elif k == 'PI':
            if '?>' in e[2] or (method == 'html' and '>' in e[2]):
                return 'pi-end'
            if method == 'xhtml' and (e[2][:1] in (' ', '\t', '\n', '\r') or e[1].lower() == 'xml'):
                # XML: the white space between target and data is a separator (leading white space of the
                # data cannot be written), and the target `xml` is reserved — limits of the format
                return 'pi-not-representable'
            if stack and stack[-1] in G.RAWTEXT:
                return 'markup-in-rawtext'
    return None


# --------------------------------------------------------------------------
# what the property prescribes (independent statement; HTML 4 vocabulary from gen_streams)

def merged_text(tokens, data):
    if not data:
        return
    if tokens and tokens[-1][0] == 'text':
        tokens[-1][1] += data
    else:
        tokens.append(['text', data])


def expected_tokens(js, method, cfg):
    """token list the re-parse must give; boolean attributes with an empty value are marked
    optional (value '?')"""
    toks = []
    dt_opt = cfg.get('doctype')
    doctype = None
    if dt_opt is not None:
        from_name = {'html': ('html', '-//W3C//DTD HTML 4.01//EN', 'http://www.w3.org/TR/html4/strict.dtd'),
                     'xhtml-strict': ('html', '-//W3C//DTD XHTML 1.0 Strict//EN',
                                      'http://www.w3.org/TR/xhtml1/DTD/xhtml1-strict.dtd'),
                     'html5': ('html', None, None),
                     'xhtml11': ('html', '-//W3C//DTD XHTML 1.1//EN', 'http://www.w3.org/TR/xhtml11/DTD/xhtml11.dtd')}
        doctype = from_name[dt_opt[1].lower()] if dt_opt[0] == 'name' else tuple(dt_opt[1:4])
    else:
        for e in js:
            if e[0] == 'DT':
                doctype = (e[1], e[2], e[3])
                break
    decl = None
    if method == 'xhtml' and not cfg['drop_xml_decl']:
        for e in js:
            if e[0] == 'XD':
                decl = e
                break
    if decl:
        toks.append(['xmldecl', decl[1], decl[2], decl[3]])
    # where the doctype stands: (option) where DocTypeInserter puts it — before the first event, after a
    # leading XML_DECL, at the end of an empty stream; (no option) where the first stream DOCTYPE stands
    if dt_opt is not None:
        dt_pos = 1 if (js and js[0][0] == 'XD') else 0
    else:
        dt_pos = next((i for i, e in enumerate(js) if e[0] == 'DT'), None)
    dt_tok = ['doctype', doctype[0], doctype[1] or None, doctype[2] or None] if doctype else None
    stack = []
    for i, e in enumerate(js):
        k = e[0]
        if dt_tok and i == dt_pos:
            toks.append(dt_tok)
        if k == 'S':
            name = e[1][1] if method == 'html' else ('{%s}%s' % (e[1][0], e[1][1]) if e[1][0] else e[1][1])
            attrs = []
            has_lang = any(a == ['', 'lang'] for a, _ in e[2])
            for a, v in e[2]:
                if a[0] == '' and a[1] in G.BOOLEAN:
                    if method == 'html':
                        attrs.append([a[1], None if v else '?'])
                    else:
                        attrs.append([a[1], a[1]])
                elif a == [G.XMLNS, 'lang']:
                    if method == 'xhtml':
                        attrs.append(['{%s}lang' % G.XMLNS, v])
                    if not has_lang:
                        attrs.append(['lang', v])
                elif a == [G.XMLNS, 'space']:
                    pass
                elif a[0] == '':
                    attrs.append([a[1], v])
                else:
                    raise ValueError('attribute outside the HTML vocabulary: %r' % (a,))
            void = e[1][1] in G.VOID
            toks.append(['start', name, sorted(attrs, key=lambda x: x[0])])
            stack.append((name, void))
        elif k == 'E':
            name, void = stack.pop()
            if not (void and method == 'html'):
                toks.append(['end', name])
        elif k == 'T':
            merged_text(toks, e[1] if not e[2] else _unescape_safe(e[1]))
        elif k == 'C':
            toks.append(['comment', e[1]])
        elif k == 'PI':
            toks.append(['pi', e[1] + ' ' + e[2] + '?'] if method == 'html' else ['pi', e[1], e[2]])
    if dt_tok and dt_pos is not None and dt_pos >= len(js):
        toks.append(dt_tok)
    return toks


def _unescape_safe(s):
    return s.replace('&#34;', '"').replace('&gt;', '>').replace('&lt;', '<').replace('&amp;', '&')


def observed_tokens(text, method):
    if method == 'html':
        out = []
        for t in outlib.html_tokens(text):
            if t[0] == 'decl':
                out.append(parse_html_doctype(t[1]))
            elif t[0] in ('start', 'startend'):
                out.append(['start', t[1], sorted(t[2], key=lambda x: x[0])])
                if t[0] == 'startend':
                    out.append(['selfclosed', t[1]])
            elif t[0] == 'text' and out and out[-1][0] == 'doctype' and t[1].startswith('\n'):
                # the line break the serializer writes after the DOCTYPE (outside the element tree)
                if t[1] != '\n':
                    out.append(['text', t[1][1:]])
            else:
                out.append(t)
        return out
    toks = outlib.xml_tokens(text)
    if isinstance(toks, tuple):
        return toks
    out = []
    for t in toks:
        if t[0] in ('cdata-start', 'cdata-end'):
            continue
        if t[0] == 'text':
            merged_text(out, t[1])
        elif t[0] == 'start':
            out.append(['start', t[1], sorted(t[2], key=lambda x: x[0])])
        elif t[0] == 'xmldecl':
            out.append(['xmldecl', t[1], t[2], t[3]])
        else:
            out.append(t)
    return out


def parse_html_doctype(decl):
    """'DOCTYPE html PUBLIC "a" "b"' -> ['doctype', name, pubid, sysid] (html.parser hands the text over)"""
    import re
    m = re.match(r'DOCTYPE (\S+)(?: PUBLIC "([^"]*)"| SYSTEM)?(?: (?:"([^"]*)"|\'([^\']*)\'))?$', decl, re.S)
    if not m:
        return ['decl', decl]
    return ['doctype', m.group(1), m.group(2), m.group(3) if m.group(3) is not None else m.group(4)]


def match_tokens(exp, obs, strip, method):
    """None when the observed tokens are what the property prescribes, else a description"""
    if isinstance(obs, tuple):
        return 'output is not well-formed: %s' % (obs[1],)
    stack = []
    i = j = 0

    def norm(t):
        return outlib.norm_ws(t) if (strip and not any(stack)) else t
    exp = [list(t) for t in exp]
    obs = [list(t) for t in obs]
    while i < len(exp) or j < len(obs):
        e = exp[i] if i < len(exp) else None
        o = obs[j] if j < len(obs) else None
        if e and e[0] == 'text' and (o is None or o[0] != 'text') and strip and norm(e[1]) == '':
            i += 1
            continue
        if o and o[0] == 'text' and (e is None or e[0] != 'text') and strip and norm(o[1]) == '':
            j += 1
            continue
        if e is None or o is None:
            return 'token %d: expected %r, observed %r' % (i, e, o)
        if e[0] == 'xmldecl':
            enc = e[2]
            sa = e[3]
            if o[0] != 'xmldecl' or o[1] != e[1] or (o[2] or None) != (enc or None) or o[3] != sa:
                return 'XML declaration: expected %r, observed %r' % (e, o)
        elif e[0] == 'start':
            if o[0] != 'start' or o[1] != e[1]:
                return 'token %d: expected %r, observed %r' % (i, e, o)
            ea = [a for a in e[2] if a[1] != '?']
            optional = set(a[0] for a in e[2] if a[1] == '?')
            oa = [a for a in o[2] if a[0] not in optional]
            if ea != oa:
                return 'attributes of <%s>: expected %r, observed %r' % (e[1], e[2], o[2])
        elif e[0] == 'text':
            if o[0] != 'text' or norm(e[1]) != norm(o[1]):
                return 'text: expected %r, observed %r' % (e, o)
        elif e != o:
            return 'token %d: expected %r, observed %r' % (i, e, o)
        i += 1
        j += 1
    return None


def syntax_check(js, text, method):
    """void elements are written without end tag (html) / self-closed (xhtml) and no other element is"""
    import re
    if method == 'xhtml':
        # CDATA sections hold character data only; html.parser (used here as a tag tokenizer) does not know them
        text = re.sub(r'<!\[CDATA\[.*?\]\]>', '', text, flags=re.S)
    toks = outlib.html_tokens(text)
    voids = set(G.VOID)
    for t in toks:
        if t[0] == 'end' and t[1] in voids:
            return 'end tag written for void element %s' % t[1]
        if t[0] == 'startend' and (method == 'html' or t[1] not in voids):
            return 'self-closed tag <%s /> (%s)' % (t[1], method)
        if t[0] == 'start' and method == 'xhtml' and t[1] in voids:
            return 'void element <%s> not self-closed under xhtml' % t[1]
    n_start = sum(1 for t in toks if t[0] == 'start' and t[1] not in voids)
    n_end = sum(1 for t in toks if t[0] == 'end')
    if n_start != n_end:
        return 'non-void start tags %d, end tags %d' % (n_start, n_end)
    n_doctype = text.count('<!DOCTYPE')
    if n_doctype > 1:
        return 'more than one DOCTYPE'
    if method == 'html' and '<?xml' in text.split('>')[0]:
        return 'XML declaration in html output'
    return None


# --------------------------------------------------------------------------
# oracle on one canonical case

def cfg_of(case):
    c = outlib.config(case['method'], case.get('strip', False), case.get('cache', True), case.get('doctype'),
                      case.get('drop_xml_decl', True))
    if case.get('nsprefixes'):
        c['nsprefixes'] = True
    return c


def oracle_case(case):
    js, method = case['stream'], case['method']
    cfg = cfg_of(case)

    def bad(what, expected, observed):
        return {'case': case, 'what': what, 'expected': expected, 'observed': observed}
    out = outlib.render(js, cfg)
    if not isinstance(out, str):
        return bad('serializer does not raise', 'output', list(out))
    exp = expected_tokens(js, method, cfg)
    obs = observed_tokens(out, method)
    if cfg['strip']:
        exp, obs = strip_view(js, exp, obs, method)
    why = match_tokens(exp, obs, False, method)
    if why:
        return bad('%s output re-parses to the stream serialised: %s' % (method, why), exp, obs if not isinstance(obs, tuple) else out)
    why = syntax_check(js, out, method)
    if why:
        return bad('tag syntax: %s' % why, 'void elements without end tag / self-closed, no other element', out)
    return None


def strip_view(js, exp, obs, method):
    """with strip_whitespace=True text is compared modulo the whitespace normal form outside
    pre/textarea (and exactly inside): normalise both token lists accordingly"""
    def view(toks):
        if isinstance(toks, tuple):
            return toks
        out, stack = [], []
        for t in toks:
            t = list(t)
            if t[0] == 'start':
                local = t[1].rsplit('}', 1)[-1]
                void = local in G.VOID
                pres = bool(stack and stack[-1]) or local in G.PRESERVE or \
                    any(a[0] == '{%s}space' % G.XMLNS and a[1] == 'preserve' for a in t[2])
                if not (void and method == 'html'):
                    stack.append(pres)
            elif t[0] == 'end':
                if stack:
                    stack.pop()
            elif t[0] == 'text' and not (stack and stack[-1]):
                t[1] = outlib.norm_ws(t[1])
                if t[1] == '':
                    continue
            out.append(t)
        return out
    # xml:space="preserve" is not visible in html output; streams using it are compared with strip off only
    return view(exp), view(obs)


# --------------------------------------------------------------------------

def has_xml_space(js):
    return any(e[0] == 'S' and any(a == [G.XMLNS, 'space'] for a, _ in e[2]) for e in js)


def shard(arg):
    import random
    seed, idx, n, thorough = arg
    rng = random.Random('%s/%s/C08' % (seed, idx))
    res = Result()
    lines, meta = [], []
    ex_lines, ex_meta = [], []
    ws_lines, ws_meta = [], []
    for _ in range(n):
        profile, knobs = pick_profile(rng)
        js = G.gen_stream(rng, **knobs)
        res.count('profile:' + profile)
        res.count('events', len(js))
        dt = rng.choice(DOCTYPE_OPTS)
        dropd = rng.random() < 0.6
        if G.lean_char_ok(js):
            # (d) WhitespaceFilter as a function on the forest against the real filter objects of the serializers
            # (the filter is total: every generated stream, inside the round trip's domain or not; xml = the filter
            # as the xml serializer configures it: no preserve table, CDATA flag on)
            for wm in ('html', 'xhtml', 'xml'):
                ws_lines.append(proto.line(Atom('C08'), Atom('wsforest'), Atom(wm), G.to_wire(js)))
                ws_meta.append((js, wm))
        for method in ('html', 'xhtml'):
            why = in_domain(js, method, {'doctype': dt})
            if why:
                res.count('excluded:%s:%s' % (method, why))
                if why not in ('attr-ws', 'text-cr'):
                    continue
            for strip in (False, True):
                case = {'stream': js, 'method': method, 'strip': strip, 'cache': rng.random() < 0.7,
                        'doctype': dt, 'drop_xml_decl': dropd}
                if method == 'xhtml' and rng.random() < 0.25:
                    case['nsprefixes'] = True
                    res.count('option:namespace_prefixes')
                # xml:space="preserve" is not visible in html output: the oracle (which compares modulo the
                # whitespace normal form by looking at the re-parsed tree) takes such streams with strip off only;
                # the model / reader / expect correspondences take them in both settings
                if not why and not (strip and has_xml_space(js)):
                    res.evaluations += 1
                    res.count('oracle:%s:%s' % (method, 'strip' if strip else 'nostrip'))
                    f = oracle_case(case)
                    if f:
                        res.failures.append(f)
                    else:
                        feats = features(js)
                        if feats:
                            res.nontrivial.add(json.dumps([method, strip, js], sort_keys=True)[:300])
                        for ft in feats:
                            res.count('feature:' + ft)
                if G.lean_char_ok(js):
                    lines.append(outlib.model_render_line(js, cfg_of(case)))
                    meta.append(case)
                    ex_lines.append(expect_line(case))
                    ex_meta.append((case, why))
                    if profile.startswith('mixed-ns') and (dt is not None or not dropd):
                        # the mixed-namespace tree theorems are stated without a doctype option: one more
                        # comparison of their right-hand side with the parsers, in that configuration
                        case2 = dict(case, doctype=None, drop_xml_decl=True)
                        ex_lines.append(expect_line(case2))
                        ex_meta.append((case2, in_domain(js, method, {'doctype': None})))
        if len(res.samples) < 2:
            res.samples.append({'stream': js, 'profile': profile})
    answers = proto.run_lines(lines)
    rd_lines, rd_meta = [], []
    for case, ans in zip(meta, answers):
        model = outlib.model_answer(ans)
        if model is None:
            res.count('model:unmodelled')
            continue
        real = outlib.render(case['stream'], cfg_of(case))
        res.streams['render'] = res.streams.get('render', 0) + 1
        if model != real:
            res.disagreements.append({'stream': 'render', 'case': case, 'model': repr(model)[:600], 'real': repr(real)[:600]})
        elif isinstance(real, str):
            rd_lines.append(proto.line(Atom('C08'), Atom('read'), Atom(case['method']), real))
            rd_meta.append((case, real))
    for (case, real), ans in zip(rd_meta, proto.run_lines(rd_lines)):
        if ans == 'bad-op':
            res.count('reader:not-built')
            continue
        res.streams['reader'] = res.streams.get('reader', 0) + 1
        model = reader_answer(ans)
        realtoks = reader_canon(observed_tokens(real, case['method']), case['method'])
        if model != realtoks:
            res.disagreements.append({'stream': 'reader', 'case': dict(case, output=real), 'model': repr(model)[:800],
                                      'real': repr(realtoks)[:800]})
    # (c) the right-hand sides of the document-level theorems against the independent parsers
    for (case, why), ans in zip(ex_meta, proto.run_lines(ex_lines)):
        if ans in ('bad-op', 'unmodelled'):
            res.count('expect:' + ans)
            continue
        v = reader_answer(ans)
        tag = case['method'] + (':strip' if case['strip'] else '')
        if isinstance(v, list) and len(v) == 2 and v[0] == 'out':
            res.count('expect:outside:%s:%s' % (tag, v[1]))
            if not why:
                res.count('expect:outside-but-in-oracle-domain:%s' % tag)
            continue
        if not (isinstance(v, list) and len(v) == 2 and v[0] == 'ok'):
            res.disagreements.append({'stream': 'expect', 'case': case, 'model': repr(ans)[:300], 'real': 'ok/out answer'})
            continue
        real = outlib.render(case['stream'], cfg_of(case))
        res.streams['expect'] = res.streams.get('expect', 0) + 1
        res.count('expect:inside:%s' % tag)
        if not why:
            res.count('expect:inside-and-in-oracle-domain:%s' % tag)
        if case['strip']:
            for ft in ws_features(case['stream']):
                res.count('expect:strip-inside:' + ft)
        if not case['strip'] and any(e[0] == 'T' and e[2] for e in case['stream']):
            # `html_roundtrip_doc_markup_partial` / `xhtml_roundtrip_doc_readxml_markup_partial`
            res.count('expect:inside-markup-text:%s' % case['method'])
        if 'mixed-namespaces' in features(case['stream']):
            # `html_roundtrip_tree_mixed_partial` / `xhtml_roundtrip_tree_mixed_tokens_partial` (+ the Lean xmlView)
            res.count('expect:inside-mixed-namespaces:%s' % case['method'])
        realtoks = reader_canon(observed_tokens(real, case['method']), case['method']) if isinstance(real, str) else real
        if v[1] != realtoks:
            res.disagreements.append({'stream': 'expect', 'case': dict(case, output=real), 'model': repr(v[1])[:800],
                                      'real': repr(realtoks)[:800]})
    # (d) the forest function of WhitespaceFilter (`wsForest`, theorem `wsfilter_forest`) against the real filter
    for (js, method), ans in zip(ws_meta, proto.run_lines(ws_lines)):
        if ans in ('bad-op', 'unmodelled'):
            res.count('wsforest:' + ans)
            continue
        v = reader_answer(ans)
        if isinstance(v, list) and len(v) == 2 and v[0] == 'out':
            res.count('wsforest:outside:%s' % v[1])
            continue
        real = real_wsfilter(js, method)
        res.streams['wsforest'] = res.streams.get('wsforest', 0) + 1
        res.count('wsforest:method:' + method)
        for ft in ws_features(js):
            res.count('wsforest:' + ft)
        if not (isinstance(v, list) and len(v) == 4 and v[0] == 'ok'):
            res.disagreements.append({'stream': 'wsforest', 'case': {'stream': js, 'method': method},
                                      'model': repr(ans)[:300], 'real': 'ok answer'})
            continue
        res.count('wsforest:inside-strip-domain' if v[2] == 'T' else 'wsforest:outside-strip-domain')
        realv = wire_value(real)
        if v[1] != realv:
            res.disagreements.append({'stream': 'wsforest', 'case': {'stream': js, 'method': method, 'strip': True},
                                      'model': repr(v[1])[:800], 'real': repr(realv)[:800]})
    return res


def expect_line(case):
    cfg = cfg_of(case)
    return proto.line(Atom('C08'), Atom('expect'), Atom(case['method']), outlib.B(cfg['strip']),
                      outlib.B(cfg['drop_xml_decl']), outlib.doctype_wire(cfg.get('doctype')),
                      G.to_wire(case['stream']))


def real_wsfilter(js, method):
    """what the serializer's own EmptyTagFilter + WhitespaceFilter objects deliver for the stream (JSON form,
    EMPTY events written as START + END); ('err', name) when they raise"""
    from genshi import output
    from genshi.core import START, END
    ser = output.get_serializer(method, strip_whitespace=True)
    flt = [f for f in ser.filters if isinstance(f, (output.EmptyTagFilter, output.WhitespaceFilter))]
    if len(flt) != 2 or not isinstance(flt[1], output.WhitespaceFilter):
        return ('err', 'filter-chain')
    try:
        stream = iter(G.to_events(js))
        for f in flt:
            stream = f(stream)
        evs = []
        for ev in stream:
            if ev[0] is output.EmptyTagFilter.EMPTY:
                evs.append((START, ev[1], ev[2]))
                evs.append((END, ev[1][0], ev[2]))
            else:
                evs.append(ev)
        return G.from_events(evs)
    except Exception as e:  # noqa
        return ('err', type(e).__name__)


def wire_value(js):
    """JSON form -> the value `proto.dec` gives for the same stream on the wire"""
    if isinstance(js, tuple):
        return list(js)
    return json.loads(json.dumps(proto.dec(proto.line(G.to_wire(js)))))


def ws_features(js):
    """what the whitespace filter has to get right on this stream"""
    f = set()
    stack = []
    prev = None
    for e in js:
        if e[0] == 'S':
            stack.append(e[1][1])
            if e[1][1] in G.PRESERVE:
                f.add('preserve-elem')
            if any(a == [G.XMLNS, 'space'] for a, _ in e[2]):
                f.add('xml-space')
        elif e[0] == 'E':
            if stack:
                stack.pop()
        elif e[0] == 'T':
            if prev == 'T':
                f.add('adjacent-text')
            if e[2]:
                f.add('markup-text')
            if any(t in G.PRESERVE for t in stack):
                f.add('text-in-preserved-space')
            if stack and stack[-1] in G.RAWTEXT:
                f.add('text-in-rawtext')
            if outlib.norm_ws(e[1]) != e[1]:
                f.add('text-changed-by-normal-form')
        elif e[0] in ('SC', 'EC'):
            f.add('cdata')
        prev = e[0]
    return sorted(f)


def reader_answer(ans):
    if ans in ('unmodelled', 'error'):
        return ans
    v = proto.dec(ans)
    return json.loads(json.dumps(v))


def reader_canon(toks, method):
    """tokens of the independent parser in the vocabulary of the Lean readers' answer:
    ( S name ( ( attr value|N ) … ) ) ( E name ) ( T text ) ( C text ) ( PI … ) ( DT name pub|N sys|N ) ( XD … )"""
    if isinstance(toks, tuple):
        return 'error'
    out = []
    for t in toks:
        if t[0] == 'start':
            out.append(['S', t[1], [[a, 'N' if v is None else v] if v is not None else [a, 'N'] for a, v in t[2]]])
        elif t[0] == 'end':
            out.append(['E', t[1]])
        elif t[0] == 'selfclosed':
            out.append(['E', t[1]]) if method == 'xhtml' else out.append(['SELF', t[1]])
        elif t[0] == 'text':
            out.append(['T', t[1]])
        elif t[0] == 'comment':
            out.append(['C', t[1]])
        elif t[0] == 'pi':
            out.append(['PI'] + t[1:])
        elif t[0] == 'doctype':
            out.append(['DT', t[1], 'N' if t[2] is None else t[2], 'N' if t[3] is None else t[3]])
        elif t[0] == 'xmldecl':
            out.append(['XD', t[1], 'N' if t[2] is None else t[2], str(t[3])])
        else:
            out.append(['OTHER'] + [str(x) for x in t])
    return out


def features(js):
    f = set()
    stack = []
    nsstack, ctxs, uris = [], {}, set()
    for e in js:
        if e[0] == 'S':
            # the same start tag below parents of different namespaces: its flattened form must differ
            ctxs.setdefault(json.dumps(e, sort_keys=True), set()).add(nsstack[-1] if nsstack else None)
            nsstack.append(e[1][0])
            uris.add(e[1][0])
        elif e[0] == 'E' and nsstack:
            nsstack.pop()
    if len(uris) > 1:
        f.add('mixed-namespaces')
    if any(len(c - {None}) > 1 for c in ctxs.values()):
        f.add('same-start-tag-across-namespace-scopes')
    for e in js:
        if e[0] == 'S':
            stack.append(e[1][1])
            if e[1][1] in G.VOID:
                f.add('void')
            if e[1][1] in G.RAWTEXT:
                f.add('rawtext-elem')
            for a, v in e[2]:
                if a[0] == '' and a[1] in G.BOOLEAN:
                    f.add('boolean-attr' if v else 'boolean-attr-empty')
                if any(c in v for c in '&<>"'):
                    f.add('attr-special')
        elif e[0] == 'E':
            if stack:
                stack.pop()
        elif e[0] == 'T' and any(c in e[1] for c in '&<>'):
            f.add('text-special-raw' if stack and stack[-1] in G.RAWTEXT else 'text-special')
        elif e[0] == 'DT':
            f.add('doctype')
    return sorted(f)


def fixed_cases():
    out = []
    X = G.XHTML
    s1 = [['S', ['', 'div'], []], ['S', ['', 'script'], []], ['E', ['', 'script']], ['T', '<script>alert(1)</script>', False],
          ['E', ['', 'div']]]
    out.append({'stream': s1, 'method': 'html', 'strip': False})
    s2 = [['S', ['', 'p'], []], ['S', ['', 'br'], []], ['E', ['', 'br']],
          ['S', ['', 'input'], [[['', 'checked'], 'checked'], [['', 'value'], 'a"b<c&d']]], ['E', ['', 'input']],
          ['S', ['', 'b'], []], ['E', ['', 'b']], ['E', ['', 'p']]]
    for m in ('html', 'xhtml'):
        out.append({'stream': s2, 'method': m, 'strip': False})
        out.append({'stream': [['DT', 'html', None, None]] + s2, 'method': m, 'strip': False, 'doctype': ['name', 'xhtml-strict']})
    return out


def run(ctx):
    nsh = 16
    per = ctx.n(1000, 9000)
    res = Result()
    for c in fixed_cases():
        res.evaluations += 1
        f = oracle_case(c)
        if f:
            res.failures.append(f)
    for r in pmap('harness.props.c08', 'shard', [(ctx.seed, i, per, ctx.thorough) for i in range(nsh)]):
        res.merge(r)
    res.rule = ('seeded well-nested streams over the HTML vocabulary (void, boolean-attribute, raw-text, whitespace-preserving, '
                'ordinary elements; un-namespaced and XHTML-namespaced; text and attribute values rich in & < > " and entity-like '
                'fragments) x doctype names/tuples, strip_whitespace, drop_xml_decl; non-trivial = has a void element, boolean '
                'attribute, raw-text element, doctype or a special character in text/attribute; distinct by (method, strip, stream)')
    res.samples = res.samples[:4]
    return res


def search(ctx, res, broken):
    found = []
    for d in res.disagreements[:200]:
        c = d.get('case') or {}
        if 'stream' not in c:
            continue
        for m in ('html', 'xhtml'):
            if in_domain(c['stream'], m, c):
                continue
            for strip in (False, True):
                if strip and has_xml_space(c['stream']):
                    continue
                case = {'stream': c['stream'], 'method': m, 'strip': strip, 'cache': c.get('cache', True),
                        'doctype': c.get('doctype'), 'drop_xml_decl': c.get('drop_xml_decl', True)}
                f = oracle_case(case)
                if f:
                    found.append(f)
        if found:
            return found
    for c in fixed_cases():
        f = oracle_case(c)
        if f:
            found.append(f)
    if found:
        return found
    for r in pmap('harness.props.c08', 'shard', [(ctx.seed + 1000 + i, i, 300, True) for i in range(16)]):
        found.extend(r.failures)
    return found


def replay(ctx, case):
    if case.get('method') not in ('html', 'xhtml') or not outlib.valid_config(case) or \
            not G.valid_stream(case.get('stream')) or not G.well_nested(case['stream']):
        return None
    if in_domain(case['stream'], case['method'], case):
        if not case.get('outside_domain'):      # listed findings carry their excluded class on purpose
            return None
    if case.get('strip') and has_xml_space(case['stream']):
        return None
    return oracle_case(case)
